//! Engine `vote` (C17): the inactivity-vote primitive `swimos_runtime::timeout_coord`, driven at
//! call level and across threads, judged against a reference model derived from the property
//! statement (see `model.rs`).
//!
//! Parts (select with `--only <name or prefix>`):
//!  * `exhaustive-2p` / `exhaustive-3p` – every sequence of vote(i) / rescind(i) / drop(i) / poll
//!    up to a depth bound for the two real constructors (drop is terminal for its party). Every
//!    node of the sequence tree is executed from scratch on a fresh coordinator and the answer of
//!    its last call is compared with the model; leaves are closed by dropping every remaining
//!    voter and polling once more. One case per prefix of length ≤ 3.
//!  * `random` – seeded sequences of 40 calls (uniform, caller-disciplined and re-voting mixes).
//!  * `threaded` – one OS thread per party plus a parked waiter, offline interval checker
//!    (`threaded.rs`); meant to be run under ThreadSanitizer and Miri as well.
//!
//! Extra arguments: `--only <part>`, `--depth2 N` / `--depth3 N` (depth bounds of the exhaustive
//! parts; defaults 8 / 6 quick, 10 / 7 thorough), `--vote-after off` (count instead of report a
//! repeated vote that answers `UnanimityPending` after unanimity), `--thread-guard SECS`
//! (wall-clock guard of a threaded run; hitting it is inconclusive).
//!
//! Signatures: `<rule>/<n>p/<facet>/<class>`, where `<class>` says whether the sequence is one the
//! in-tree callers can produce (`caller-discipline`, `caller-revote`) or not (`any-sequence`).
//! Only the *first* divergence of a sequence is reported: everything after it is a consequence.

mod model;
mod threaded;

use std::collections::BTreeMap;
use std::sync::Mutex;
use std::time::Duration;

use common::{json, CaseOut, Rng, Session};
use model::{show_seq, trace_json, Divergence, Exec, Op, Seen};

const P: &str = "C17";
/// Length of the prefixes that become cases of the exhaustive parts.
const PREFIX: usize = 3;

fn alphabet(n: u8, gone: u8) -> Vec<Op> {
    let mut ops = Vec::new();
    for i in 0..n {
        if gone & (1 << i) == 0 {
            ops.push(Op::Vote(i));
            ops.push(Op::Rescind(i));
            ops.push(Op::Drop(i));
        }
    }
    ops.push(Op::Poll);
    ops
}

fn gone_of(seq: &[Op]) -> u8 {
    seq.iter().fold(0, |g, o| if let Op::Drop(i) = o { g | (1 << i) } else { g })
}

/// All valid sequences of length 1..=k, shortest first.
fn prefixes(n: u8, k: usize) -> Vec<Vec<Op>> {
    let mut all: Vec<Vec<Op>> = Vec::new();
    let mut level: Vec<Vec<Op>> = vec![Vec::new()];
    for _ in 0..k {
        let mut next = Vec::new();
        for p in &level {
            for op in alphabet(n, gone_of(p)) {
                let mut q = p.clone();
                q.push(op);
                next.push(q);
            }
        }
        all.extend(next.iter().cloned());
        level = next;
    }
    all
}

/// Order of witnesses: shorter first, then votes before rescinds before drops before polls.
fn witness_key(seq: &[Op]) -> (usize, Vec<(u8, u8)>) {
    let rank = |o: &Op| match o {
        Op::Vote(i) => (0, *i),
        Op::Rescind(i) => (1, *i),
        Op::Drop(i) => (2, *i),
        Op::Poll => (3, 0),
    };
    (seq.len(), seq.iter().map(rank).collect())
}

/// Findings of one case of an exhaustive part: shortest witness per signature.
#[derive(Default)]
struct Acc {
    counters: BTreeMap<&'static str, u64>,
    found: BTreeMap<String, (Vec<Op>, Divergence, u64)>,
    calls: u64,
}

impl Acc {
    fn bump(&mut self, k: &'static str) {
        *self.counters.entry(k).or_insert(0) += 1;
    }

    fn found(&mut self, sig: String, seq: &[Op], d: Divergence) {
        let e = self.found.entry(sig).or_insert_with(|| (seq.to_vec(), d, 0));
        e.2 += 1;
        if witness_key(seq) < witness_key(&e.0) {
            e.0 = seq.to_vec();
        }
    }
}

/// Execute the node `seq` (non-empty) and judge its last call. At a leaf, also close the sequence:
/// drop every remaining voter, then poll (the receiver must be ready once everybody is gone).
fn eval_node(n: u8, seq: &[Op], leaf: bool, acc: &mut Acc) {
    let mut ex = Exec::new(n);
    let last = seq.len() - 1;
    let mut diverged_before = false;
    for (k, op) in seq.iter().enumerate() {
        let o = ex.step(*op);
        if k < last {
            // Judged by the ancestor node; here only: is the last call's divergence the first one?
            diverged_before |= o.div.map_or(false, |d| d.masks);
            continue;
        }
        acc.bump("sequences");
        // Coverage of the hard branches, counted on the last call of every sequence.
        match o.seen {
            Seen::Vote(true) => acc.bump("vote-unanimous"),
            Seen::Vote(false) if o.exp.own_outstanding_before => acc.bump("vote-repeated"),
            Seen::Rescind(true) => acc.bump("rescind-unanimous"),
            Seen::Rescind(false) if o.exp.own_outstanding_before => acc.bump("rescind-withdraws-vote"),
            Seen::Rescind(false) => acc.bump("rescind-without-vote"),
            Seen::Poll(true) => acc.bump("poll-ready"),
            _ => {}
        }
        match o.exp.latched_by {
            "vote" => acc.bump("unanimity-by-vote"),
            "drop-never-voted" => acc.bump("unanimity-by-drop-never-voted"),
            "drop-after-rescind" => acc.bump("unanimity-by-drop-after-rescind"),
            _ => {}
        }
        match o.wake_checked {
            Some(true) => acc.bump("waker-fired-on-unanimity"),
            Some(false) => acc.bump("waker-not-fired-on-unanimity"),
            None => {}
        }
        if o.tolerated {
            acc.bump("vote-pending-after-unanimity-tolerated");
        }
        if let Some(d) = o.div {
            if diverged_before {
                acc.bump("later-divergences-not-reported");
            } else {
                acc.bump(match ex.disc.class() {
                    "caller-discipline" => "first-divergence/caller-discipline",
                    "caller-revote" => "first-divergence/caller-revote",
                    _ => "first-divergence/any-sequence",
                });
                let masks = d.masks;
                acc.found(d.signature(n, ex.disc.class()), seq, d);
                diverged_before |= masks;
            }
        }
    }
    if leaf && !diverged_before {
        let mut ext = seq.to_vec();
        let mut tail: Vec<Op> = (0..n).filter(|i| ex.live(*i)).map(Op::Drop).collect();
        tail.push(Op::Poll);
        for op in tail {
            ext.push(op);
            let o = ex.step(op);
            if let Some(d) = o.div {
                acc.bump("first-divergence/in-closing");
                acc.found(d.signature(n, ex.disc.class()), &ext, d);
                break;
            }
        }
        acc.bump("closed-sequences");
    }
    acc.calls += ex.calls;
}

fn explore(n: u8, seq: &mut Vec<Op>, depth: usize, acc: &mut Acc) {
    eval_node(n, seq, seq.len() == depth, acc);
    if seq.len() < depth {
        for op in alphabet(n, gone_of(seq)) {
            seq.push(op);
            explore(n, seq, depth, acc);
            seq.pop();
        }
    }
}

fn exhaustive_part(s: &mut Session, n: u8, depth: usize, shortest: &Mutex<BTreeMap<String, Vec<Op>>>) {
    let k = PREFIX.min(depth);
    let pre = prefixes(n, k);
    let name = format!("exhaustive-{n}p");
    let rule = format!(
        "every sequence of vote/rescind/drop/poll of length <= {depth} for {n} parties (drop terminal), each executed on a fresh coordinator, last call compared with the reference model, leaves closed by drop-all + poll; one case per valid prefix of length <= {k} (shorter prefixes: that node only; length {k}: the whole subtree); non-trivial when the subtree contains a sequence reaching unanimity and one withdrawing a vote, or the node itself is judged; distinct by prefix"
    );
    s.part(&name, &rule, true, pre.len() as u64, |i, _rng, out| {
        let p = &pre[i as usize];
        let mut acc = Acc::default();
        if p.len() < k {
            eval_node(n, p, p.len() == depth, &mut acc);
        } else {
            let mut seq = p.clone();
            explore(n, &mut seq, depth, &mut acc);
        }
        out.events += acc.calls;
        for (key, v) in &acc.counters {
            out.add(key, *v);
        }
        out.sig(&show_seq(p));
        out.nontrivial = true;
        if i < 3 || p.len() == k && i % 97 == 0 {
            out.set_sample(json!({"prefix": show_seq(p), "sequences": acc.counters.get("sequences"), "calls": acc.calls}));
        }
        for (sig, (seq, d, count)) in acc.found {
            {
                let mut sh = shortest.lock().unwrap();
                let better = sh.get(&sig).map_or(true, |old| witness_key(&seq) < witness_key(old));
                if better {
                    sh.insert(sig.clone(), seq.clone());
                }
            }
            out.violation(
                P,
                sig,
                format!("{} [first divergence of the sequence: {}]", d.what, show_seq(&seq)),
                json!({"witness": trace_json(n, &seq), "sequences_with_this_signature_in_case": count}),
            );
        }
    });
}

#[derive(Clone, Copy, PartialEq, Eq, Debug)]
enum Mix {
    Uniform,
    Disciplined,
    Revote,
}

fn random_case(case: u64, rng: &mut Rng, out: &mut CaseOut, len: usize) {
    let n: u8 = if case % 2 == 0 { 2 } else { 3 };
    let mix = match rng.below(4) {
        0 | 1 => Mix::Uniform,
        2 => Mix::Disciplined,
        _ => Mix::Revote,
    };
    let mut ex = Exec::new(n);
    let mut seq: Vec<Op> = Vec::new();
    let mut withdrew = false;
    let mut first: Option<(Divergence, usize)> = None;
    let mut side_reported = false;
    while seq.len() < len {
        let gone = gone_of(&seq);
        let op = match mix {
            Mix::Uniform => {
                // Drops are rare, so that long sequences stay alive.
                let ops: Vec<Op> = alphabet(n, gone).into_iter().filter(|o| !matches!(o, Op::Drop(_)) || rng.chance(1, 6)).collect();
                *rng.pick(&ops)
            }
            Mix::Disciplined | Mix::Revote => {
                let live: Vec<u8> = (0..n).filter(|i| gone & (1 << i) == 0).collect();
                if live.is_empty() || rng.chance(1, 5) {
                    Op::Poll
                } else {
                    let i = *rng.pick(&live);
                    if rng.chance(1, 14) {
                        Op::Drop(i)
                    } else if ex.disc.may_rescind(i) && !(mix == Mix::Revote && ex.disc.may_vote(i, true) && rng.chance(1, 3)) {
                        Op::Rescind(i)
                    } else if ex.disc.may_vote(i, mix == Mix::Revote) {
                        Op::Vote(i)
                    } else {
                        // The party was told Unanimous: it only waits (or exits).
                        Op::Poll
                    }
                }
            }
        };
        seq.push(op);
        let o = ex.step(op);
        out.events += 1;
        if matches!(o.seen, Seen::Rescind(false)) && o.exp.own_outstanding_before {
            withdrew = true;
        }
        if o.tolerated {
            out.count("vote-pending-after-unanimity-tolerated");
        }
        if let Some(d) = o.div {
            if d.masks {
                first = Some((d, seq.len()));
                break;
            } else if !side_reported {
                // The answer is wrong but primitive and model stay in step: report once, go on.
                side_reported = true;
                out.violation(
                    P,
                    d.signature(n, ex.disc.class()),
                    format!("{} [sequence: {}]", d.what, show_seq(&seq)),
                    json!({"witness": trace_json(n, &seq), "mix": format!("{mix:?}")}),
                );
            }
        }
    }
    out.sig(&(n, show_seq(&seq)));
    out.nontrivial = ex.model.latch && withdrew;
    out.count(match mix {
        Mix::Uniform => "mix-uniform",
        Mix::Disciplined => "mix-disciplined",
        Mix::Revote => "mix-revote",
    });
    if ex.model.latch {
        out.count("reached-unanimity");
    }
    if ex.model.gone_after_rescind != 0 {
        out.count("party-gone-after-rescind");
    }
    if let Some((d, at)) = first {
        out.add("calls-before-first-divergence", at as u64);
        out.violation(
            P,
            d.signature(n, ex.disc.class()),
            format!("{} [first divergence of the sequence: {}]", d.what, show_seq(&seq)),
            json!({"witness": trace_json(n, &seq), "mix": format!("{mix:?}")}),
        );
    } else {
        out.count("sequences-agreeing-with-model");
    }
    if case < 6 {
        out.set_sample(json!({"parties": n, "mix": format!("{mix:?}"), "sequence": show_seq(&seq)}));
    }
}

fn main() {
    let mut s = Session::new("vote");
    if s.prop() != P {
        s.note(format!("engine vote serves C17 only (asked for {})", s.prop()));
        s.finish();
    }
    if s.args.extra.get("vote-after").map_or(false, |v| v == "off") {
        model::REPORT_VOTE_AFTER.store(false, std::sync::atomic::Ordering::Relaxed);
        s.note("--vote-after off: a repeated vote answering UnanimityPending after unanimity is counted, not reported");
    }
    let only = s.args.extra.get("only").cloned();
    let wanted = |name: &str| only.as_ref().map_or(true, |o| name.starts_with(o.as_str()));
    let thorough = s.args.thorough();

    let depth2 = s.args.extra_u64("depth2").unwrap_or(if thorough { 10 } else { 8 }) as usize;
    let depth3 = s.args.extra_u64("depth3").unwrap_or(if thorough { 7 } else { 6 }) as usize;
    let shortest: Mutex<BTreeMap<String, Vec<Op>>> = Mutex::new(BTreeMap::new());
    if wanted("exhaustive-2p") {
        exhaustive_part(&mut s, 2, depth2, &shortest);
    }
    if wanted("exhaustive-3p") {
        exhaustive_part(&mut s, 3, depth3, &shortest);
    }
    for (sig, seq) in shortest.into_inner().unwrap() {
        s.note(format!("shortest witness of {sig}: {}", show_seq(&seq)));
    }

    if wanted("random") {
        let cases = s.args.budget(200_000, 5_000_000);
        s.part(
            "random",
            "seeded sequences of up to 40 calls for 2 and 3 parties (half uniform over vote/rescind/drop/poll with rare drops, a quarter following the in-tree caller discipline, a quarter with the re-voting read task), run until the first divergence from the reference model; non-trivial when unanimity was reached and some vote was withdrawn before; distinct by sequence",
            false,
            cases,
            |i, rng, out| random_case(i, rng, out, 40),
        );
    }

    if wanted("threaded") {
        let cases = s.args.budget(20_000, 400_000);
        let wall = Duration::from_secs(s.args.extra_u64("thread-guard").unwrap_or(120));
        let replay_attempts = if s.args.replay.is_some() { 2_000 } else { 1 };
        s.part(
            "threaded",
            "one OS thread per party (2 or 3) issuing 1-10 random vote/rescind calls (disciplined, re-voting or free) and a final vote or drop, plus a waiter thread parked on the Receiver; three quarters of the runs record ticket intervals and are judged by the interval checker (no claim of unanimity inside a no-vote window; no denial starting after a completed claim), all runs by the logical termination check (waiter finishes, and by being woken); non-trivial when some rescind answered UnanimityPending and unanimity was claimed; distinct by observed schedule",
            false,
            cases,
            |i, rng, out| {
                // The schedule of a threaded case is not a function of the seed: a replay
                // re-runs the same scripts until the finding shows up again (bounded).
                for _ in 0..replay_attempts {
                    let mut r = rng.clone();
                    threaded::run_case(i, &mut r, out, wall);
                    if !out.violations.is_empty() || out.inconclusive.is_some() {
                        break;
                    }
                }
            },
        );
    }
    s.finish()
}
