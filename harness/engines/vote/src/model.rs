//! Reference model of the inactivity vote (derived from the statement of C17, not from the code),
//! the caller-discipline classifier, and the step-wise executor that drives the real
//! `timeout_coord` primitive next to the model.
//!
//! Model state: the set of parties with an *outstanding* vote, the set of parties that are gone
//! (their `Voter` was dropped: they count as voting), and a sticky `latch` that is set the first
//! time `outstanding ∪ gone` is everybody. What the statement demands of the observable results:
//!
//! * a claim of unanimity (`vote`/`rescind` returning `Unanimous`, the receiver polling `Ready`)
//!   may only be made when the latch is set                              (rule `false-unanimity`);
//! * once the latch is set nobody may be told otherwise: a `rescind` answering `UnanimityPending`
//!   promises that the stop has not begun, a `Pending` receiver (or a waker that is never fired)
//!   leaves the runtime waiting forever                                  (rule `missed-unanimity`).
//!   `vote` answering `UnanimityPending` although the latch is set belongs to the same rule with
//!   its own facet (`at-vote-completing` / `at-vote-after`): the doc comment of `vote` promises
//!   "returns whether unanimity has been reached".

use std::future::Future;
use std::pin::Pin;
use std::sync::atomic::{AtomicBool, Ordering};
use std::sync::Arc;
use std::task::{Context, Poll, Wake, Waker};

use common::{json, Json};
use swimos_runtime::verif_hooks::{
    agent_timeout_coordinator, downlink_timeout_coordinator, Receiver, VoteResult, Voter,
};

#[derive(Clone, Copy, PartialEq, Eq, Hash, Debug)]
pub enum Op {
    Vote(u8),
    Rescind(u8),
    /// Drop the `Voter` of the party (terminal for the party).
    Drop(u8),
    /// Poll the `Receiver` with a fresh waker.
    Poll,
}

impl Op {
    pub fn code(self) -> String {
        match self {
            Op::Vote(i) => format!("vote({i})"),
            Op::Rescind(i) => format!("rescind({i})"),
            Op::Drop(i) => format!("drop({i})"),
            Op::Poll => "poll".to_string(),
        }
    }
}

pub fn show_seq(seq: &[Op]) -> String {
    seq.iter().map(|o| o.code()).collect::<Vec<_>>().join(" ")
}

/// What the real primitive answered. The flag is "claims unanimity" (`Unanimous` / `Ready`).
#[derive(Clone, Copy, PartialEq, Eq, Hash, Debug)]
pub enum Seen {
    Vote(bool),
    Rescind(bool),
    Dropped,
    Poll(bool),
}

impl Seen {
    pub fn code(self) -> &'static str {
        match self {
            Seen::Vote(true) | Seen::Rescind(true) => "Unanimous",
            Seen::Vote(false) | Seen::Rescind(false) => "UnanimityPending",
            Seen::Dropped => "-",
            Seen::Poll(true) => "Ready",
            Seen::Poll(false) => "Pending",
        }
    }
}

// ------------------------------------------------------------------------------------------------
// Reference model.

#[derive(Clone, Debug)]
pub struct Model {
    pub n: u8,
    pub all: u8,
    pub outstanding: u8,
    pub gone: u8,
    pub ever_voted: u8,
    /// Parties dropped while they had voted earlier but held no outstanding vote.
    pub gone_after_rescind: u8,
    pub latch: bool,
}

pub struct Expect {
    /// Expected claim of unanimity for vote / rescind / poll (`None` for drop).
    pub claim: Option<bool>,
    /// The latch was set by this very operation.
    pub latched_now: bool,
    /// The party's own vote was outstanding before the operation (vote / rescind / drop).
    pub own_outstanding_before: bool,
    /// How this operation set the latch, for coverage counters.
    pub latched_by: &'static str,
}

impl Model {
    pub fn new(n: u8) -> Model {
        Model { n, all: (1u8 << n) - 1, outstanding: 0, gone: 0, ever_voted: 0, gone_after_rescind: 0, latch: false }
    }

    pub fn apply(&mut self, op: Op) -> Expect {
        let before = self.latch;
        let mut own = false;
        let mut by = "";
        let claim = match op {
            Op::Vote(i) => {
                let bit = 1u8 << i;
                own = self.outstanding & bit != 0;
                self.outstanding |= bit;
                self.ever_voted |= bit;
                by = "vote";
                self.relatch();
                Some(self.latch)
            }
            Op::Rescind(i) => {
                let bit = 1u8 << i;
                own = self.outstanding & bit != 0;
                // Rescinding is only respected before unanimity; afterwards nothing has any effect.
                if !self.latch {
                    self.outstanding &= !bit;
                }
                Some(self.latch)
            }
            Op::Drop(i) => {
                let bit = 1u8 << i;
                own = self.outstanding & bit != 0;
                if !own {
                    if self.ever_voted & bit != 0 {
                        self.gone_after_rescind |= bit;
                        by = "drop-after-rescind";
                    } else {
                        by = "drop-never-voted";
                    }
                }
                self.gone |= bit;
                self.relatch();
                None
            }
            Op::Poll => Some(self.latch),
        };
        let latched_now = !before && self.latch;
        Expect { claim, latched_now, own_outstanding_before: own, latched_by: if latched_now { by } else { "" } }
    }

    fn relatch(&mut self) {
        if (self.outstanding | self.gone) == self.all {
            self.latch = true;
        }
    }

    pub fn json(&self) -> Json {
        json!({"outstanding": bits(self.outstanding, self.n), "gone": bits(self.gone, self.n), "unanimous": self.latch})
    }
}

fn bits(b: u8, n: u8) -> Vec<u8> {
    (0..n).filter(|i| b & (1 << i) != 0).collect()
}

// ------------------------------------------------------------------------------------------------
// Which sequences can the in-tree callers produce? (`agent/task/mod.rs`, `downlink/mod.rs`)
//
// Every task keeps its own `voted` flag: it rescinds only while `voted` (then clears it when told
// `UnanimityPending`), votes only while `!voted` (sets it when told `UnanimityPending`), and leaves
// its loop as soon as either call answers `Unanimous`; it may exit (dropping the `Voter`) at any
// point. The one exception is the agent *read* task (first voter of the three-party constructor):
// its timeout branch calls `vote()` without looking at `voted`, so it votes again on every further
// idle period. Classes, from narrow to wide:
//   caller-discipline  – every party follows the strict discipline;
//   caller-revote      – as above, but party 0 of three voted again while its vote was outstanding;
//   any-sequence       – anything else the API permits.

#[derive(Clone, Copy, PartialEq, Eq, Debug)]
enum PState {
    Idle,
    Voted,
    Done,
    Gone,
}

#[derive(Clone, Debug)]
pub struct Discipline {
    n: u8,
    st: [PState; 3],
    revote: bool,
    broken: bool,
}

impl Discipline {
    pub fn new(n: u8) -> Discipline {
        Discipline { n, st: [PState::Idle; 3], revote: false, broken: false }
    }

    pub fn step(&mut self, op: Op, seen: Seen) {
        match (op, seen) {
            (Op::Vote(i), Seen::Vote(u)) => {
                let s = &mut self.st[i as usize];
                match *s {
                    PState::Idle => {}
                    PState::Voted if self.n == 3 && i == 0 => self.revote = true,
                    _ => self.broken = true,
                }
                *s = if u { PState::Done } else { PState::Voted };
            }
            (Op::Rescind(i), Seen::Rescind(u)) => {
                let s = &mut self.st[i as usize];
                if *s != PState::Voted {
                    self.broken = true;
                }
                *s = if u { PState::Done } else { PState::Idle };
            }
            (Op::Drop(i), _) => self.st[i as usize] = PState::Gone,
            _ => {}
        }
    }

    pub fn class(&self) -> &'static str {
        if self.broken {
            "any-sequence"
        } else if self.revote {
            "caller-revote"
        } else {
            "caller-discipline"
        }
    }

    /// What a disciplined caller in this state may do next (used by the generators).
    pub fn may_vote(&self, i: u8, allow_revote: bool) -> bool {
        match self.st[i as usize] {
            PState::Idle => true,
            PState::Voted => allow_revote && self.n == 3 && i == 0,
            _ => false,
        }
    }

    pub fn may_rescind(&self, i: u8) -> bool {
        self.st[i as usize] == PState::Voted
    }
}

// ------------------------------------------------------------------------------------------------
// Divergences between the primitive and the model.

#[derive(Clone, Debug)]
pub struct Divergence {
    pub rule: &'static str,
    pub facet: String,
    pub what: String,
    /// Whether later divergences of the same sequence are consequences of this one. `false` only
    /// for a repeated vote answering `UnanimityPending` after unanimity: the answer is wrong but
    /// the state of the primitive and of the model stay in step, so exploration goes on below it.
    pub masks: bool,
}

/// `--vote-after off`: do not report (only count) a vote that answers `UnanimityPending` after
/// unanimity had been reached before the call. That demand comes from the doc comment of `vote`
/// ("returns whether unanimity has been reached") rather than from the statement of C17.
pub static REPORT_VOTE_AFTER: AtomicBool = AtomicBool::new(true);

impl Divergence {
    pub fn signature(&self, n: u8, class: &str) -> String {
        format!("{}/{}p/{}/{}", self.rule, n, self.facet, class)
    }
}

/// Facet of a `missed-unanimity` divergence. `gone_after_rescind`: the model's unanimity relies on
/// a party that was dropped without an outstanding vote after having voted and rescinded earlier
/// (one cause, whatever the call at which it surfaces); `acked`: the primitive itself had already
/// claimed unanimity, so denying it now means it was undone.
pub fn missed_facet(at: &str, gone_after_rescind: bool, acked: bool) -> String {
    if gone_after_rescind && !acked {
        "gone-after-rescind".to_string()
    } else if acked && (at == "rescind" || at == "poll") {
        format!("undone-at-{at}")
    } else {
        format!("plain-at-{at}")
    }
}

pub fn false_facet(at: &str, own_outstanding: Option<bool>) -> String {
    match own_outstanding {
        Some(true) => format!("at-{at}-own-vote-outstanding"),
        Some(false) => format!("at-{at}-no-own-vote"),
        None => format!("at-{at}"),
    }
}

// ------------------------------------------------------------------------------------------------
// Executor: the real primitive and the model side by side.

pub struct Flag(pub AtomicBool);

impl Wake for Flag {
    fn wake(self: Arc<Self>) {
        self.0.store(true, Ordering::SeqCst);
    }
}

pub fn make(n: u8) -> (Vec<Option<Voter>>, Receiver) {
    if n == 2 {
        let (a, b, rx) = downlink_timeout_coordinator();
        (vec![Some(a), Some(b)], rx)
    } else {
        let (a, b, c, rx) = agent_timeout_coordinator();
        (vec![Some(a), Some(b), Some(c)], rx)
    }
}

pub fn unanimous(r: VoteResult) -> bool {
    r == VoteResult::Unanimous
}

pub struct StepOut {
    pub seen: Seen,
    pub exp: Expect,
    pub div: Option<Divergence>,
    /// `Some(fired)` when this operation set the model latch while a waker was registered.
    pub wake_checked: Option<bool>,
    /// A repeated vote denied unanimity after the fact and `--vote-after off` was given.
    pub tolerated: bool,
}

pub struct Exec {
    voters: Vec<Option<Voter>>,
    rx: Receiver,
    pub model: Model,
    pub disc: Discipline,
    /// Waker handed to the most recent poll, if that poll returned `Pending`.
    pending_waker: Option<Arc<Flag>>,
    /// The primitive has claimed unanimity at least once.
    pub acked: bool,
    pub calls: u64,
}

impl Exec {
    pub fn new(n: u8) -> Exec {
        let (voters, rx) = make(n);
        Exec { voters, rx, model: Model::new(n), disc: Discipline::new(n), pending_waker: None, acked: false, calls: 0 }
    }

    pub fn live(&self, i: u8) -> bool {
        self.voters[i as usize].is_some()
    }

    /// Perform `op` on the real primitive and on the model; compare. `op` must not address a
    /// party whose voter was dropped (the generators never do).
    pub fn step(&mut self, op: Op) -> StepOut {
        self.calls += 1;
        let seen = match op {
            Op::Vote(i) => Seen::Vote(unanimous(self.voters[i as usize].as_ref().expect("live party").vote())),
            Op::Rescind(i) => Seen::Rescind(unanimous(self.voters[i as usize].as_ref().expect("live party").rescind())),
            Op::Drop(i) => {
                drop(self.voters[i as usize].take());
                Seen::Dropped
            }
            Op::Poll => {
                let flag = Arc::new(Flag(AtomicBool::new(false)));
                let waker = Waker::from(flag.clone());
                let mut cx = Context::from_waker(&waker);
                let ready = matches!(Pin::new(&mut self.rx).poll(&mut cx), Poll::Ready(()));
                // Only the waker of the most recent poll has to be honoured.
                self.pending_waker = if ready { None } else { Some(flag) };
                Seen::Poll(ready)
            }
        };
        let exp = self.model.apply(op);
        self.disc.step(op, seen);
        let gar = self.model.gone_after_rescind != 0;
        let acked = self.acked;
        let latch = self.model.latch;
        let mut div = None;
        match seen {
            Seen::Vote(u) => {
                if u && !latch {
                    div = Some(Divergence {
                        masks: true,
                        rule: "false-unanimity",
                        facet: false_facet("vote", None),
                        what: "vote() returned Unanimous while some party has no outstanding vote".into(),
                    });
                } else if !u && latch && exp.latched_now {
                    div = Some(Divergence {
                        masks: true,
                        rule: "missed-unanimity",
                        facet: missed_facet("vote-completing", gar, acked),
                        what: "vote() returned UnanimityPending although it was the last vote missing (every other party votes or is gone)".into(),
                    });
                } else if !u && latch {
                    // Unanimity predates the call. Either the primitive knows (then only this
                    // answer is wrong and both sides stay in step) or it never noticed (then the
                    // runtime is stuck). The answer alone cannot tell, so look at the receiver:
                    // a harmless probe, the registered waker no longer matters once unanimity
                    // has been reached.
                    let noop = Waker::from(Arc::new(Flag(AtomicBool::new(false))));
                    let mut cx = Context::from_waker(&noop);
                    let knows = matches!(Pin::new(&mut self.rx).poll(&mut cx), Poll::Ready(()));
                    div = Some(if knows {
                        Divergence {
                            masks: false,
                            rule: "missed-unanimity",
                            facet: "plain-at-vote-after".to_string(),
                            what: "vote() returned UnanimityPending although unanimity had been reached before the call (the receiver is Ready)".into(),
                        }
                    } else {
                        Divergence {
                            masks: true,
                            rule: "missed-unanimity",
                            facet: missed_facet("poll", gar, acked),
                            what: "vote() returned UnanimityPending and the receiver is Pending although every party has voted or is gone".into(),
                        }
                    });
                }
            }
            Seen::Rescind(u) => {
                if u && !latch {
                    div = Some(Divergence {
                        masks: true,
                        rule: "false-unanimity",
                        facet: false_facet("rescind", Some(exp.own_outstanding_before)),
                        what: "rescind() returned Unanimous although unanimity was never reached".into(),
                    });
                } else if !u && latch {
                    div = Some(Divergence {
                        masks: true,
                        rule: "missed-unanimity",
                        facet: missed_facet("rescind", gar, acked),
                        what: "rescind() returned UnanimityPending after unanimity had been reached".into(),
                    });
                }
            }
            Seen::Poll(r) => {
                if r && !latch {
                    div = Some(Divergence {
                        masks: true,
                        rule: "false-unanimity",
                        facet: false_facet("poll", None),
                        what: "the receiver is Ready while some party has no outstanding vote and unanimity was never reached".into(),
                    });
                } else if !r && latch {
                    div = Some(Divergence {
                        masks: true,
                        rule: "missed-unanimity",
                        facet: missed_facet("poll", gar, acked),
                        what: "the receiver is Pending although every party has voted or is gone".into(),
                    });
                }
            }
            Seen::Dropped => {}
        }
        // The waker registered by the last Pending poll must have fired by the time the call that
        // completes unanimity returns (a wake at any time after that poll is enough: the task
        // would then be re-polled).
        let mut wake_checked = None;
        if exp.latched_now {
            if let Some(flag) = &self.pending_waker {
                let fired = flag.0.load(Ordering::SeqCst);
                wake_checked = Some(fired);
                if !fired && div.is_none() {
                    div = Some(Divergence {
                        masks: true,
                        rule: "missed-unanimity",
                        facet: missed_facet("waker", gar, acked),
                        what: "unanimity was completed but the waker registered by the pending receiver was not fired".into(),
                    });
                }
            }
        }
        if matches!(seen, Seen::Vote(true) | Seen::Rescind(true) | Seen::Poll(true)) {
            self.acked = true;
        }
        let mut tolerated = false;
        if div.as_ref().map_or(false, |d| !d.masks) && !REPORT_VOTE_AFTER.load(Ordering::Relaxed) {
            div = None;
            tolerated = true;
        }
        StepOut { seen, exp, div, wake_checked, tolerated }
    }
}

/// Full JSON trace of a sequence (for witnesses): every call with its answer, the expected
/// answer and the model state after it.
pub fn trace_json(n: u8, seq: &[Op]) -> Json {
    let mut ex = Exec::new(n);
    let mut steps = Vec::new();
    for op in seq {
        let o = ex.step(*op);
        steps.push(json!({
            "call": op.code(),
            "answer": o.seen.code(),
            "expected_unanimous": o.exp.claim,
            "model_after": ex.model.json(),
            "diverges": o.div.as_ref().map(|d| d.what.clone()),
        }));
    }
    json!({"parties": n, "sequence": show_seq(seq), "class": ex.disc.class(), "steps": steps})
}
