//! Threaded stress of the vote primitive: one OS thread per party, one waiter thread blocking on
//! the `Receiver` with a park/unpark waker, and an offline checker over the recorded call
//! intervals. No verdict depends on wall-clock time: the "waiter never finishes" verdict is decided
//! logically (after every party thread has been joined no call can ever fire the waker again, so a
//! waiter that is still un-woken is told to take one last look).

use std::sync::atomic::{AtomicBool, AtomicUsize, Ordering};
use std::sync::mpsc;
use std::sync::{Arc, Barrier};
use std::task::{Context, Poll, Wake, Waker};
use std::thread::{self, Thread};
use std::time::Duration;
use std::{future::Future, pin::Pin};

use common::{json, CaseOut, Json, Rng};
use swimos_runtime::verif_hooks::{Receiver, Voter};

use crate::model::{false_facet, make, missed_facet, unanimous, Discipline, Op, Seen, REPORT_VOTE_AFTER};

const P: &str = "C17";

#[derive(Clone, Copy, PartialEq, Eq, Debug, Hash)]
pub enum Mode {
    /// Every party follows the in-tree discipline (own `voted` flag, stop on `Unanimous`).
    Disciplined,
    /// As `Disciplined`, but party 0 of three may vote again while voting (agent read task).
    Revote,
    /// Random votes and rescinds, whatever the answers.
    Free,
}

#[derive(Clone, Copy, PartialEq, Eq, Debug, Hash)]
pub enum Kind {
    Vote,
    Rescind,
    Drop,
    Poll,
}

#[derive(Clone, Copy, Debug)]
pub struct Rec {
    /// Party index; `n` for the waiter.
    pub who: u8,
    pub kind: Kind,
    /// Tickets drawn immediately before and after the call (0 in untimed runs).
    pub t0: u64,
    pub t1: u64,
    /// Claim of unanimity (`Unanimous` / `Ready`), `None` for drop.
    pub claim: Option<bool>,
}

fn tick(timed: bool) -> u64 {
    if timed {
        common::ticket()
    } else {
        0
    }
}

fn pause(rng: &mut Rng) {
    match rng.below(10) {
        0..=4 => {}
        5..=7 => {
            for _ in 0..rng.below(20) {
                std::hint::spin_loop();
            }
        }
        8 => {
            for _ in 0..rng.below(200) {
                std::hint::spin_loop();
            }
        }
        _ => thread::yield_now(),
    }
}

/// Start line: a blocking barrier (cheap while the threads are being spawned) followed by a spin
/// gate, so that the threads leave it within nanoseconds of each other and their short scripts
/// really overlap.
pub struct Gate {
    barrier: Barrier,
    arrived: AtomicUsize,
    total: usize,
}

impl Gate {
    fn new(total: usize) -> Gate {
        Gate { barrier: Barrier::new(total), arrived: AtomicUsize::new(0), total }
    }

    fn wait(&self) {
        self.barrier.wait();
        self.arrived.fetch_add(1, Ordering::AcqRel);
        let mut spins = 0u32;
        while self.arrived.load(Ordering::Acquire) < self.total {
            spins += 1;
            if spins % 64 == 0 {
                thread::yield_now();
            } else {
                std::hint::spin_loop();
            }
        }
    }
}

struct PartyPlan {
    steps: u32,
    final_drop: bool,
    rng: Rng,
}

/// Returns the log and the voter if it is still alive (kept alive until the waiter has been
/// judged, so that "final vote" and "final drop" stay different endings).
fn party(i: u8, n: u8, voter: Voter, mut plan: PartyPlan, mode: Mode, timed: bool, barrier: &Gate) -> (Vec<Rec>, Option<Voter>) {
    let mut log = Vec::with_capacity(plan.steps as usize + 1);
    let mut voter = Some(voter);
    let rng = &mut plan.rng;
    // The caller-side flag of the in-tree tasks.
    let mut voted = false;
    let mut done = false;
    let may_revote = mode == Mode::Revote && n == 3 && i == 0;
    barrier.wait();
    for _ in 0..plan.steps {
        pause(rng);
        let v = voter.as_ref().expect("voter alive");
        let do_vote = match mode {
            Mode::Free => rng.chance(1, 2),
            Mode::Disciplined => !voted,
            Mode::Revote => !voted || (may_revote && rng.chance(1, 3)),
        };
        let t0 = tick(timed);
        let claim = if do_vote { unanimous(v.vote()) } else { unanimous(v.rescind()) };
        let t1 = tick(timed);
        log.push(Rec { who: i, kind: if do_vote { Kind::Vote } else { Kind::Rescind }, t0, t1, claim: Some(claim) });
        if claim && mode != Mode::Free {
            done = true;
            break;
        }
        if do_vote {
            voted = true;
        } else if !claim {
            voted = false;
        }
    }
    if !done {
        pause(rng);
        if plan.final_drop {
            let t0 = tick(timed);
            drop(voter.take());
            let t1 = tick(timed);
            log.push(Rec { who: i, kind: Kind::Drop, t0, t1, claim: None });
        } else if mode == Mode::Free || !voted {
            let v = voter.as_ref().expect("voter alive");
            let t0 = tick(timed);
            let claim = unanimous(v.vote());
            let t1 = tick(timed);
            log.push(Rec { who: i, kind: Kind::Vote, t0, t1, claim: Some(claim) });
        }
        // else: a disciplined party whose vote is outstanding simply stays idle.
    }
    (log, voter)
}

struct ParkWaker {
    thread: Thread,
    woken: AtomicBool,
}

impl Wake for ParkWaker {
    fn wake(self: Arc<Self>) {
        self.woken.store(true, Ordering::Release);
        self.thread.unpark();
    }
}

#[derive(Clone, Copy, PartialEq, Eq, Debug)]
pub enum WaiterEnd {
    /// The future completed on its own (first poll, spurious re-poll or after a wake).
    Completed,
    /// Nobody woke the waiter although the receiver is ready: lost wake-up.
    ReadyButNeverWoken,
    /// Every party has finished, the waker cannot fire any more, and the receiver is still pending.
    StillPending,
}

pub struct WaiterLog {
    pub recs: Vec<Rec>,
    pub end: WaiterEnd,
    pub parks: u32,
    pub wakes: u32,
}

fn waiter(n: u8, mut rx: Receiver, mut busy_polls: u32, timed: bool, barrier: &Gate, final_check: &AtomicBool) -> WaiterLog {
    let pw = Arc::new(ParkWaker { thread: thread::current(), woken: AtomicBool::new(false) });
    let waker = Waker::from(pw.clone());
    let mut cx = Context::from_waker(&waker);
    let mut out = WaiterLog { recs: Vec::new(), end: WaiterEnd::Completed, parks: 0, wakes: 0 };
    barrier.wait();
    let mut last_look = false;
    loop {
        let t0 = tick(timed);
        let ready = matches!(Pin::new(&mut rx).poll(&mut cx), Poll::Ready(()));
        let t1 = tick(timed);
        out.recs.push(Rec { who: n, kind: Kind::Poll, t0, t1, claim: Some(ready) });
        if last_look {
            out.end = if ready { WaiterEnd::ReadyButNeverWoken } else { WaiterEnd::StillPending };
            return out;
        }
        if ready {
            return out;
        }
        if busy_polls > 0 {
            // A spurious re-poll is always legal for an executor.
            busy_polls -= 1;
            thread::yield_now();
            continue;
        }
        loop {
            if pw.woken.swap(false, Ordering::Acquire) {
                out.wakes += 1;
                break;
            }
            // `final_check` is set after all party threads have been joined: every wake they
            // could ever cause happened-before that store, so if `woken` is still clear once the
            // flag is visible, no wake will ever arrive.
            if final_check.load(Ordering::Acquire) {
                if pw.woken.swap(false, Ordering::Acquire) {
                    out.wakes += 1;
                } else {
                    last_look = true;
                }
                break;
            }
            out.parks += 1;
            thread::park();
        }
    }
}

/// One call as a compact line, e.g. `[12,15] party1 rescind -> UnanimityPending`.
fn rec_line(r: &Rec, n: u8) -> String {
    use std::fmt::Write;
    let mut s = String::with_capacity(48);
    let _ = write!(s, "[{},{}] ", r.t0, r.t1);
    if r.who == n {
        s.push_str("waiter");
    } else {
        let _ = write!(s, "party{}", r.who);
    }
    s.push_str(match r.kind {
        Kind::Vote => " vote -> ",
        Kind::Rescind => " rescind -> ",
        Kind::Drop => " drop",
        Kind::Poll => " poll -> ",
    });
    s.push_str(match (r.kind, r.claim) {
        (Kind::Poll, Some(true)) => "Ready",
        (Kind::Poll, Some(false)) => "Pending",
        (_, Some(true)) => "Unanimous",
        (_, Some(false)) => "UnanimityPending",
        _ => "",
    });
    s
}

/// One threaded run. `wall_limit` only guards the harness against a hung thread (inconclusive).
pub fn run_case(case: u64, rng: &mut Rng, out: &mut CaseOut, wall_limit: Duration) {
    let t_start = std::time::Instant::now();
    let n: u8 = if case % 2 == 0 { 2 } else { 3 };
    let mode = match rng.below(5) {
        0 | 1 => Mode::Disciplined,
        2 => Mode::Revote,
        _ => Mode::Free,
    };
    // A quarter of the runs draw no tickets at all: the SeqCst ticket counter orders all calls
    // and would hide weak-memory effects from Miri / TSan; those runs only get the
    // program-order and termination checks.
    let timed = !rng.chance(1, 4);
    let busy_polls = if rng.chance(1, 3) { rng.below(6) as u32 } else { 0 };
    let plans: Vec<PartyPlan> = (0..n)
        .map(|_| PartyPlan { steps: rng.range(1, 10) as u32, final_drop: rng.chance(1, 3), rng: rng.fork() })
        .collect();
    let final_drops: Vec<bool> = plans.iter().map(|p| p.final_drop).collect();

    let (voters, rx) = make(n);
    let barrier = Arc::new(Gate::new(n as usize + 1));
    let final_check = Arc::new(AtomicBool::new(false));
    let (ptx, prx) = mpsc::channel::<(u8, Vec<Rec>, Option<Voter>)>();
    let (wtx, wrx) = mpsc::channel::<WaiterLog>();
    let mut handles = Vec::new();
    for (i, (voter, plan)) in voters.into_iter().zip(plans).enumerate() {
        let voter = voter.expect("fresh voter");
        let barrier = barrier.clone();
        let ptx = ptx.clone();
        let h = thread::Builder::new().stack_size(256 << 10).spawn(move || {
            let (log, v) = party(i as u8, n, voter, plan, mode, timed, &barrier);
            let _ = ptx.send((i as u8, log, v));
        });
        match h {
            Ok(h) => handles.push(h),
            Err(_) => {
                out.inconclusive("could not spawn a party thread");
                return;
            }
        }
    }
    let wh = {
        let barrier = barrier.clone();
        let final_check = final_check.clone();
        thread::Builder::new().stack_size(256 << 10).spawn(move || {
            let log = waiter(n, rx, busy_polls, timed, &barrier, &final_check);
            let _ = wtx.send(log);
        })
    };
    let wh = match wh {
        Ok(h) => h,
        Err(_) => {
            // The party threads are stuck on the barrier; let them go.
            barrier.wait();
            out.inconclusive("could not spawn the waiter thread");
            return;
        }
    };

    let mut logs: Vec<Vec<Rec>> = vec![Vec::new(); n as usize];
    let mut kept: Vec<Option<Voter>> = Vec::new();
    for _ in 0..n {
        match prx.recv_timeout(wall_limit) {
            Ok((i, log, v)) => {
                logs[i as usize] = log;
                kept.push(v);
            }
            Err(_) => {
                out.inconclusive("a party thread did not finish within the wall-clock guard");
                return;
            }
        }
    }
    for h in handles {
        let _ = h.join();
    }
    // Everything the parties will ever do has been done.
    final_check.store(true, Ordering::Release);
    wh.thread().unpark();
    let wlog = match wrx.recv_timeout(wall_limit) {
        Ok(l) => l,
        Err(_) => {
            out.inconclusive("the waiter thread did not finish within the wall-clock guard");
            return;
        }
    };
    let _ = wh.join();
    drop(kept);
    out.log(|| format!("case {case}: threads done after {:?}", t_start.elapsed()));

    check(case, n, mode, timed, &logs, &wlog, &final_drops, out);
    out.log(|| format!("case {case}: checked after {:?}", t_start.elapsed()));
}

#[allow(clippy::too_many_arguments)]
fn check(case: u64, n: u8, mode: Mode, timed: bool, logs: &[Vec<Rec>], wlog: &WaiterLog, final_drops: &[bool], out: &mut CaseOut) {
    // Program-order facts per party: discipline class, own outstanding vote before each call,
    // "dropped after a rescind".
    let mut disc = Discipline::new(n);
    let mut own_before: Vec<Vec<bool>> = Vec::new();
    let mut gone_after_rescind = false;
    for log in logs {
        let (mut own, mut ever) = (false, false);
        let mut ob = Vec::new();
        for r in log {
            ob.push(own);
            let c = r.claim.unwrap_or(false);
            match r.kind {
                Kind::Vote => {
                    disc.step(Op::Vote(r.who), Seen::Vote(c));
                    own = true;
                    ever = true;
                }
                Kind::Rescind => {
                    disc.step(Op::Rescind(r.who), Seen::Rescind(c));
                    if !c {
                        own = false;
                    }
                }
                Kind::Drop => {
                    disc.step(Op::Drop(r.who), Seen::Dropped);
                    if ever && !own {
                        gone_after_rescind = true;
                    }
                }
                Kind::Poll => {}
            }
        }
        own_before.push(ob);
    }
    let class = disc.class();

    // Every call as (thread, index in its log, record); the waiter is thread `n`.
    let all: Vec<(usize, usize, &Rec)> = logs
        .iter()
        .chain(std::iter::once(&wlog.recs))
        .enumerate()
        .flat_map(|(w, log)| log.iter().enumerate().map(move |(k, r)| (w, k, r)))
        .collect();
    out.events += all.len() as u64;

    let history = || -> Json {
        let mut v: Vec<&Rec> = all.iter().map(|e| e.2).collect();
        if timed {
            v.sort_by_key(|r| r.t0);
        }
        json!({
            "parties": n, "mode": format!("{mode:?}"), "timed": timed, "class": class,
            "final_drop": final_drops,
            "calls": v.iter().map(|r| rec_line(r, n)).collect::<Vec<_>>(),
            "waiter_end": format!("{:?}", wlog.end),
        })
    };
    // The history is rendered at most once per case (it is what makes a case slow under Miri).
    let mut rendered: Option<Json> = None;
    let mut reported: Vec<String> = Vec::new();
    let mut report = |out: &mut CaseOut, sig: String, what: String| {
        if !reported.contains(&sig) {
            reported.push(sig.clone());
            let h = rendered.get_or_insert_with(&history).clone();
            out.violation(P, sig, what, h);
        }
    };

    // Claims of unanimity that are refuted below are not used as evidence of unanimity by (T2)
    // and (T3): what follows a false claim is a consequence of it, not a second finding.
    let mut refuted: Vec<(usize, usize)> = Vec::new();

    // (T0) Program order alone: a rescind answering Unanimous although the party's own last
    // effective call was a rescind that answered UnanimityPending (or it never voted). The party
    // holds no vote, so unanimity cannot have been reached since, and had it been reached before,
    // that earlier rescind could not have answered UnanimityPending.
    for &(w, k, r) in &all {
        if r.kind == Kind::Rescind && r.claim == Some(true) && !own_before[w][k] {
            refuted.push((w, k));
            report(
                out,
                format!("false-unanimity/{n}p/{}/{class}", false_facet("rescind", Some(false))),
                format!("rescind() of party {w} answered Unanimous although that party holds no vote"),
            );
        }
    }

    if timed {
        // (T1) Windows in which a party certainly holds no vote: from the start until its first
        // vote/drop *starts*; from the *completion* of a rescind that answered UnanimityPending
        // until its next vote/drop starts. The linearisation point of every call lies inside its
        // ticket interval, so a claim of unanimity whose whole interval lies strictly inside such
        // a window was made while that party was not voting, and unanimity cannot have been
        // reached earlier either (the party's rescind would then have had to answer Unanimous;
        // for the initial window nothing precedes it).
        let mut windows: Vec<(u8, u64, u64, &'static str)> = Vec::new();
        for log in logs {
            let next_start = |from: usize| -> u64 {
                log[from..].iter().find(|r| matches!(r.kind, Kind::Vote | Kind::Drop)).map_or(u64::MAX, |r| r.t0)
            };
            if let Some(first) = log.first() {
                windows.push((first.who, 0, next_start(0), "initial"));
            }
            for (k, r) in log.iter().enumerate() {
                if r.kind == Kind::Rescind && r.claim == Some(false) {
                    windows.push((r.who, r.t1, next_start(k + 1), "after-rescind"));
                }
            }
        }
        out.add("windows-checked", windows.len() as u64);
        for &(w, k, c) in all.iter().filter(|e| e.2.claim == Some(true)) {
            if let Some((p, _, _, wk)) = windows.iter().find(|(_, s, e, _)| c.t0 > *s && c.t1 < *e) {
                let (at, own) = match c.kind {
                    Kind::Vote => ("vote", None),
                    Kind::Rescind => ("rescind", Some(own_before[w][k])),
                    _ => ("poll", None),
                };
                if !refuted.contains(&(w, k)) {
                    refuted.push((w, k));
                }
                report(
                    out,
                    format!("false-unanimity/{n}p/{}/{class}", false_facet(at, own)),
                    format!("a claim of unanimity ({at}) lies entirely inside a window ({wk}) in which party {p} holds no vote"),
                );
            }
        }
    }
    let credible: Vec<&(usize, usize, &Rec)> =
        all.iter().filter(|e| e.2.claim == Some(true) && !refuted.contains(&(e.0, e.1))).collect();
    out.add("claims-of-unanimity", credible.len() as u64);
    out.add("claims-refuted", refuted.len() as u64);

    // (T2) Once a claim of unanimity has completed, every call that starts later must agree.
    // Timed runs: "later" by tickets, across threads. Untimed runs: "later" in the same thread.
    let mut denial = |out: &mut CaseOut, r: &Rec, how: &str| {
        let at = match r.kind {
            Kind::Vote => "vote-after",
            Kind::Rescind => "rescind",
            _ => "poll",
        };
        if at == "vote-after" && !REPORT_VOTE_AFTER.load(Ordering::Relaxed) {
            out.count("vote-pending-after-unanimity-tolerated");
            return;
        }
        report(
            out,
            format!("missed-unanimity/{n}p/{}/{class}", missed_facet(at, false, true)),
            format!("a {at} call {how} denies unanimity"),
        );
    };
    if timed {
        if let Some(u1) = credible.iter().map(|e| e.2.t1).min() {
            for e in all.iter().filter(|e| e.2.t0 > u1 && e.2.claim == Some(false)) {
                denial(out, e.2, "that started after a claim of unanimity had completed");
            }
        }
        // Concurrency actually achieved (coverage only).
        let mut overlaps = 0u64;
        for (i, a) in logs.iter().enumerate() {
            for b in logs.iter().skip(i + 1) {
                for x in a {
                    for y in b {
                        if x.t0 < y.t1 && y.t0 < x.t1 {
                            overlaps += 1;
                        }
                    }
                }
            }
        }
        out.add("overlapping-call-pairs", overlaps);
        if overlaps > 0 {
            out.count("runs-with-overlap");
        }
        let mut order: Vec<&Rec> = all.iter().map(|e| e.2).collect();
        order.sort_by_key(|r| r.t0);
        for r in order {
            out.sig(&(r.who, r.kind, r.claim));
        }
    } else {
        for &(w, k, r) in &all {
            if r.claim == Some(false) && credible.iter().any(|c| c.0 == w && c.1 < k) {
                denial(out, r, "made by a thread that had itself been told of unanimity before");
            }
        }
        out.count("untimed-runs");
        for e in &all {
            out.sig(&(e.2.who, e.2.kind, e.2.claim));
        }
    }

    // (T3) At the end every party either holds a vote (its last call was a vote, or it stopped on
    // Unanimous) or is gone, so the waiter must have finished, and by being woken.
    match wlog.end {
        WaiterEnd::Completed => {}
        WaiterEnd::StillPending => report(
            out,
            format!("missed-unanimity/{n}p/{}/{class}", missed_facet("poll", gone_after_rescind, !credible.is_empty())),
            "every party has voted or is gone and no call is in flight, yet the receiver is still Pending: the waiter would wait forever".into(),
        ),
        WaiterEnd::ReadyButNeverWoken => report(
            out,
            format!("missed-unanimity/{n}p/{}/{class}", missed_facet("waker", gone_after_rescind, !credible.is_empty())),
            "the receiver is Ready but the waker registered by the parked waiter was never fired (lost wake-up)".into(),
        ),
    }

    let count = |f: &dyn Fn(&Rec) -> bool| all.iter().filter(|e| f(e.2)).count() as u64;
    let rescind_pending = count(&|r| r.kind == Kind::Rescind && r.claim == Some(false));
    out.add("rescind-pending", rescind_pending);
    out.add("rescind-unanimous", count(&|r| r.kind == Kind::Rescind && r.claim == Some(true)));
    out.add("vote-unanimous", count(&|r| r.kind == Kind::Vote && r.claim == Some(true)));
    out.add("drops", count(&|r| r.kind == Kind::Drop));
    out.add("waiter-parks", wlog.parks as u64);
    out.add("waiter-wakes", wlog.wakes as u64);
    out.add("waiter-polls", wlog.recs.len() as u64);
    out.count(match mode {
        Mode::Disciplined => "mode-disciplined",
        Mode::Revote => "mode-revote",
        Mode::Free => "mode-free",
    });
    out.count(match class {
        "caller-discipline" => "class-caller-discipline",
        "caller-revote" => "class-caller-revote",
        _ => "class-any-sequence",
    });
    if wlog.end == WaiterEnd::Completed {
        out.count("waiter-completed");
    }
    out.nontrivial = rescind_pending > 0 && !credible.is_empty();
    if case < 3 {
        out.set_sample(history());
    }
}
