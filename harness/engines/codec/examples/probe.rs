use bytes::{BufMut, BytesMut};
use swimos_form::read::RecognizerReadable;
use swimos_model::{Text, Value};
use swimos_recon::parser::RecognizerDecoder;
use swimos_recon::WithLenRecognizerDecoder;
use tokio_util::codec::Decoder;

fn main() {
    // 1. bare RecognizerDecoder
    let mut d = RecognizerDecoder::new(Text::make_recognizer());
    let mut b = BytesMut::new();
    b.put_slice(b"a");
    println!("decode(\"a\") -> {:?}, left {}", d.decode(&mut b), b.len());
    b.put_slice(b"bcdefgh");
    println!("decode_eof(..) -> {:?}, left {}", d.decode_eof(&mut b), b.len());

    let mut d = RecognizerDecoder::new(Value::make_recognizer());
    let mut b = BytesMut::new();
    b.put_slice(b"2");
    println!("decode(\"2\") -> {:?}, left {}", d.decode(&mut b), b.len());
    b.put_slice(b"55");
    println!("decode_eof(..) -> {:?}, left {}", d.decode_eof(&mut b), b.len());

    // 2. with length
    let mut d = WithLenRecognizerDecoder::new(Text::make_recognizer());
    let mut b = BytesMut::new();
    b.put_u64(8);
    b.put_slice(b"a");
    println!("withlen 1 -> {:?}, left {}", d.decode(&mut b), b.len());
    b.put_slice(b"bcdefgh");
    println!("withlen 2 -> {:?}, left {}", d.decode(&mut b), b.len());
}
