//! Generators of hostile message contents.

use common::Rng;
use swimos_form::read::RecognizerReadable;
use swimos_form::write::StructuralWritable;
use swimos_model::{Attr, Blob, Item, Text, Value};
use swimos_recon::parser::parse_recognize;
use swimos_recon::print_recon_compact;
use uuid::Uuid;

/// Per-case generation context: frames already encoded in this case (used as bodies, so that
/// payloads contain complete valid frames of the same format) and whether one very long body
/// (around 2^16) has been produced already (at most one per case, they are expensive).
pub struct Ctx {
    pub frames: Vec<Vec<u8>>,
    pub long_used: bool,
    pub allow_long: bool,
    /// Raw-encoded Recon bodies may be surrounded by spaces in this case.
    pub allow_pad: bool,
    /// Values that did not survive a one-shot Recon print/parse and were replaced (C09 matter).
    pub unstable_replaced: u64,
    /// Shrink everything (Miri runs).
    pub tiny: bool,
}

impl Ctx {
    pub fn new(allow_long: bool, allow_pad: bool) -> Ctx {
        Ctx { frames: Vec::new(), long_used: false, allow_long, allow_pad, unstable_replaced: 0, tiny: cfg!(miri) }
    }
}

const TAGGY: &[u8] = &[0, 1, 2, 3, 4, 5, 6, 7, 8, 9, 16, 17, 32, 0x60, 0x80, 0xe0, 0xff];

fn random_bytes(rng: &mut Rng, n: usize) -> Vec<u8> {
    (0..n).map(|_| rng.next_u64() as u8).collect()
}

/// A length in one of the classes the framing code cares about.
fn body_len(rng: &mut Rng, ctx: &mut Ctx) -> usize {
    if ctx.tiny {
        return match rng.below(8) {
            0 => 0,
            1..=5 => rng.range(1, 6) as usize,
            _ => rng.range(7, 14) as usize,
        };
    }
    match rng.below(100) {
        0..=11 => 0,
        12..=36 => rng.range(1, 8) as usize,
        37..=64 => rng.range(9, 64) as usize,
        65..=76 => rng.range(65, 254) as usize,
        77..=88 => *rng.pick(&[255usize, 256, 257]),
        89..=96 => rng.range(258, 1200) as usize,
        _ => {
            if ctx.allow_long && !ctx.long_used {
                ctx.long_used = true;
                *rng.pick(&[65_535usize, 65_536, 65_537])
            } else {
                rng.range(258, 600) as usize
            }
        }
    }
}

/// Uninterpreted body bytes.
pub fn bytes_body(rng: &mut Rng, ctx: &mut Ctx) -> Vec<u8> {
    let n = body_len(rng, ctx);
    if n == 0 {
        return Vec::new();
    }
    let mut v: Vec<u8> = match rng.below(7) {
        // Bytes that look like the tags of the protocols.
        0 => (0..n).map(|_| *rng.pick(TAGGY)).collect(),
        // Big-endian lengths (plausible ones for this very stream) followed by tags.
        1 => {
            let mut v = Vec::new();
            while v.len() < n {
                let l = *rng.pick(&[0u64, 1, 9, 17, n as u64, n.saturating_sub(9) as u64, 255, 256]);
                v.extend_from_slice(&l.to_be_bytes());
                v.push(*rng.pick(TAGGY));
            }
            v
        }
        // A complete frame (or a prefix / suffix of one) encoded earlier in this case.
        2 if !ctx.frames.is_empty() => {
            let mut v = Vec::new();
            while v.len() < n {
                let f = &ctx.frames[rng.usize_below(ctx.frames.len())];
                if f.is_empty() {
                    v.push(0);
                } else {
                    v.extend_from_slice(f);
                }
            }
            v
        }
        3 => vec![0xff; n],
        4 => vec![0x00; n],
        // Recon-looking text.
        5 => {
            let t = b"@update(key:\"k\") {a:1,b:\"x\"} @remove(key:2) @clear @take(3) ";
            (0..n).map(|i| t[i % t.len()]).collect()
        }
        _ => random_bytes(rng, n),
    };
    v.truncate(n);
    v
}

const NAME_PARTS: &[&str] = &[
    "", "a", "/", "/node", "lane", "/ノード", "é", "e\u{301}", "\u{10000}", "\u{ffff}", "\u{0}", " ", "%2F", "/a/b/c",
    "\u{1}\u{2}\u{3}\u{4}", "swim://host:9001", "true", "\"", "\\",
];

/// Node, lane and host names.
pub fn name(rng: &mut Rng, ctx: &mut Ctx) -> String {
    if ctx.tiny {
        return rng.pick(&["", "a", "/n", "é", "ノ", "\u{10000}", "l1"]).to_string();
    }
    match rng.below(12) {
        0 => String::new(),
        1..=7 => {
            let k = rng.range(1, 3);
            (0..k).map(|_| *rng.pick(NAME_PARTS)).collect()
        }
        8..=9 => {
            // Crossing 2^8 bytes, with multi-byte characters so that byte and char counts differ.
            let target = *rng.pick(&[254usize, 255, 256, 257]);
            let mut s = String::new();
            while s.len() < target {
                let c = *rng.pick(&['a', 'é', 'ノ', '/', '\u{10000}']);
                if s.len() + c.len_utf8() <= target {
                    s.push(c);
                } else {
                    s.push('x');
                }
            }
            s
        }
        10 if ctx.allow_long && !ctx.long_used && !ctx.tiny => {
            ctx.long_used = true;
            let target = *rng.pick(&[65_535usize, 65_536, 65_537]);
            let mut s = "/ノード".to_string();
            while s.len() < target {
                s.push('n');
            }
            s
        }
        _ => {
            let n = rng.range(1, 24) as usize;
            (0..n).map(|_| *rng.pick(&['a', 'b', '/', '0', 'é', '\u{3}', '\u{4}'])).collect()
        }
    }
}

pub fn uuid(rng: &mut Rng) -> Uuid {
    Uuid::from_u128(match rng.below(9) {
        0 => 0,
        1 => u128::MAX,
        2 => 1,
        3 => 1u128 << 127,
        4 => u128::from_be_bytes([3; 16]),
        5 => u128::from_be_bytes([0, 0, 0, 0, 0, 0, 0, 9, 1, 0, 0, 0, 0, 0, 0, 0]),
        6 => (u64::MAX as u128) << 64,
        _ => ((rng.next_u64() as u128) << 64) | rng.next_u64() as u128,
    })
}

pub fn count(rng: &mut Rng) -> u64 {
    match rng.below(8) {
        0 => 0,
        1 => 1,
        2 => 9,
        3 => u64::MAX,
        4 => 1 << 32,
        5 => 0x0300_0000_0000_0000,
        _ => rng.next_u64() >> rng.below(64),
    }
}

pub fn id16(rng: &mut Rng) -> u16 {
    match rng.below(7) {
        0 => 0,
        1 => 1,
        2 => 255,
        3 => 256,
        4 => u16::MAX,
        _ => rng.next_u64() as u16,
    }
}

const TEXTS: &[&str] = &[
    "", "a", "name", "with space", "é", "ノード", "\u{10000}", "quote\"q", "back\\slash", "nl\nx", "tab\t", "12", "-1", "@a",
    "{}", "a:b", "true", "false", "x,y", "\u{0}", "%", "a_b-c", "ÿ",
];

fn raw_text(rng: &mut Rng, ctx: &mut Ctx) -> String {
    if ctx.tiny {
        return rng.pick(&["", "a", "ab", "a b", "é", "ノ", "q\"q"]).to_string();
    }
    match rng.below(10) {
        0..=5 => rng.pick(TEXTS).to_string(),
        6..=7 => {
            let k = rng.range(2, 4);
            (0..k).map(|_| *rng.pick(TEXTS)).collect()
        }
        _ => {
            let n = body_len(rng, ctx);
            let ident = rng.bool();
            (0..n)
                .map(|i| if ident { (b'a' + (i % 26) as u8) as char } else { *rng.pick(&['a', ' ', 'é', '"', '\\', 'z', '0']) })
                .collect()
        }
    }
}

fn raw_value(rng: &mut Rng, ctx: &mut Ctx, depth: u32) -> Value {
    if ctx.tiny {
        // Interpreted runs look for undefined behaviour in the buffer handling, not for Recon
        // coverage: numbers with many digits, blobs and records cost minutes each under Miri.
        return match rng.below(6) {
            0 => Value::Extant,
            1 => Value::BooleanValue(rng.bool()),
            2 | 3 => Value::Int32Value(*rng.pick(&[0, 7, -1, 42])),
            4 => Value::text(*rng.pick(&["a", "é", "a b", "ノ"])),
            _ => Value::Record(vec![Attr::of("a")], vec![Item::ValueItem(Value::Int32Value(1))]),
        };
    }
    let top = if depth == 0 { 9 } else { 13 };
    match rng.below(top) {
        0 => Value::Extant,
        1 => Value::BooleanValue(rng.bool()),
        2 => Value::Int32Value(*rng.pick(&[0, 1, -1, 9, i32::MAX, i32::MIN, 255, 256, 65536])),
        3 => Value::Int64Value(*rng.pick(&[i64::MAX, i64::MIN, 1 << 40, -(1 << 40)])),
        4 => Value::UInt64Value(*rng.pick(&[u64::MAX, 1 << 63])),
        5 => Value::Float64Value(*rng.pick(&[0.5, -1.25, 1e10, 3.0e-5, 0.0])),
        6 | 7 => Value::text(raw_text(rng, ctx)),
        8 => {
            let n = rng.below(12) as usize;
            Value::Data(Blob::from_vec(random_bytes(rng, n)))
        }
        _ => {
            let na = rng.below(3);
            let ni = rng.below(4);
            let attrs = (0..na)
                .map(|_| {
                    let name = *rng.pick(&["a", "update", "remove", "tag", "é"]);
                    if rng.bool() {
                        Attr::of(name)
                    } else {
                        Attr::of((name, raw_value(rng, ctx, depth - 1)))
                    }
                })
                .collect();
            let items = (0..ni)
                .map(|_| {
                    if rng.bool() {
                        Item::ValueItem(raw_value(rng, ctx, depth - 1))
                    } else {
                        Item::Slot(raw_value(rng, ctx, depth - 1), raw_value(rng, ctx, depth - 1))
                    }
                })
                .collect();
            Value::Record(attrs, items)
        }
    }
}

/// Compact Recon of a value (what the typed encoders write as the body).
pub fn recon_bytes<T: StructuralWritable>(v: &T) -> Vec<u8> {
    format!("{}", print_recon_compact(v)).into_bytes()
}

/// C10 is about framing: a typed body is only used when the *one-shot* parser maps its compact
/// Recon text back to the same value. Anything else is property C09's business; it is replaced
/// by a plain value and counted.
fn stable<T: StructuralWritable + RecognizerReadable + PartialEq>(v: &T) -> bool {
    let text = format!("{}", print_recon_compact(v));
    matches!(parse_recognize::<T>(text.as_str(), false), Ok(ref back) if back == v)
}

/// A body type of the typed codecs.
pub trait TBody: Clone + PartialEq + std::fmt::Debug + StructuralWritable + RecognizerReadable + Send + Sync + 'static {
    const TY: &'static str;
    fn gen(rng: &mut Rng, ctx: &mut Ctx) -> Self;
}

impl TBody for Value {
    const TY: &'static str = "value";
    fn gen(rng: &mut Rng, ctx: &mut Ctx) -> Value {
        let v = raw_value(rng, ctx, 2);
        if stable(&v) {
            v
        } else {
            ctx.unstable_replaced += 1;
            Value::Int32Value(7)
        }
    }
}

impl TBody for Text {
    const TY: &'static str = "text";
    fn gen(rng: &mut Rng, ctx: &mut Ctx) -> Text {
        let t = Text::new(&raw_text(rng, ctx));
        if stable(&t) {
            t
        } else {
            ctx.unstable_replaced += 1;
            Text::new("seven")
        }
    }
}

/// How a typed body reaches the typed decoder.
#[derive(Clone, Debug, PartialEq, Eq)]
pub enum Via {
    /// Through the typed encoder of the pair.
    Typed,
    /// Through the raw (bytes) encoder of the same wire format, the body being the compact Recon
    /// text surrounded by `lead` / `trail` spaces (what the runtime does with bodies taken from
    /// the network).
    Raw { lead: u8, trail: u8 },
}

impl Via {
    pub fn gen(rng: &mut Rng, ctx: &Ctx) -> Via {
        match rng.below(8) {
            0..=3 => Via::Typed,
            _ => Via::raw_only(rng, ctx),
        }
    }

    pub fn raw_only(rng: &mut Rng, ctx: &Ctx) -> Via {
        if ctx.allow_pad && rng.bool() {
            Via::Raw { lead: rng.below(3) as u8, trail: rng.below(3) as u8 }
        } else {
            Via::Raw { lead: 0, trail: 0 }
        }
    }

    pub fn padded(&self) -> bool {
        matches!(self, Via::Raw { lead, trail } if *lead > 0 || *trail > 0)
    }

    /// Body bytes for the raw encoder.
    pub fn text<T: StructuralWritable>(&self, v: &T) -> Vec<u8> {
        let (lead, trail) = match self {
            Via::Typed => (0, 0),
            Via::Raw { lead, trail } => (*lead as usize, *trail as usize),
        };
        let mut out = vec![b' '; lead];
        out.extend_from_slice(&recon_bytes(v));
        out.extend(std::iter::repeat(b' ').take(trail));
        out
    }
}

/// Does the bare incremental Recon decoder (`RecognizerDecoder<T>`, no framing around it) survive
/// a read boundary at `cut` inside `payload`? It is fed the way the length-delimited decoders feed
/// it: `decode` on the prefix, `decode_eof` once everything is there. Used only to *attribute* a
/// failure of a typed codec under fragmentation: when this fails too, the framing is not at fault.
pub fn bare_ok<T: TBody>(payload: &[u8], cut: usize) -> bool {
    use bytes::BytesMut;
    use swimos_recon::parser::RecognizerDecoder;
    use tokio_util::codec::Decoder;
    if cut == 0 || cut >= payload.len() {
        return true;
    }
    let Ok(text) = std::str::from_utf8(payload) else { return true };
    let Ok(oneshot) = parse_recognize::<T>(text, false) else { return true };
    let r = std::panic::catch_unwind(std::panic::AssertUnwindSafe(|| {
        let mut d = RecognizerDecoder::new(T::make_recognizer());
        let mut b = BytesMut::from(&payload[..cut]);
        match d.decode(&mut b) {
            Ok(Some(v)) => v == oneshot && payload[cut..].iter().all(|c| *c == b' '),
            Ok(None) => {
                b.extend_from_slice(&payload[cut..]);
                matches!(d.decode_eof(&mut b), Ok(Some(v)) if v == oneshot)
            }
            Err(_) => false,
        }
    }));
    r.unwrap_or(false)
}
