//! Engine `codec` (C10): binary frames decode to what was encoded under any fragmentation.
//!
//! For every `Encoder`/`Decoder` pair exported from `swimos_agent_protocol::encoding::*` and
//! `swimos_messages::protocol` (see `pairs.rs`) there are two parts:
//!
//!  * `rt:<pair>`  – a sequence of 1–6 hostile messages is encoded into one buffer by the real
//!    encoder and decoded by the real decoder through a `BytesMut` that grows chunk by chunk:
//!    unsplit, **every single split point**, one byte per read, random multi-splits, and truncated
//!    streams followed by `decode_eof`.
//!  * `mut:<pair>` – a tag or a length prefix of a valid stream is overwritten / has a byte inserted
//!    or deleted; whatever the decoder then returns must be an error, or messages that account
//!    exactly for the bytes consumed.
//!
//! plus `abort-probe`, which repeats in a child process the runs that were stopped because the
//! decoder was about to reserve what a corrupt length announced.

mod drive;
mod gen;
mod pairs;
mod wire;

use std::collections::BTreeMap;

use bytes::BytesMut;
use common::{json, sanitize_sig, CaseOut, Json, Rng, Session};
use swimos_model::{Text, Value};
use swimos_utilities::encoding::BytesStr;
use tokio_util::codec::Decoder;

use drive::{run, End, Eof, Trace, RESERVE_CAP};
use gen::Ctx;
use pairs::*;
use wire::{Extent, FKind, Field};

const P: &str = "C10";

/// Streams up to this length get every single split point; longer ones get every position next to
/// a field or frame boundary plus a random sample of the interior.
const EXHAUSTIVE_LIMIT: usize = if cfg!(miri) { 14 } else { 2048 };
const BYTEWISE_LIMIT: usize = if cfg!(miri) { 64 } else { 3000 };

struct Case<Q: Pair> {
    msgs: Vec<Q::Msg>,
    expected: Vec<Q::Norm>,
    stream: Vec<u8>,
    /// End offset of each frame in `stream`.
    ends: Vec<usize>,
    /// Fields of every frame, offsets absolute in `stream`.
    fields: Vec<Vec<Field>>,
    padded: bool,
    unstable_replaced: u64,
}

fn build<Q: Pair>(rng: &mut Rng, max_msgs: u64, allow_long: bool, allow_pad: bool) -> Result<Case<Q>, String> {
    let mut ctx = Ctx::new(allow_long, allow_pad);
    let n = if ctx.tiny { rng.range(1, max_msgs.min(3)) } else { rng.range(1, max_msgs) };
    // Different initial capacities: the typed encoders write a placeholder length and patch it
    // afterwards at an offset computed from the buffer state.
    let mut dst = match rng.below(3) {
        0 => BytesMut::new(),
        1 => BytesMut::with_capacity(16),
        _ => BytesMut::with_capacity(4096),
    };
    let mut case = Case::<Q> {
        msgs: Vec::new(),
        expected: Vec::new(),
        stream: Vec::new(),
        ends: Vec::new(),
        fields: Vec::new(),
        padded: false,
        unstable_replaced: 0,
    };
    for _ in 0..n {
        let m = Q::gen(rng, &mut ctx);
        let start = dst.len();
        Q::encode(&m, &mut dst).map_err(|e| format!("encoder failed: {e}"))?;
        ctx.frames.push(dst[start..].to_vec());
        case.ends.push(dst.len());
        case.expected.push(Q::expect(&m));
        case.padded |= Q::padded(&m);
        case.msgs.push(m);
    }
    case.stream = dst.to_vec();
    case.unstable_replaced = ctx.unstable_replaced;
    // The reference layout must cover every real frame exactly.
    let mut start = 0;
    for (i, end) in case.ends.iter().enumerate() {
        match wire::parse(Q::format(), &case.stream[start..]) {
            Extent::Frame { len, mut fields, .. } if start + len == *end => {
                for f in &mut fields {
                    f.off += start;
                }
                case.fields.push(fields);
            }
            other => {
                return Err(format!(
                    "reference layout disagrees with the real encoder on frame {i} ({}): frame is {} bytes, layout says {:?}",
                    Q::kind(&case.expected[i]),
                    end - start,
                    match other {
                        Extent::Frame { len, .. } => format!("{len} bytes"),
                        Extent::NeedMore => "incomplete".to_string(),
                        Extent::Invalid(w) => format!("invalid: {w}"),
                    }
                ));
            }
        }
        start = *end;
    }
    Ok(case)
}

fn hex(b: &[u8]) -> String {
    let mut s = String::new();
    for (i, x) in b.iter().enumerate() {
        if i == 400 {
            s.push_str(&format!("…(+{} bytes)", b.len() - 400));
            break;
        }
        s.push_str(&format!("{x:02x}"));
    }
    s
}

fn short<T: std::fmt::Debug>(t: &T) -> String {
    let s = format!("{t:?}");
    if s.chars().count() > 300 {
        format!("{}…", s.chars().take(300).collect::<String>())
    } else {
        s
    }
}

/// A refutation found in one run: (signature tail, description, extra detail).
type Finding = (String, String, Json, Option<usize>);

/// The rule of a signature tail without the message kinds and with a coarse error class:
/// `mismatch/A->B` -> `mismatch`, `error/<kind>/<class>` -> `error/<coarse class>`.
fn rule_only(tail: &str) -> String {
    let parts: Vec<&str> = tail.split('/').collect();
    match parts[0] {
        "error" if parts.len() >= 3 => {
            let class = parts[2];
            if class.contains("Parser") {
                "error/body-parse-error".to_string()
            } else {
                format!("error/{}", class.split('.').take(2).collect::<Vec<_>>().join("."))
            }
        }
        other => other.to_string(),
    }
}

/// Read boundaries of this run that fall strictly inside a Recon payload and that the bare
/// incremental Recon decoder (no framing involved) does not survive either, each with the start
/// offset of its payload.
fn recon_cuts_at_fault<Q: Pair>(case: &Case<Q>, fed_len: usize, cuts: &[usize]) -> Vec<(usize, usize, &'static str)> {
    let mut bad = Vec::new();
    for fields in &case.fields {
        for f in fields {
            if f.kind != FKind::Payload || f.len < 2 || f.off + f.len > fed_len {
                continue;
            }
            let lo = cuts.partition_point(|c| *c <= f.off);
            for c in &cuts[lo..] {
                if *c >= f.off + f.len {
                    break;
                }
                if Q::bare_ok(f.name, &case.stream[f.off..f.off + f.len], c - f.off) == Some(false) {
                    bad.push((*c, f.off, f.name));
                }
            }
        }
    }
    bad
}

// ------------------------------------------------------------------------------------------------
// Round trip oracle.

/// `expected`/`ends`: the frames wholly contained in the bytes that were fed. `truncated`: the fed
/// bytes end inside a further frame.
fn check_rt<Q: Pair>(expected: &[Q::Norm], ends: &[usize], fed_len: usize, truncated: bool, tr: &Trace<Q::Norm>) -> Vec<Finding> {
    let mut f: Vec<Finding> = Vec::new();
    if let End::Panic(msg) = &tr.end {
        f.push((format!("panic/{}", sanitize_sig(msg)), format!("decoder panicked on a valid stream: {msg}"), Json::Null, None));
        return f;
    }
    for (i, e) in tr.emits.iter().enumerate() {
        if i >= expected.len() {
            let rule = if truncated { "message-from-truncated-frame" } else { "extra-message" };
            f.push((
                format!("{rule}/{}", Q::kind(&e.norm)),
                format!("message {i} was returned although only {} complete frames were fed", expected.len()),
                json!({"got": short(&e.norm)}),
                None,
            ));
            return f;
        }
        if e.norm != expected[i] {
            f.push((
                format!("mismatch/{}->{}", Q::kind(&expected[i]), Q::kind(&e.norm)),
                format!("message {i} decoded to something else than what was encoded"),
                json!({"index": i, "expected": short(&expected[i]), "got": short(&e.norm)}),
                Some(i),
            ));
            return f;
        }
        if e.end != ends[i] {
            // A decoder never consumes bytes belonging to the next frame, nor leaves some behind.
            let dir = if e.end > ends[i] { "consumed-into-next-frame" } else { "left-bytes-of-frame" };
            f.push((
                format!("boundary/{dir}/{}", Q::kind(&e.norm)),
                format!("after message {i} the decoder had consumed {} bytes, the frame ends at {}", e.end, ends[i]),
                json!({"index": i}),
                Some(i),
            ));
            return f;
        }
    }
    match &tr.end {
        End::Err { class, text, consumed, fed } => {
            let next = tr.emits.len();
            let kind = if next < expected.len() { Q::kind(&expected[next]) } else { "in-truncated-frame".to_string() };
            f.push((
                format!("error/{kind}/{class}"),
                format!("decode failed on a valid stream while reading message {next}: {text}"),
                json!({"index": next, "consumed": consumed, "fed": fed}),
                Some(next),
            ));
            return f;
        }
        End::NoProgress { fed } => {
            f.push(("no-progress".into(), "decode returned a message without consuming a byte".into(), json!({"fed": fed}), None));
            return f;
        }
        End::HugeReserve(n) => {
            f.push(("huge-reserve-on-valid-stream".into(), format!("decoder about to reserve {n} bytes on a valid stream"), Json::Null, None));
            return f;
        }
        _ => {}
    }
    // Every message whose last byte has been fed must have been delivered: in a live channel there
    // is no end-of-file to flush it, and the peer may be waiting for the reply before sending more.
    for (fed, count) in &tr.progress {
        let due = ends.iter().filter(|e| **e <= *fed).count();
        if *count < due {
            f.push((
                format!("stalled/{}", Q::kind(&expected[*count])),
                format!("{fed} bytes fed = {due} complete frames, but only {count} messages delivered (decode returned None)"),
                json!({"fed": fed, "delivered": count, "due": due, "eof": short(&tr.eof)}),
                Some(*count),
            ));
            return f;
        }
    }
    if !truncated {
        if tr.leftover != 0 {
            f.push(("leftover-bytes".into(), format!("all messages decoded but {} bytes remain in the buffer", tr.leftover), Json::Null, None));
            return f;
        }
        match &tr.eof {
            Eof::NotRun | Eof::None => {}
            Eof::Some(v) => f.push((
                format!("eof-on-empty-buffer/message/{}", v.first().map(|n| Q::kind(n)).unwrap_or_default()),
                "decode_eof on an empty buffer after the last message returned a message".into(),
                json!({"got": short(v)}),
                None,
            )),
            Eof::Err(c) => f.push((
                format!("eof-on-empty-buffer/error/{c}"),
                "decode_eof on an empty buffer after the last message returned an error".into(),
                Json::Null,
                None,
            )),
        }
    } else if let Eof::Some(v) = &tr.eof {
        // tokio semantics at end of file inside a frame: an error or None, never a message.
        f.push((
            format!("eof-in-truncated-frame/message/{}", v.first().map(|n| Q::kind(n)).unwrap_or_default()),
            format!("decode_eof returned a message from a frame of which only a prefix was fed ({fed_len} bytes in all)"),
            json!({"got": short(v)}),
            None,
        ));
    }
    f
}

fn random_cuts(rng: &mut Rng, len: usize) -> Vec<usize> {
    if len < 2 {
        return Vec::new();
    }
    let mut cuts = Vec::new();
    // Long streams: the Recon parser restarts an incomplete token on every call, so thousands of
    // tiny chunks inside one long token are quadratic; keep tiny chunks to a burst.
    let mode = if len > BYTEWISE_LIMIT { 3 + rng.below(2) } else { rng.below(3) };
    match mode {
        // Small chunks all along.
        0 => {
            let max = rng.range(1, 9) as usize;
            let mut p = 0;
            loop {
                p += rng.range(1, max as u64) as usize;
                if p >= len {
                    break;
                }
                cuts.push(p);
            }
        }
        // A handful of cuts anywhere.
        1 | 3 => {
            let k = rng.range(2, 8);
            for _ in 0..k {
                cuts.push(rng.range(1, len as u64 - 1) as usize);
            }
            cuts.sort_unstable();
            cuts.dedup();
        }
        // Mixed: bursts of single bytes between larger chunks.
        2 => {
            let mut p = 0;
            loop {
                p += if rng.chance(1, 3) { rng.range(8, 300) as usize } else { 1 };
                if p >= len {
                    break;
                }
                cuts.push(p);
            }
        }
        // One burst of up to 64 single-byte reads somewhere, large chunks elsewhere.
        _ => {
            let at = rng.range(1, len as u64 - 1) as usize;
            let n = rng.range(1, 64) as usize;
            for p in at..(at + n).min(len) {
                cuts.push(p);
            }
            for _ in 0..rng.below(4) {
                cuts.push(rng.range(1, len as u64 - 1) as usize);
            }
            cuts.sort_unstable();
            cuts.dedup();
        }
    }
    cuts
}

fn split_positions<Q: Pair>(rng: &mut Rng, case: &Case<Q>) -> (Vec<usize>, bool) {
    let len = case.stream.len();
    if len <= EXHAUSTIVE_LIMIT {
        return ((1..len).collect(), true);
    }
    if cfg!(miri) {
        // The interpreter is ~1000 times slower: field starts and frame ends, at most 10 of them,
        // and two positions anywhere.
        let mut all: Vec<usize> = case.fields.iter().flatten().map(|f| f.off).chain(case.ends.iter().copied()).filter(|p| *p >= 1 && *p < len).collect();
        all.sort_unstable();
        all.dedup();
        rng.shuffle(&mut all);
        all.truncate(10);
        for _ in 0..2 {
            all.push(rng.range(1, len as u64 - 1) as usize);
        }
        all.sort_unstable();
        all.dedup();
        return (all, false);
    }
    let mut set = std::collections::BTreeSet::new();
    for fields in &case.fields {
        for f in fields {
            for d in [-1i64, 0, 1] {
                for at in [f.off as i64 + d, (f.off + f.len) as i64 + d] {
                    if at >= 1 && (at as usize) < len {
                        set.insert(at as usize);
                    }
                }
            }
        }
    }
    for e in &case.ends {
        for d in -10i64..=10 {
            let at = *e as i64 + d;
            if at >= 1 && (at as usize) < len {
                set.insert(at as usize);
            }
        }
    }
    let sample = if cfg!(miri) { 4 } else { 160 };
    for _ in 0..sample {
        set.insert(rng.range(1, len as u64 - 1) as usize);
    }
    (set.into_iter().collect(), false)
}

fn rt_case<Q: Pair>(case_idx: u64, rng: &mut Rng, out: &mut CaseOut)
where
    <Q::Dec as Decoder>::Error: std::fmt::Debug,
{
    let allow_pad = case_idx % 5 == 4;
    let allow_long = case_idx % 3 == 0;
    let case = match build::<Q>(rng, 6, allow_long, allow_pad) {
        Ok(c) => c,
        Err(e) => {
            out.inconclusive(e);
            return;
        }
    };
    let len = case.stream.len();
    out.sig(&case.stream);
    out.nontrivial = len >= 2;
    out.add("messages", case.msgs.len() as u64);
    out.add("bytes", len as u64);
    out.add("bodies-replaced-not-recon-stable", case.unstable_replaced);
    for n in &case.expected {
        out.count(&format!("kind/{}", Q::kind(n)));
    }
    if len >= 256 {
        out.count("stream>=2^8");
    }
    if len >= 65536 {
        out.count("stream>=2^16");
    }
    if case.padded {
        out.count("cases-with-padded-bodies");
    }
    let pair = Q::name();
    // The body / string types a pair is instantiated with are coverage, not part of a finding.
    let family = pair.split('.').next().unwrap_or("").to_string();
    let stats = std::cell::Cell::new((0u64, 0u64));

    // Feed the first `t` bytes cut at `cuts` and apply the oracle.
    let eval = |cuts: &[usize], t: usize, with_eof: bool| -> Vec<Finding> {
        let whole = case.ends.iter().filter(|e| **e <= t).count();
        let tr = run::<Q>(&case.stream[..t], cuts, with_eof, false);
        let (c, d) = stats.get();
        stats.set((c + tr.calls, d + tr.emits.len() as u64));
        check_rt::<Q>(&case.expected[..whole], &case.ends[..whole], t, t < len, &tr)
    };

    let mut found: BTreeMap<String, (String, Json)> = BTreeMap::new();
    let mut attributed = 0u64;
    let mut record = |findings: Vec<Finding>, cuts: &[usize], t: usize, with_eof: bool| {
        if findings.is_empty() {
            return;
        }
        // Attribution. All typed codecs hand their Recon bodies to the same incremental parser
        // (`RecognizerDecoder`). When a read boundary of this run lies inside a Recon body and the
        // *bare* RecognizerDecoder (no framing involved) fails on that very boundary, the run is
        // repeated with those boundaries moved to the start of their body. Findings that vanish
        // are the Recon parser's (one signature whatever the pair and the message kind), findings
        // that persist are this pair's framing.
        let bad = recon_cuts_at_fault(&case, t, cuts);
        let persisting: Option<Vec<Finding>> = if bad.is_empty() {
            None
        } else {
            let mut moved: Vec<usize> = cuts.iter().map(|c| bad.iter().find(|b| b.0 == *c).map_or(*c, |b| b.1)).collect();
            moved.sort_unstable();
            moved.dedup();
            Some(eval(&moved, t, with_eof))
        };
        // Under which feeding the rule fired is part of the finding: a decoder that fails on an
        // unsplit buffer is a different defect from one that fails only when frames are split.
        let frag = if cuts.is_empty() { "whole" } else { "split" };
        let plan = json!({"cuts": cuts.iter().take(40).collect::<Vec<_>>(), "n_cuts": cuts.len(), "fed": t, "of": len});
        for (tail, what, detail, index) in findings {
            if let Some(p) = &persisting {
                // What a token cut short can cause is a wrong body or a body parse error; a stall or
                // a header error has another cause even when such a boundary is present.
                let symptom_fits = tail.starts_with("mismatch/") || (tail.starts_with("error/") && tail.contains("Parser"));
                if symptom_fits && !p.iter().any(|g| g.0 == tail) {
                    attributed += 1;
                    let (cut, _, field) = bad[0];
                    found.entry(format!("rt/typed-bodies/incremental-recon-parser-fails-at-read-boundary/{}", rule_only(&tail))).or_insert((
                        format!("{what} (the bare RecognizerDecoder fails on the same read boundary, offset {cut} inside `{field}`; with that boundary moved to the start of the body the run is clean)"),
                        json!({"plan": plan, "detail": detail, "pair": pair, "rule": tail, "cut_inside_recon_body": cut}),
                    ));
                    continue;
                }
            }
            // Bodies padded with spaces are something no in-tree encoder writes (the runtime forwards
            // such bodies from the network): noted in the detail when the message concerned is one.
            let padded = index.map_or(false, |i| i < case.msgs.len() && Q::padded(&case.msgs[i]));
            // A case that already fails unsplit does not report the same rule again for splits.
            if frag != "whole" && found.contains_key(&format!("rt/{family}/{tail}/whole")) {
                continue;
            }
            found
                .entry(format!("rt/{family}/{tail}/{frag}"))
                .or_insert((what, json!({"plan": plan, "detail": detail, "message_has_padded_body": padded})));
        }
    };

    // 1. Unsplit.
    record(eval(&[], len, true), &[], len, true);

    // 2. Every single split point.
    let (positions, exhaustive) = split_positions(rng, &case);
    out.count(if exhaustive { "cases-all-split-points" } else { "cases-boundary+sampled-split-points" });
    out.add("single-split-runs", positions.len() as u64);
    for p in &positions {
        record(eval(&[*p], len, false), &[*p], len, false);
    }

    // 3. One byte per read.
    if len <= BYTEWISE_LIMIT && len >= 2 {
        let cuts: Vec<usize> = (1..len).collect();
        out.count("bytewise-runs");
        record(eval(&cuts, len, true), &cuts, len, true);
    }

    // 4. Random multi-splits.
    let multi = if cfg!(miri) { 1 } else { 8 };
    for _ in 0..multi {
        let cuts = random_cuts(rng, len);
        out.count("multi-split-runs");
        record(eval(&cuts, len, true), &cuts, len, true);
    }

    // 5. End of file inside a frame.
    let trunc = if cfg!(miri) { 1 } else { 4 };
    for _ in 0..trunc {
        if len < 2 {
            break;
        }
        let t = rng.range(1, len as u64 - 1) as usize;
        if case.ends.contains(&t) {
            continue;
        }
        let cuts = if rng.bool() { random_cuts(rng, t) } else { Vec::new() };
        out.count("truncated-eof-runs");
        record(eval(&cuts, t, true), &cuts, t, true);
    }

    let (calls, delivered) = stats.get();
    out.add("decode-calls", calls);
    out.add("findings-attributed-to-recon-parser", attributed);
    out.events += delivered;
    for (sig, (what, detail)) in found {
        out.violation(
            P,
            sig,
            what,
            json!({
                "pair": pair,
                "stream": hex(&case.stream),
                "frame_ends": case.ends,
                "messages": case.msgs.iter().map(short).collect::<Vec<_>>(),
                "observed": detail,
            }),
        );
    }
    if case_idx < 3 {
        out.set_sample(json!({
            "messages": case.msgs.iter().take(3).map(short).collect::<Vec<_>>(),
            "stream_len": len, "single_splits": positions.len(), "all_split_points": exhaustive,
        }));
    }
}

// ------------------------------------------------------------------------------------------------
// Mutation of tags and length prefixes.

struct Mutation {
    bytes: Vec<u8>,
    class: &'static str,
    field: &'static str,
    frame: usize,
}

fn mutate<Q: Pair>(rng: &mut Rng, case: &Case<Q>) -> Option<Mutation> {
    let frame = rng.usize_below(case.fields.len());
    let targets: Vec<&Field> = case.fields[frame].iter().filter(|f| matches!(f.kind, FKind::Tag | FKind::Len)).collect();
    if targets.is_empty() {
        return None;
    }
    let f = *rng.pick(&targets);
    let mut bytes = case.stream.clone();
    let bits = wire::field_bits(f);
    let word = wire::read_int(&bytes, f);
    let old = word & bits;
    let shift = bits.trailing_zeros();
    let max = bits >> shift;
    let set = |bytes: &mut Vec<u8>, v: u64| wire::write_int(bytes, f, (word & !bits) | ((v & max) << shift));
    let class: &'static str = match rng.below(10) {
        // Structural edits inside the field.
        0 => {
            let at = f.off + rng.usize_below(f.len + 1);
            let r = rng.next_u64() as u8;
            bytes.insert(at, *rng.pick(&[0u8, 1, 3, 0xff, r]));
            "insert-byte"
        }
        1 => {
            bytes.remove(f.off + rng.usize_below(f.len));
            "delete-byte"
        }
        2 => {
            let bit = rng.below(8 * f.len as u64) as usize;
            bytes[f.off + bit / 8] ^= 0x80 >> (bit % 8);
            "flip-bit"
        }
        _ if f.kind == FKind::Tag => {
            let v = old >> shift;
            let new = if max == 0xff {
                match rng.below(4) {
                    0..=1 => rng.below(9),
                    2 => v | *rng.pick(&[0x10u64, 0x20, 0x40, 0x80]),
                    _ => rng.below(256),
                }
            } else {
                rng.below(max + 1)
            };
            set(&mut bytes, new);
            "tag-value"
        }
        _ => {
            let v = old >> shift;
            let (new, class) = match rng.below(11) {
                0 => (0, "len-zero"),
                1 => (v.wrapping_sub(1), "len-minus-1"),
                2 => (v.wrapping_add(1), "len-plus-1"),
                3 => (v.saturating_sub(rng.range(2, 17)), "len-minus-small"),
                4 => (v.wrapping_add(rng.range(2, 17)), "len-plus-small"),
                5 => (v.wrapping_add(256), "len-plus-256"),
                6 => (rng.below(v.saturating_add(64).max(1)), "len-random-small"),
                7 => (rng.range(1 << 12, (RESERVE_CAP >> 4).min(max)), "len-large"),
                8 => (rng.below(case.stream.len() as u64 + 2), "len-within-stream"),
                // Values next to the top of the range: arithmetic on them must not wrap or panic.
                _ => (*rng.pick(&[max, max - 7, max - 8, max - 16, (max >> 1) + 1, (max >> 1) + 10]), "len-huge"),
            };
            set(&mut bytes, new);
            class
        }
    };
    if bytes == case.stream {
        return None;
    }
    Some(Mutation { bytes, class, field: f.name, frame })
}

/// What the messages a decoder returned for a (mutated) stream must satisfy.
fn check_mut<Q: Pair>(stream: &[u8], tr: &Trace<Q::Norm>, framing: bool) -> Vec<Finding> {
    let mut f: Vec<Finding> = Vec::new();
    let mut pos = 0usize;
    // Messages returned by decode, then at most one returned by decode_eof.
    let mut emitted: Vec<(&Q::Norm, usize)> = tr.emits.iter().map(|e| (&e.norm, e.end)).collect();
    if let Eof::Some(v) = &tr.eof {
        if v.len() == 1 {
            emitted.push((&v[0], stream.len() - tr.eof_leftover));
        }
    }
    if !framing {
        emitted.clear();
    }
    for (norm, end) in emitted {
        let kind = Q::kind(norm);
        if end < pos || end > stream.len() {
            break;
        }
        let consumed = &stream[pos..end];
        if Q::canonical() {
            // The encoding of these codecs is canonical: a returned message stands for the bytes
            // that were consumed only if it encodes to exactly those bytes. Anything else is a
            // message the sender cannot have written – a silently wrong message.
            match Q::reencode(norm) {
                Some(re) if re == consumed => {}
                Some(re) => {
                    let fields = match wire::parse(Q::format(), &re) {
                        Extent::Frame { fields, .. } => fields,
                        _ => Vec::new(),
                    };
                    let field = wire::first_difference(&re, &fields, consumed);
                    f.push((
                        format!("not-the-bytes-consumed/{field}"),
                        format!("a {kind} message was returned for bytes that are not its encoding (first difference in field `{field}`)"),
                        json!({"consumed": hex(consumed), "reencoded": hex(&re), "message": short(norm), "at": pos}),
                        None,
                    ));
                    return f;
                }
                None => {}
            }
        } else {
            // No canonical text for Recon bodies: only the framing is checked, against the length
            // prefixes present in the mutated bytes.
            match wire::parse(Q::format(), &stream[pos..]) {
                Extent::Frame { len, .. } if pos + len == end => {}
                Extent::Frame { len, .. } => {
                    let dir = if end > pos + len { "consumed-into-next-frame" } else { "left-bytes-of-frame" };
                    f.push((
                        format!("boundary/{dir}"),
                        format!("the length prefixes put the end of the frame at {}, the decoder returned a {kind} having consumed up to {end}", pos + len),
                        json!({"frame_start": pos, "frame": hex(consumed), "message": short(norm)}),
                        None,
                    ));
                    return f;
                }
                Extent::NeedMore => {
                    f.push((
                        "message-before-frame-complete".to_string(),
                        format!("a {kind} was returned although the length prefixes announce more bytes than the stream holds"),
                        json!({"frame_start": pos, "consumed": hex(consumed), "message": short(norm)}),
                        None,
                    ));
                    return f;
                }
                Extent::Invalid(why) => {
                    f.push((
                        format!("invalid-header-accepted/{why}"),
                        format!("a {kind} was returned for a frame whose header is invalid ({why})"),
                        json!({"frame_start": pos, "consumed": hex(consumed), "message": short(norm)}),
                        None,
                    ));
                    return f;
                }
            }
        }
        pos = end;
    }
    match &tr.end {
        End::Panic(msg) => f.push((format!("panic/{}", sanitize_sig(msg)), format!("decoder panicked: {msg}"), Json::Null, None)),
        End::NoProgress { fed } => f.push(("no-progress".into(), "decode returned a message without consuming a byte".into(), json!({"fed": fed}), None)),
        _ => {}
    }
    f
}

fn mut_case<Q: Pair>(case_idx: u64, rng: &mut Rng, out: &mut CaseOut)
where
    <Q::Dec as Decoder>::Error: std::fmt::Debug,
{
    let case = match build::<Q>(rng, 4, false, false) {
        Ok(c) => c,
        Err(e) => {
            out.inconclusive(e);
            return;
        }
    };
    let Some(m) = mutate(rng, &case) else {
        out.count("mutation-was-identity");
        return;
    };
    out.sig(&m.bytes);
    out.nontrivial = true;
    out.count(&format!("mutation/{}", m.class));
    out.count(&format!("field/{}", m.field));
    let pair = Q::name();
    let family = pair.split('.').next().unwrap_or("").to_string();
    let mut found: BTreeMap<String, (String, Json)> = BTreeMap::new();
    let cuts = random_cuts(rng, m.bytes.len());
    for (frag, cuts) in [("whole", Vec::new()), ("split", cuts)] {
        let tr = run::<Q>(&m.bytes, &cuts, true, true);
        out.add("decode-calls", tr.calls);
        out.events += tr.emits.len() as u64 + 1;
        out.count(match &tr.end {
            End::Err { .. } => "outcome/error",
            End::Drained if tr.leftover > 0 || !matches!(tr.eof, Eof::None) => "outcome/waiting-for-more-then-eof",
            End::Drained => "outcome/all-consumed",
            End::HugeReserve(_) => "outcome/stopped-before-huge-reserve",
            End::Panic(_) => "outcome/panic",
            End::NoProgress { .. } => "outcome/no-progress",
        });
        // What a mutated stream decodes to is judged on the unsplit run; the split run of the same
        // stream only has to stay free of panics and of messages made from nothing (how valid
        // frames fare under fragmentation is the business of the `rt:` parts).
        for (tail, what, detail, _) in check_mut::<Q>(&m.bytes, &tr, frag == "whole") {
            found.entry(format!("mut/{family}/{tail}")).or_insert((
                what,
                json!({"detail": detail, "fed": frag, "cuts": cuts.iter().take(40).collect::<Vec<_>>(), "trace_end": short(&tr.end), "eof": short(&tr.eof)}),
            ));
        }
    }
    for (sig, (what, detail)) in found {
        out.violation(
            P,
            sig,
            what,
            json!({
                "pair": pair,
                "original": hex(&case.stream),
                "mutated": hex(&m.bytes),
                "mutation": {"class": m.class, "field": m.field, "frame": m.frame},
                "messages": case.msgs.iter().map(short).collect::<Vec<_>>(),
                "observed": detail,
            }),
        );
    }
    if case_idx < 3 {
        out.set_sample(json!({"mutation": m.class, "field": m.field, "stream_len": m.bytes.len()}));
    }
}

// ------------------------------------------------------------------------------------------------
// Corrupt bodies: the lengths stay right, the Recon text of one payload does not.

/// One payload byte of a frame that is not the last one is overwritten so that the body is (very
/// likely) no longer what its type accepts. The stream is decoded unsplit and at every single split
/// point; whatever the decoder does unsplit (reject the frame, or accept it because the edit was
/// benign) it must do under every split: the same messages before the frame, an error no later than
/// the read that completes the frame, and never a byte of the following frame consumed.
fn body_case<Q: Pair>(case_idx: u64, rng: &mut Rng, out: &mut CaseOut)
where
    <Q::Dec as Decoder>::Error: std::fmt::Debug,
{
    let case = match build::<Q>(rng, 4, false, false) {
        Ok(c) => c,
        Err(e) => {
            out.inconclusive(e);
            return;
        }
    };
    if case.ends.len() < 2 {
        out.count("single-frame-stream");
        return;
    }
    let frame = rng.usize_below(case.ends.len() - 1);
    let payloads: Vec<&Field> = case.fields[frame].iter().filter(|f| f.kind == FKind::Payload && f.len > 0).collect();
    if payloads.is_empty() {
        out.count("frame-without-payload");
        return;
    }
    let f = *rng.pick(&payloads);
    let mut bytes = case.stream.clone();
    let at = f.off + rng.usize_below(f.len);
    let junk: &[u8] = &[b'}', b')', b'$', b'@', b'"', b'{', 0x01, b':', b',', 0xff, 0xc3];
    bytes[at] = *rng.pick(junk);
    if bytes == case.stream {
        out.count("mutation-was-identity");
        return;
    }
    out.sig(&bytes);
    let frame_end = case.ends[frame];
    let pair = Q::name();
    let family = pair.split('.').next().unwrap_or("").to_string();
    let reference = run::<Q>(&bytes, &[], false, false);
    out.add("decode-calls", reference.calls);
    let ref_err = match &reference.end {
        End::Err { consumed, .. } => Some(*consumed),
        End::Drained => None,
        other => {
            // panics and no-progress on such streams are reported by the `mut:` rules too
            out.violation(P, format!("body/{family}/unsplit-{}", match other { End::Panic(_) => "panic", _ => "no-progress" }), "the decoder panicked or made no progress on a frame with a corrupt body", json!({"pair": pair, "stream": hex(&bytes), "end": short(other)}));
            return;
        }
    };
    out.nontrivial = true;
    out.count(if ref_err.is_some() { "body-rejected-unsplit" } else { "body-still-accepted-unsplit" });
    let mut found: BTreeMap<String, (String, Json)> = BTreeMap::new();
    let positions: Vec<usize> = if bytes.len() <= EXHAUSTIVE_LIMIT { (1..bytes.len()).collect() } else { let mut v: Vec<usize> = (0..200).map(|_| 1 + rng.usize_below(bytes.len() - 1)).collect(); v.sort(); v.dedup(); v };
    for p in positions {
        let tr = run::<Q>(&bytes, &[p], false, false);
        out.add("decode-calls", tr.calls);
        out.events += tr.emits.len() as u64 + 1;
        // messages before the corrupt frame
        let n_before = reference.emits.iter().filter(|e| e.end <= frame_end.min(ref_err.unwrap_or(usize::MAX))).count();
        let same_prefix = tr.emits.len() >= n_before.min(reference.emits.len()) && tr.emits.iter().zip(reference.emits.iter()).take(n_before).all(|(a, b)| a.norm == b.norm && a.end == b.end);
        let where_ = if p < frame_end && p > (if frame == 0 { 0 } else { case.ends[frame - 1] }) { "inside-the-frame" } else { "elsewhere" };
        if !same_prefix && !matches!(tr.end, End::Panic(_)) {
            found.entry(format!("body/{family}/messages-before-differ")).or_insert(("the messages decoded before a frame with a corrupt body depend on how the stream is split".into(), json!({"split": p, "unsplit": short(&reference.emits), "split_run": short(&tr.emits)})));
            continue;
        }
        match (&ref_err, &tr.end) {
            (Some(_), End::Err { fed, .. }) => {
                // (Where the decoder stands after it has failed is not constrained: a framed reader ends with
                // the first error.)
                let due = if p >= frame_end { p } else { bytes.len() };
                if *fed > due {
                    found.entry(format!("body/{family}/error-late/split-{where_}")).or_insert(("the error for a frame with a corrupt body was reported only after bytes beyond the read that completed the frame".into(), json!({"split": p, "fed_at_error": fed, "frame_end": frame_end})));
                }
            }
            (Some(_), End::Drained) if tr.emits.len() == case.ends.len() => {
                found.entry(format!("body/{family}/rejected-unsplit-accepted-when-split/split-{where_}")).or_insert((
                    "unsplit the frame with the corrupt body is rejected; under this split it is accepted (a message is made from it) and every following frame is delivered".into(),
                    json!({"split": p, "frame_end": frame_end, "message_made": tr.emits.get(frame).map(|e| short(&e.norm))}),
                ));
            }
            (Some(_), End::Drained) => {
                found.entry(format!("body/{family}/error-lost/split-{where_}")).or_insert((
                    "unsplit the frame with the corrupt body is rejected; under this split the whole stream was fed and the decoder neither failed nor delivered the following frames".into(),
                    json!({"split": p, "frame_end": frame_end, "messages": tr.emits.len(), "left_in_buffer": tr.leftover}),
                ));
            }
            (None, End::Drained) => {
                let same = tr.emits.len() == reference.emits.len() && tr.emits.iter().zip(reference.emits.iter()).all(|(a, b)| a.norm == b.norm && a.end == b.end);
                if !same {
                    found.entry(format!("body/{family}/accepted-differently/split-{where_}")).or_insert(("a stream that decodes without error unsplit decodes to different messages under a split".into(), json!({"split": p, "unsplit": short(&reference.emits), "split_run": short(&tr.emits)})));
                }
            }
            (None, End::Err { class, .. }) => {
                found.entry(format!("body/{family}/rejected-only-when-split/split-{where_}")).or_insert(("a stream that decodes without error unsplit is rejected under a split".into(), json!({"split": p, "error": class})));
            }
            (_, End::Panic(msg)) => {
                found.entry(format!("body/{family}/panic/{}", sanitize_sig(msg))).or_insert((format!("decoder panicked: {msg}"), json!({"split": p})));
            }
            (_, other) => {
                found.entry(format!("body/{family}/other-end")).or_insert(("unexpected end of the run".into(), json!({"split": p, "end": short(other)})));
            }
        }
    }
    for (sig, (what, detail)) in found {
        out.violation(P, sig, what, json!({"pair": pair, "stream": hex(&bytes), "corrupt_frame": frame, "byte_at": at, "frame_ends": case.ends, "observed": detail}));
    }
    if case_idx < 3 {
        out.set_sample(json!({"corrupt_frame": frame, "byte_at": at, "stream_len": bytes.len(), "rejected_unsplit": ref_err.is_some()}));
    }
}

// ------------------------------------------------------------------------------------------------
// Child-process probe: corrupt lengths that make a decoder reserve what they announce.

/// A valid one-message stream of the pair whose first 8-byte (or 4-byte) length prefix is
/// overwritten with `value`; fed unsplit to the decoder. Run in the child.
fn probe_stream<Q: Pair>(value: u64) -> Option<Vec<u8>> {
    let mut rng = Rng::new(0xC0DEC);
    for _ in 0..200 {
        let case = build::<Q>(&mut rng, 1, false, false).ok()?;
        // The last length field: the body length of the routed messages.
        if let Some(f) = case.fields[0].iter().filter(|f| f.kind == FKind::Len).last() {
            let mut bytes = case.stream.clone();
            let bits = wire::field_bits(f);
            let word = wire::read_int(&bytes, f);
            wire::write_int(&mut bytes, f, (word & !bits) | (value & bits));
            return Some(bytes);
        }
    }
    None
}

fn probe_child<Q: Pair>(value: u64) -> !
where
    <Q::Dec as Decoder>::Error: std::fmt::Debug,
{
    if let Some(stream) = probe_stream::<Q>(value) {
        let mut dec = Q::decoder();
        let mut buf = BytesMut::from(&stream[..]);
        // A panic exits with 101, an allocation failure aborts; both are told apart by the parent.
        let _ = dec.decode(&mut buf);
        std::process::exit(0)
    }
    std::process::exit(9)
}

struct Probe {
    pair: String,
    reserves: bool,
}

fn main() {
    let mut s = Session::new("codec");
    if s.prop() != P {
        s.note(format!("engine codec serves {P} only"));
        s.finish();
    }
    let probe_target = s.args.extra.get("probe-pair").cloned();
    let probe_value = s.args.extra_u64("probe-value").unwrap_or(1 << 40);
    let rt_cases = s.args.budget(220, 7_000);
    let mut_cases = s.args.budget(1_500, 50_000);
    let body_cases = s.args.budget(300, 10_000);
    // `--only <substring>`: restrict to the pairs whose name contains it (sharding Miri runs).
    let only = s.args.extra.get("only").cloned();
    let mut probes: Vec<Probe> = Vec::new();
    // Miri with Stacked Borrows (its default) rejects `nom_locate::LocatedSpan::get_utf8_column`
    // (nom_locate 4.2.0 rebuilds the consumed prefix from a pointer into an empty remainder), which
    // the incremental Recon parser calls after every chunk: the interpreter stops there, before
    // reaching anything of swim-rust. With `-Zmiri-tree-borrows` in MIRIFLAGS everything runs;
    // without it the pairs whose decoder parses Recon are left out (and listed in the notes).
    let tree_borrows = std::env::var("MIRIFLAGS").map_or(false, |f| f.contains("tree-borrows")) || s.args.extra.contains_key("tree-borrows");
    if cfg!(miri) && s.args.verbose {
        eprintln!("MIRIFLAGS as seen by the program: {:?}", std::env::var("MIRIFLAGS"));
    }
    let skip_recon_decoders = cfg!(miri) && !tree_borrows;
    let mut skipped: Vec<String> = Vec::new();

    macro_rules! pair {
        ($q:ty) => {{
            let name = <$q as Pair>::name();
            if let Some(t) = &probe_target {
                if *t == name {
                    probe_child::<$q>(probe_value);
                }
            } else if only.as_ref().map_or(false, |o| !name.contains(o.as_str())) {
            } else if skip_recon_decoders && <$q as Pair>::recon_decoder() {
                skipped.push(name);
            } else {
                probes.push(Probe { pair: name.clone(), reserves: <$q as Pair>::reserve_guard(&[0xffu8; 64]).is_some() });
                s.part(
                    &format!("rt:{name}"),
                    "1-6 generated messages encoded into one buffer by the real encoder, decoded unsplit, at every single split point (streams > 2 KiB: every position next to a field/frame boundary + 160 sampled), one byte per read (streams <= 3000 bytes), 8 random multi-splits, 4 truncations + decode_eof; oracle: same messages in order, consumed bytes = frame end after each message, every message delivered once its last byte is fed, empty buffer and decode_eof = None at the end, no message out of a truncated frame; non-trivial when the stream has at least one split point; distinct by the encoded stream (under Miri: tiny messages, <= 12 split points)",
                    false,
                    rt_cases,
                    |i, rng, out| rt_case::<$q>(i, rng, out),
                );
                s.part(
                    &format!("mut:{name}"),
                    "one tag or length prefix of a valid 1-4 message stream overwritten / a bit flipped / a byte inserted or deleted in it, decoded unsplit and under a random multi-split, then decode_eof; oracle: no panic, no message from zero bytes, and (unsplit run) every returned message re-encodes to exactly the bytes consumed (raw codecs) or ends where the length prefixes present say and has a valid header (typed codecs); Err and waiting for more bytes are always accepted; non-trivial when the mutation changed the stream; distinct by the mutated stream",
                    false,
                    mut_cases,
                    |i, rng, out| mut_case::<$q>(i, rng, out),
                );
                if !<$q as Pair>::canonical() {
                    s.part(
                        &format!("body:{name}"),
                        "a valid 2-4 message stream of a typed codec in which one byte of a Recon payload of a frame that is not the last is overwritten (lengths untouched), decoded unsplit and at every single split point (long streams: 200 sampled); oracle: whatever the decoder does unsplit (reject the frame, or accept a benign edit) it does under every split - same messages before the frame, the error no later than the read that completes the frame, no acceptance and no error that exists only under a split; non-trivial when the edit changed the stream; distinct by the edited stream",
                        false,
                        body_cases,
                        |i, rng, out| body_case::<$q>(i, rng, out),
                    );
                }
            }
        }};
    }

    // swimos_agent_protocol::encoding::map
    pair!(MapOpRaw);
    pair!(MapOpTyped<TextValue>);
    pair!(MapOpTyped<ValueText>);
    pair!(MapMsgRaw);
    pair!(MapMsgTyped<TextValue>);
    pair!(MapMsgTyped<ValueText>);
    // ::lane
    pair!(LaneReqValueRaw);
    pair!(LaneReqValueTyped<Value>);
    pair!(LaneReqValueTyped<Text>);
    pair!(LaneReqMapRaw);
    pair!(LaneReqMapTyped<TextValue>);
    pair!(LaneReqMapTyped<ValueText>);
    pair!(LaneRespValueRaw);
    pair!(LaneRespValueTyped<Value>);
    pair!(LaneRespValueTyped<Text>);
    pair!(LaneRespMapRaw);
    pair!(LaneRespMapTyped<TextValue>);
    pair!(LaneRespMapTyped<ValueText>);
    // ::store
    pair!(StoreInitValueRaw);
    pair!(StoreInitValueTyped<Value>);
    pair!(StoreInitValueTyped<Text>);
    pair!(StoreInitMapRaw);
    pair!(StoreInitMapTyped<TextValue>);
    pair!(StoreInitMapTyped<ValueText>);
    pair!(StoreInitializedPair);
    pair!(StoreRespValue<Value>);
    pair!(StoreRespValue<Text>);
    pair!(StoreRespMap<TextValue>);
    pair!(StoreRespMap<ValueText>);
    // ::downlink
    pair!(DlNotificationValue<Value>);
    pair!(DlNotificationValue<Text>);
    pair!(DlNotificationMap<TextValue>);
    pair!(DlNotificationMap<ValueText>);
    pair!(DlOperation<Value>);
    pair!(DlOperation<Text>);
    // ::command
    pair!(CommandRaw<BytesStr>);
    pair!(CommandRaw<String>);
    pair!(CommandRaw<Text>);
    pair!(CommandTyped<BytesStr, Value>);
    pair!(CommandTyped<Text, Text>);
    // swimos_messages::protocol
    pair!(RequestRaw);
    pair!(RequestTyped<Value>);
    pair!(RequestTyped<Text>);
    pair!(ResponseRaw);
    pair!(ResponseTyped<Value>);
    pair!(ResponseTyped<Text>);

    if probe_target.is_some() {
        eprintln!("unknown --probe-pair");
        std::process::exit(9);
    }
    if !skipped.is_empty() {
        s.note(format!(
            "Miri without -Zmiri-tree-borrows: {} pairs whose decoder runs the incremental Recon parser were skipped (nom_locate 4.2.0 violates Stacked Borrows): {}",
            skipped.len(),
            skipped.join(", ")
        ));
    }

    // Corrupt lengths in the range where an allocation of that size fails (rather than overflowing
    // `isize`, which panics): a decoder that reserves what the prefix announces aborts the process.
    if !cfg!(miri) {
        let reserving: Vec<&Probe> = probes.iter().filter(|p| p.reserves).collect();
        let values: [u64; 3] = [1 << 40, 1 << 46, (1 << 61) - 1];
        let n = (reserving.len() * values.len()) as u64;
        s.part(
            "abort-probe",
            "for each decoder that reserves what a length prefix announces: a valid one-message stream with the last length prefix set to 2^40, 2^46, 2^61-1, decoded in a child process; the child must exit normally (None / Err), not be killed by an allocation failure",
            true,
            n,
            |i, _rng, out| {
                use std::os::unix::process::ExitStatusExt;
                let p = reserving[i as usize / values.len()];
                let v = values[i as usize % values.len()];
                let exe = match std::env::current_exe() {
                    Ok(e) => e,
                    Err(e) => {
                        out.inconclusive(format!("current_exe: {e}"));
                        return;
                    }
                };
                let status = std::process::Command::new(exe)
                    .args(["--prop", P, "--probe-pair", &p.pair, "--probe-value", &v.to_string()])
                    .stdout(std::process::Stdio::null())
                    .stderr(std::process::Stdio::null())
                    .status();
                out.events += 1;
                out.nontrivial = true;
                out.sig(&(p.pair.as_str(), v));
                match status {
                    Ok(st) if st.code() == Some(0) => out.count("child-exited-normally"),
                    Ok(st) if st.code() == Some(101) => {
                        out.count("child-panicked");
                        out.violation(
                            P,
                            format!("mut/{}/panic-on-large-length", p.pair.split('.').next().unwrap_or("")),
                            "decoder panicked on a large corrupt length (child process exit code 101)",
                            json!({"length": v}),
                        );
                    }
                    Ok(st) if st.signal().is_some() => {
                        out.count("child-killed-by-signal");
                        out.violation(
                            P,
                            format!("mut/{}/process-abort-on-large-length", p.pair.split('.').next().unwrap_or("")),
                            format!(
                                "decoder reserved the {v} bytes announced by a corrupt length prefix: the allocation failed and the process was killed by signal {}",
                                st.signal().unwrap_or(0)
                            ),
                            json!({"length": v, "signal": st.signal()}),
                        );
                    }
                    Ok(st) => out.inconclusive(format!("probe child exit status {st:?}")),
                    Err(e) => out.inconclusive(format!("cannot spawn probe child: {e}")),
                }
                if i < 3 {
                    out.set_sample(json!({"pair": p.pair, "length": v}));
                }
            },
        );
    }

    s.finish()
}
