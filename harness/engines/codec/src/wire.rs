//! Reference description of the wire formats, written from the layouts the *encoders* produce.
//!
//! It is used for three things only, never to decide what a valid stream decodes to:
//!  * to locate tags and length prefixes inside frames produced by the real encoders (targets of
//!    the mutation parts, interesting split positions for long streams). Every case first checks
//!    that the layout of each real frame covers the frame exactly (a mismatch is a harness bug and
//!    makes the case inconclusive);
//!  * for codecs that have no canonical re-encoding (typed bodies), to say where a frame of a
//!    *mutated* stream ends according to the length prefixes that are present in it;
//!  * to name the field at which a re-encoded message differs from the bytes that were consumed.
//!
//! Validity is read strictly: a tag outside the set the encoder writes, or a length that
//! contradicts another length in the same frame, is `Invalid`.

#[derive(Clone, Copy, Debug, PartialEq, Eq)]
pub enum FKind {
    Tag,
    Len,
    Fixed,
    Payload,
}

#[derive(Clone, Debug)]
pub struct Field {
    pub name: &'static str,
    pub off: usize,
    pub len: usize,
    pub kind: FKind,
    /// For `Tag`/`Len`: the bits of the big-endian integer made of the `len` bytes that carry the
    /// tag / the length (the routed messages pack both into one u64).
    pub mask: u64,
}

#[derive(Clone, Debug)]
pub enum Extent {
    Frame { len: usize, fields: Vec<Field> },
    NeedMore,
    Invalid(&'static str),
}

#[derive(Clone, Copy, Debug, PartialEq, Eq)]
pub enum Inner {
    /// u64 length + opaque body.
    WithLen,
    /// Map operation (update / remove / clear).
    MapOp,
    /// Map message (map operation + take / drop).
    MapMsg,
}

#[derive(Clone, Copy, Debug, PartialEq, Eq)]
pub enum Format {
    Bare(Inner),
    LaneReq(Inner),
    LaneResp(Inner),
    StoreInit(Inner),
    StoreResp(Inner),
    StoreInitialized,
    /// Downlink notification; `Some(inner)` when the event body is itself a binary frame.
    DlNotification(Option<Inner>),
    Command,
    Request,
    Response,
}

enum Stop {
    NeedMore,
    Invalid(&'static str),
}

struct Cur<'a> {
    b: &'a [u8],
    base: usize,
    pos: usize,
    fields: Vec<Field>,
}

fn full_mask(n: usize) -> u64 {
    if n >= 8 {
        u64::MAX
    } else {
        (1u64 << (8 * n)) - 1
    }
}

impl<'a> Cur<'a> {
    fn int(&mut self, name: &'static str, n: usize, kind: FKind, mask: u64) -> Result<u64, Stop> {
        if self.b.len() - self.pos < n {
            return Err(Stop::NeedMore);
        }
        let mut v = 0u64;
        for i in 0..n {
            v = (v << 8) | self.b[self.pos + i] as u64;
        }
        self.fields.push(Field { name, off: self.base + self.pos, len: n, kind, mask });
        self.pos += n;
        Ok(v)
    }

    fn tag(&mut self, name: &'static str) -> Result<u8, Stop> {
        self.int(name, 1, FKind::Tag, 0xff).map(|v| v as u8)
    }

    fn len64(&mut self, name: &'static str) -> Result<u64, Stop> {
        self.int(name, 8, FKind::Len, u64::MAX)
    }

    fn fixed(&mut self, name: &'static str, n: usize) -> Result<(), Stop> {
        if self.b.len() - self.pos < n {
            return Err(Stop::NeedMore);
        }
        self.fields.push(Field { name, off: self.base + self.pos, len: n, kind: FKind::Fixed, mask: 0 });
        self.pos += n;
        Ok(())
    }

    fn payload(&mut self, name: &'static str, n: u64) -> Result<&'a [u8], Stop> {
        let avail = (self.b.len() - self.pos) as u64;
        if avail < n {
            return Err(Stop::NeedMore);
        }
        let n = n as usize;
        let s = &self.b[self.pos..self.pos + n];
        self.fields.push(Field { name, off: self.base + self.pos, len: n, kind: FKind::Payload, mask: 0 });
        self.pos += n;
        Ok(s)
    }

    fn utf8(&mut self, name: &'static str, n: u64) -> Result<(), Stop> {
        let s = self.payload(name, n)?;
        if std::str::from_utf8(s).is_err() {
            return Err(Stop::Invalid("name-not-utf8"));
        }
        Ok(())
    }
}

const MAP_UPDATE: u8 = 0;
const MAP_REMOVE: u8 = 1;
const MAP_CLEAR: u8 = 2;
const MAP_TAKE: u8 = 3;
const MAP_DROP: u8 = 4;

fn map_frame(c: &mut Cur<'_>, with_take_drop: bool) -> Result<&'static str, Stop> {
    let total = c.len64("map-total-len")?;
    let tag = c.tag("map-tag")?;
    match tag {
        MAP_UPDATE => {
            // Report a contradictory total as soon as it is visible, like every decoder does.
            if total < 9 {
                return Err(Stop::Invalid("update-total-too-small"));
            }
            let key_len = c.len64("map-key-len")?;
            if key_len > total - 9 {
                return Err(Stop::Invalid("key-len-exceeds-total"));
            }
            c.payload("map-key", key_len)?;
            c.payload("map-value", total - 9 - key_len)?;
            Ok("Update")
        }
        MAP_REMOVE => {
            if total < 1 {
                return Err(Stop::Invalid("remove-total-too-small"));
            }
            c.payload("map-key", total - 1)?;
            Ok("Remove")
        }
        MAP_CLEAR => {
            if total != 1 {
                return Err(Stop::Invalid("clear-total-not-1"));
            }
            Ok("Clear")
        }
        MAP_TAKE | MAP_DROP if with_take_drop => {
            if total != 9 {
                return Err(Stop::Invalid("take-drop-total-not-9"));
            }
            c.fixed("map-count", 8)?;
            Ok(if tag == MAP_TAKE { "Take" } else { "Drop" })
        }
        _ => Err(Stop::Invalid("map-tag")),
    }
}

fn inner_frame(c: &mut Cur<'_>, inner: Inner) -> Result<&'static str, Stop> {
    match inner {
        Inner::WithLen => {
            let n = c.len64("body-len")?;
            c.payload("body", n)?;
            Ok("Body")
        }
        Inner::MapOp => map_frame(c, false),
        Inner::MapMsg => map_frame(c, true),
    }
}

// Tags of the lane / store protocols (crate root of swimos_agent_protocol).
const COMMAND: u8 = 0;
const SYNC: u8 = 1;
const SYNC_COMPLETE: u8 = 2;
const EVENT: u8 = 3;
const INIT_DONE: u8 = 4;
const INITIALIZED: u8 = 5;

// Downlink notifications.
const DL_LINKED: u8 = 1;
const DL_SYNCED: u8 = 2;
const DL_EVENT: u8 = 3;
const DL_UNLINKED: u8 = 4;

// Ad hoc command flags.
const F_REGISTRATION: u8 = 0b0001;
const F_REGISTERED: u8 = 0b0010;
const F_HAS_HOST: u8 = 0b0100;
const F_OVERWRITE: u8 = 0b1000;

pub const OP_SHIFT: u32 = 61;
pub const OP_MASK: u64 = 0b111 << OP_SHIFT;

fn frame(c: &mut Cur<'_>, format: Format) -> Result<&'static str, Stop> {
    match format {
        Format::Bare(inner) => inner_frame(c, inner),
        Format::LaneReq(inner) => match c.tag("tag")? {
            COMMAND => inner_frame(c, inner).map(|_| "Command"),
            SYNC => c.fixed("sync-id", 16).map(|_| "Sync"),
            INIT_DONE => Ok("InitComplete"),
            _ => Err(Stop::Invalid("lane-request-tag")),
        },
        Format::LaneResp(inner) => match c.tag("tag")? {
            EVENT => inner_frame(c, inner).map(|_| "StandardEvent"),
            INITIALIZED => Ok("Initialized"),
            SYNC => {
                c.fixed("sync-id", 16)?;
                inner_frame(c, inner).map(|_| "SyncEvent")
            }
            SYNC_COMPLETE => c.fixed("sync-id", 16).map(|_| "Synced"),
            _ => Err(Stop::Invalid("lane-response-tag")),
        },
        Format::StoreInit(inner) => match c.tag("tag")? {
            COMMAND => inner_frame(c, inner).map(|_| "Command"),
            INIT_DONE => Ok("InitComplete"),
            _ => Err(Stop::Invalid("store-init-tag")),
        },
        Format::StoreResp(inner) => match c.tag("tag")? {
            EVENT => inner_frame(c, inner).map(|_| "Event"),
            _ => Err(Stop::Invalid("store-response-tag")),
        },
        Format::StoreInitialized => match c.tag("tag")? {
            INITIALIZED => Ok("Initialized"),
            _ => Err(Stop::Invalid("store-initialized-tag")),
        },
        Format::DlNotification(inner) => match c.tag("tag")? {
            DL_LINKED => Ok("Linked"),
            DL_SYNCED => Ok("Synced"),
            DL_UNLINKED => Ok("Unlinked"),
            DL_EVENT => {
                let n = c.len64("body-len")?;
                match inner {
                    None => {
                        c.payload("body", n)?;
                    }
                    Some(inner) => {
                        // The body must be present in full before its inner structure is read.
                        if ((c.b.len() - c.pos) as u64) < n {
                            return Err(Stop::NeedMore);
                        }
                        let body = &c.b[c.pos..c.pos + n as usize];
                        let mut sub = Cur { b: body, base: c.base + c.pos, pos: 0, fields: Vec::new() };
                        match inner_frame(&mut sub, inner) {
                            // Bytes of the body after the inner frame are skipped by design (the
                            // decoders have a state for it), like spaces after a Recon body.
                            Ok(_) => {}
                            Err(Stop::NeedMore) => return Err(Stop::Invalid("inner-frame-longer-than-body")),
                            Err(e) => return Err(e),
                        }
                        c.fields.extend(sub.fields);
                        c.pos += n as usize;
                    }
                }
                Ok("Event")
            }
            _ => Err(Stop::Invalid("downlink-notification-tag")),
        },
        Format::Command => {
            let flags = c.tag("flags")?;
            if flags & 0xf0 != 0 {
                return Err(Stop::Invalid("flags-unknown-bits"));
            }
            let reg = flags & F_REGISTRATION != 0;
            let registered = flags & F_REGISTERED != 0;
            let host = flags & F_HAS_HOST != 0;
            let overwrite = flags & F_OVERWRITE != 0;
            if reg && (registered || overwrite) {
                return Err(Stop::Invalid("flags-contradictory"));
            }
            if registered && host {
                return Err(Stop::Invalid("flags-contradictory"));
            }
            if registered {
                c.fixed("endpoint-id", 2)?;
                inner_frame(c, Inner::WithLen)?;
                return Ok("Registered");
            }
            let host_len = if host { c.len64("host-len")? } else { 0 };
            let node_len = c.len64("node-len")?;
            let lane_len = c.len64("lane-len")?;
            if host {
                c.utf8("host", host_len)?;
            }
            c.utf8("node", node_len)?;
            c.utf8("lane", lane_len)?;
            if reg {
                c.fixed("endpoint-id", 2)?;
                Ok("Register")
            } else {
                inner_frame(c, Inner::WithLen)?;
                Ok("Addressed")
            }
        }
        Format::Request | Format::Response => {
            c.fixed("origin", 16)?;
            let node_len = c.int("node-len", 4, FKind::Len, 0xffff_ffff)?;
            let lane_len = c.int("lane-len", 4, FKind::Len, 0xffff_ffff)?;
            // tag (top three bits) and body length share one u64: two overlapping fields.
            if c.b.len() - c.pos < 8 {
                return Err(Stop::NeedMore);
            }
            c.fields.push(Field { name: "tag", off: c.base + c.pos, len: 8, kind: FKind::Tag, mask: OP_MASK });
            let word = c.int("body-len", 8, FKind::Len, !OP_MASK)?;
            let tag = (word & OP_MASK) >> OP_SHIFT;
            let body_len = word & !OP_MASK;
            c.utf8("node", node_len)?;
            c.utf8("lane", lane_len)?;
            let is_request = format == Format::Request;
            let (kind, has_body) = match (is_request, tag) {
                (true, 0) => ("Link", false),
                (true, 1) => ("Sync", false),
                (true, 2) => ("Unlink", false),
                (true, 3) => ("Command", true),
                (false, 4) => ("Linked", false),
                (false, 5) => ("Synced", false),
                (false, 6) => ("Unlinked", true),
                (false, 7) => ("Event", true),
                _ => return Err(Stop::Invalid("message-tag-wrong-direction")),
            };
            if has_body {
                c.payload("body", body_len)?;
            } else if body_len != 0 {
                return Err(Stop::Invalid("body-length-on-bodyless-message"));
            }
            Ok(kind)
        }
    }
}

/// Extent and layout of the frame that starts at `bytes[0]`.
pub fn parse(format: Format, bytes: &[u8]) -> Extent {
    let mut c = Cur { b: bytes, base: 0, pos: 0, fields: Vec::new() };
    match frame(&mut c, format) {
        Ok(_) => Extent::Frame { len: c.pos, fields: c.fields },
        Err(Stop::NeedMore) => Extent::NeedMore,
        Err(Stop::Invalid(why)) => Extent::Invalid(why),
    }
}

/// Big-endian integer stored in a field (fields are at most 8 bytes when `Tag`/`Len`).
pub fn read_int(bytes: &[u8], f: &Field) -> u64 {
    let mut v = 0u64;
    for i in 0..f.len {
        v = (v << 8) | bytes[f.off + i] as u64;
    }
    v
}

pub fn write_int(bytes: &mut [u8], f: &Field, v: u64) {
    for i in 0..f.len {
        bytes[f.off + i] = (v >> (8 * (f.len - 1 - i))) as u8;
    }
}

pub fn field_bits(f: &Field) -> u64 {
    f.mask & full_mask(f.len)
}

/// Name of the field of `fields` (layout of `reference`) in which `reference` and `other` first
/// differ; `frame-length` when one is a prefix of the other.
pub fn first_difference(reference: &[u8], fields: &[Field], other: &[u8]) -> &'static str {
    let n = reference.len().min(other.len());
    let Some(pos) = (0..n).find(|i| reference[*i] != other[*i]) else {
        return "frame-length";
    };
    let mut best = "unknown";
    for f in fields {
        if pos >= f.off && pos < f.off + f.len {
            if matches!(f.kind, FKind::Tag | FKind::Len) && f.off + f.len <= n {
                // Overlapping tag / length: pick the one whose bits differ.
                let a = read_int(reference, f) & field_bits(f);
                let b = read_int(other, f) & field_bits(f);
                if a != b {
                    return f.name;
                }
            } else {
                best = f.name;
            }
        }
    }
    best
}
