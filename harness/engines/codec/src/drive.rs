//! Feeding a byte stream to a real decoder chunk by chunk and recording what it does.

use std::panic::{catch_unwind, AssertUnwindSafe};

use bytes::BytesMut;
use tokio_util::codec::Decoder;

use crate::pairs::Pair;

/// Largest amount a decoder may be allowed to `reserve` inside this process. A decoder that
/// reserves what a (mutated) length prefix announces would otherwise abort the whole harness when
/// the allocation fails; such runs are stopped before the call and handed to the `abort-probe`
/// part, which repeats them in a child process.
pub const RESERVE_CAP: u64 = if cfg!(miri) { 1 << 16 } else { 1 << 24 };

#[derive(Debug, Clone)]
pub struct Emit<N> {
    pub norm: N,
    /// Bytes of the stream consumed (fed minus still buffered) right after the emission.
    pub end: usize,
}

#[derive(Debug, Clone)]
pub enum End {
    /// Every chunk was fed and `decode` returned `None` after the last one.
    Drained,
    Err { class: String, text: String, consumed: usize, fed: usize },
    /// `decode` returned a message although no byte was consumed since the previous message.
    NoProgress { fed: usize },
    /// The decoder was about to reserve more than `RESERVE_CAP`.
    HugeReserve(u64),
    Panic(String),
}

#[derive(Debug, Clone)]
pub enum Eof<N> {
    NotRun,
    None,
    Some(Vec<N>),
    Err(String),
}

#[derive(Debug, Clone)]
pub struct Trace<N> {
    pub emits: Vec<Emit<N>>,
    pub end: End,
    /// After each chunk: (bytes fed so far, messages emitted so far).
    pub progress: Vec<(usize, usize)>,
    /// Bytes still in the buffer when the run ended.
    pub leftover: usize,
    pub eof: Eof<N>,
    pub eof_leftover: usize,
    pub calls: u64,
}

/// First identifiers of a `Debug` rendering: the variant path of an error, without its data.
pub fn err_class(debug: &str) -> String {
    // Variant names up to the first payload (`{` or a string), then the io::ErrorKind if any.
    let head = debug.split(|c| c == '"' || c == '{').next().unwrap_or("");
    let mut words: Vec<&str> = Vec::new();
    for w in head.split(|c: char| !c.is_ascii_alphanumeric() && c != '_') {
        if w.chars().next().map_or(false, |c| c.is_ascii_uppercase()) {
            words.push(w);
            if words.len() == 4 {
                break;
            }
        }
    }
    if let Some(at) = debug.find("kind: ") {
        let k: String = debug[at + 6..].chars().take_while(|c| c.is_ascii_alphanumeric()).collect();
        if !k.is_empty() && words.len() < 4 {
            words.push(&debug[at + 6..at + 6 + k.len()]);
        }
    }
    if words.is_empty() {
        "error".into()
    } else {
        words.join(".")
    }
}

fn panic_text(p: Box<dyn std::any::Any + Send>) -> String {
    if let Some(s) = p.downcast_ref::<&str>() {
        s.to_string()
    } else if let Some(s) = p.downcast_ref::<String>() {
        s.clone()
    } else {
        "non-string panic payload".into()
    }
}

/// Feed `stream` cut at `cuts` (strictly increasing interior positions) to a fresh decoder of the
/// pair, calling `decode` until it returns `None` after every extension, then (optionally) drive
/// `decode_eof` the way `FramedRead` does. Stops at the first `Err`. `guard`: stop before a call in
/// which the decoder would reserve more than `RESERVE_CAP` (mutated streams only).
pub fn run<P: Pair>(stream: &[u8], cuts: &[usize], with_eof: bool, guard: bool) -> Trace<P::Norm>
where
    <P::Dec as Decoder>::Error: std::fmt::Debug,
{
    let mut trace = Trace {
        emits: Vec::new(),
        end: End::Drained,
        progress: Vec::with_capacity(cuts.len() + 1),
        leftover: 0,
        eof: Eof::NotRun,
        eof_leftover: 0,
        calls: 0,
    };
    let result = catch_unwind(AssertUnwindSafe(|| {
        let mut dec = P::decoder();
        let mut buf = BytesMut::new();
        let mut fed = 0usize;
        let mut last_end = 0usize;
        let mut bounds = cuts.iter().copied().chain(std::iter::once(stream.len()));
        'feed: loop {
            let Some(next) = bounds.next() else { break };
            buf.extend_from_slice(&stream[fed..next]);
            fed = next;
            loop {
                if let Some(n) = P::reserve_guard(&buf).filter(|_| guard) {
                    if n > RESERVE_CAP {
                        trace.end = End::HugeReserve(n);
                        break 'feed;
                    }
                }
                trace.calls += 1;
                match dec.decode(&mut buf) {
                    Ok(Some(item)) => {
                        let end = fed - buf.len();
                        let norm = P::normalize(item);
                        if end == last_end {
                            trace.emits.push(Emit { norm, end });
                            trace.end = End::NoProgress { fed };
                            break 'feed;
                        }
                        last_end = end;
                        trace.emits.push(Emit { norm, end });
                    }
                    Ok(None) => break,
                    Err(e) => {
                        let text = format!("{e:?}");
                        trace.end = End::Err { class: err_class(&text), text, consumed: fed - buf.len(), fed };
                        break 'feed;
                    }
                }
            }
            trace.progress.push((fed, trace.emits.len()));
        }
        trace.leftover = buf.len();
        if with_eof && matches!(trace.end, End::Drained) {
            let mut at_eof = Vec::new();
            // FramedRead: decode_eof until it returns None (or fails); bounded by the bytes left.
            let mut budget = buf.len() + 2;
            trace.eof = loop {
                trace.calls += 1;
                match dec.decode_eof(&mut buf) {
                    Ok(Some(item)) => {
                        at_eof.push(P::normalize(item));
                        budget -= 1;
                        if budget == 0 {
                            break Eof::Some(at_eof);
                        }
                    }
                    Ok(None) => break if at_eof.is_empty() { Eof::None } else { Eof::Some(at_eof) },
                    Err(e) => break Eof::Err(err_class(&format!("{e:?}"))),
                }
            };
            trace.eof_leftover = buf.len();
        }
    }));
    if let Err(p) = result {
        trace.end = End::Panic(panic_text(p));
    }
    trace
}
