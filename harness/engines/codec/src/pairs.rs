//! The encoder / decoder pairs under test.
//!
//! `Msg` is what the case generates and hands to the real encoder, `Norm` an owned, comparable
//! form of what the real decoder returns (`BytesMut`/`Bytes`/`BytesStr` copied out).

use std::fmt::Debug;
use std::marker::PhantomData;

use bytes::{Bytes, BytesMut};
use common::Rng;
use swimos_agent_protocol::encoding::{command::*, downlink::*, lane::*, map::*, store::*};
use swimos_agent_protocol::{
    CommandMessage, DownlinkNotification, DownlinkOperation, LaneRequest, LaneResponse, MapMessage, MapOperation,
    StoreInitMessage, StoreInitialized, StoreResponse,
};
use swimos_api::address::{Address, RelativeAddress};
use swimos_form::read::RecognizerReadable;
use swimos_messages::protocol::{
    Notification, Operation, RawRequestMessageDecoder, RawRequestMessageEncoder, RawResponseMessageDecoder,
    RawResponseMessageEncoder, RequestMessage, RequestMessageDecoder, ResponseMessage, ResponseMessageEncoder,
};
use swimos_model::Text;
use swimos_utilities::encoding::BytesStr;
use tokio_util::codec::{Decoder, Encoder};

use crate::gen::{self, recon_bytes, Ctx, TBody, Via};
use crate::wire::{Format, Inner, OP_MASK};

pub trait Pair: 'static {
    type Msg: Clone + Debug + Send + Sync;
    type Norm: PartialEq + Debug + Clone;
    type Dec: Decoder;

    fn name() -> String;
    fn format() -> Format;
    /// The decoder returns raw bytes and there is an encoder for exactly what it returns, so a
    /// decoded message can be re-encoded and compared with the bytes that were consumed.
    fn canonical() -> bool;
    fn gen(rng: &mut Rng, ctx: &mut Ctx) -> Self::Msg;
    /// Append the encoding of `m` to `dst` with the real encoder.
    fn encode(m: &Self::Msg, dst: &mut BytesMut) -> Result<(), String>;
    fn expect(m: &Self::Msg) -> Self::Norm;
    fn kind(n: &Self::Norm) -> String;
    fn decoder() -> Self::Dec;
    fn normalize(item: <Self::Dec as Decoder>::Item) -> Self::Norm;
    fn reencode(_n: &Self::Norm) -> Option<Vec<u8>> {
        None
    }
    /// Number of bytes the decoder would `reserve` given the bytes at the front of its buffer,
    /// for the decoders that reserve what a length prefix announces (see `drive::run`).
    fn reserve_guard(_buf: &[u8]) -> Option<u64> {
        None
    }
    /// For the payload field `field` (name in the reference layout) holding a Recon body: does the
    /// bare incremental Recon decoder cope with a read boundary at `cut`? `None`: not a Recon body.
    fn bare_ok(_field: &str, _payload: &[u8], _cut: usize) -> Option<bool> {
        None
    }
    /// The decoder runs the incremental Recon parser (see `main`: skipped under Miri's Stacked
    /// Borrows, which the `nom_locate` crate the parser is built on does not satisfy).
    fn recon_decoder() -> bool {
        Self::bare_ok("body", b"", 0).is_some() || Self::bare_ok("map-key", b"", 0).is_some()
    }
    /// The message carries a body with padding the in-tree typed encoders never write.
    fn padded(_m: &Self::Msg) -> bool {
        false
    }
}

fn es<E: Debug>(e: E) -> String {
    format!("{e:?}")
}

type B = Vec<u8>;

// ------------------------------------------------------------------------------------------------
// Structure-preserving maps over the model types.

fn map_op<K, V, K2, V2>(op: MapOperation<K, V>, fk: impl FnOnce(K) -> K2, fv: impl FnOnce(V) -> V2) -> MapOperation<K2, V2> {
    match op {
        MapOperation::Update { key, value } => MapOperation::Update { key: fk(key), value: fv(value) },
        MapOperation::Remove { key } => MapOperation::Remove { key: fk(key) },
        MapOperation::Clear => MapOperation::Clear,
    }
}

fn map_msg<K, V, K2, V2>(op: MapMessage<K, V>, fk: impl FnOnce(K) -> K2, fv: impl FnOnce(V) -> V2) -> MapMessage<K2, V2> {
    match op {
        MapMessage::Update { key, value } => MapMessage::Update { key: fk(key), value: fv(value) },
        MapMessage::Remove { key } => MapMessage::Remove { key: fk(key) },
        MapMessage::Clear => MapMessage::Clear,
        MapMessage::Take(n) => MapMessage::Take(n),
        MapMessage::Drop(n) => MapMessage::Drop(n),
    }
}

fn map_req<T, U>(r: LaneRequest<T>, f: impl FnOnce(T) -> U) -> LaneRequest<U> {
    match r {
        LaneRequest::Command(t) => LaneRequest::Command(f(t)),
        LaneRequest::InitComplete => LaneRequest::InitComplete,
        LaneRequest::Sync(id) => LaneRequest::Sync(id),
    }
}

fn map_resp<T, U>(r: LaneResponse<T>, f: impl FnOnce(T) -> U) -> LaneResponse<U> {
    match r {
        LaneResponse::StandardEvent(t) => LaneResponse::StandardEvent(f(t)),
        LaneResponse::Initialized => LaneResponse::Initialized,
        LaneResponse::SyncEvent(id, t) => LaneResponse::SyncEvent(id, f(t)),
        LaneResponse::Synced(id) => LaneResponse::Synced(id),
    }
}

fn map_init<T, U>(r: StoreInitMessage<T>, f: impl FnOnce(T) -> U) -> StoreInitMessage<U> {
    match r {
        StoreInitMessage::Command(t) => StoreInitMessage::Command(f(t)),
        StoreInitMessage::InitComplete => StoreInitMessage::InitComplete,
    }
}

fn map_not<T, U>(r: DownlinkNotification<T>, f: impl FnOnce(T) -> U) -> DownlinkNotification<U> {
    match r {
        DownlinkNotification::Linked => DownlinkNotification::Linked,
        DownlinkNotification::Synced => DownlinkNotification::Synced,
        DownlinkNotification::Event { body } => DownlinkNotification::Event { body: f(body) },
        DownlinkNotification::Unlinked => DownlinkNotification::Unlinked,
    }
}

fn map_addr<S, S2>(a: Address<S>, f: impl Fn(S) -> S2) -> Address<S2> {
    let Address { host, node, lane } = a;
    Address { host: host.map(&f), node: f(node), lane: f(lane) }
}

fn map_cmd<S, T, S2, T2>(c: CommandMessage<S, T>, fs: impl Fn(S) -> S2, ft: impl FnOnce(T) -> T2) -> CommandMessage<S2, T2> {
    match c {
        CommandMessage::Register { address, id } => CommandMessage::Register { address: map_addr(address, fs), id },
        CommandMessage::Addressed { target, command, overwrite_permitted } => {
            CommandMessage::Addressed { target: map_addr(target, fs), command: ft(command), overwrite_permitted }
        }
        CommandMessage::Registered { target, command, overwrite_permitted } => {
            CommandMessage::Registered { target, command: ft(command), overwrite_permitted }
        }
    }
}

// ------------------------------------------------------------------------------------------------
// Kinds (for counters and signatures: variant names only).

fn k_op<K, V>(op: &MapOperation<K, V>) -> &'static str {
    match op {
        MapOperation::Update { .. } => "Update",
        MapOperation::Remove { .. } => "Remove",
        MapOperation::Clear => "Clear",
    }
}

fn k_msg<K, V>(op: &MapMessage<K, V>) -> &'static str {
    match op {
        MapMessage::Update { .. } => "Update",
        MapMessage::Remove { .. } => "Remove",
        MapMessage::Clear => "Clear",
        MapMessage::Take(_) => "Take",
        MapMessage::Drop(_) => "Drop",
    }
}

fn k_req<T>(r: &LaneRequest<T>, inner: impl Fn(&T) -> &'static str) -> String {
    match r {
        LaneRequest::Command(t) => {
            let i = inner(t);
            if i.is_empty() {
                "Command".into()
            } else {
                format!("Command.{i}")
            }
        }
        LaneRequest::InitComplete => "InitComplete".into(),
        LaneRequest::Sync(_) => "Sync".into(),
    }
}

fn k_resp<T>(r: &LaneResponse<T>, inner: impl Fn(&T) -> &'static str) -> String {
    let (o, i) = match r {
        LaneResponse::StandardEvent(t) => ("StandardEvent", inner(t)),
        LaneResponse::Initialized => ("Initialized", ""),
        LaneResponse::SyncEvent(_, t) => ("SyncEvent", inner(t)),
        LaneResponse::Synced(_) => ("Synced", ""),
    };
    if i.is_empty() {
        o.into()
    } else {
        format!("{o}.{i}")
    }
}

fn k_init<T>(r: &StoreInitMessage<T>, inner: impl Fn(&T) -> &'static str) -> String {
    match r {
        StoreInitMessage::Command(t) => {
            let i = inner(t);
            if i.is_empty() {
                "Command".into()
            } else {
                format!("Command.{i}")
            }
        }
        StoreInitMessage::InitComplete => "InitComplete".into(),
    }
}

fn k_not<T>(r: &DownlinkNotification<T>, inner: impl Fn(&T) -> &'static str) -> String {
    match r {
        DownlinkNotification::Linked => "Linked".into(),
        DownlinkNotification::Synced => "Synced".into(),
        DownlinkNotification::Event { body } => {
            let i = inner(body);
            if i.is_empty() {
                "Event".into()
            } else {
                format!("Event.{i}")
            }
        }
        DownlinkNotification::Unlinked => "Unlinked".into(),
    }
}

fn k_cmd<S, T>(c: &CommandMessage<S, T>) -> String {
    match c {
        CommandMessage::Register { address, .. } => format!("Register{}", if address.host.is_some() { "+host" } else { "" }),
        CommandMessage::Addressed { target, .. } => format!("Addressed{}", if target.host.is_some() { "+host" } else { "" }),
        CommandMessage::Registered { .. } => "Registered".into(),
    }
}

fn none<T>(_: &T) -> &'static str {
    ""
}

// ------------------------------------------------------------------------------------------------
// Generators of the message shapes.

fn gen_op<K, V>(rng: &mut Rng, ctx: &mut Ctx, k: impl Fn(&mut Rng, &mut Ctx) -> K, v: impl Fn(&mut Rng, &mut Ctx) -> V) -> MapOperation<K, V> {
    match rng.below(10) {
        0..=4 => MapOperation::Update { key: k(rng, ctx), value: v(rng, ctx) },
        5..=7 => MapOperation::Remove { key: k(rng, ctx) },
        _ => MapOperation::Clear,
    }
}

fn gen_msg<K, V>(rng: &mut Rng, ctx: &mut Ctx, k: impl Fn(&mut Rng, &mut Ctx) -> K, v: impl Fn(&mut Rng, &mut Ctx) -> V) -> MapMessage<K, V> {
    match rng.below(12) {
        0..=4 => MapMessage::Update { key: k(rng, ctx), value: v(rng, ctx) },
        5..=7 => MapMessage::Remove { key: k(rng, ctx) },
        8 => MapMessage::Clear,
        9..=10 => MapMessage::Take(gen::count(rng)),
        _ => MapMessage::Drop(gen::count(rng)),
    }
}

fn gen_req<T>(rng: &mut Rng, ctx: &mut Ctx, t: impl Fn(&mut Rng, &mut Ctx) -> T) -> LaneRequest<T> {
    match rng.below(10) {
        0..=5 => LaneRequest::Command(t(rng, ctx)),
        6..=7 => LaneRequest::Sync(gen::uuid(rng)),
        _ => LaneRequest::InitComplete,
    }
}

fn gen_resp<T>(rng: &mut Rng, ctx: &mut Ctx, t: impl Fn(&mut Rng, &mut Ctx) -> T) -> LaneResponse<T> {
    match rng.below(10) {
        0..=3 => LaneResponse::StandardEvent(t(rng, ctx)),
        4..=6 => LaneResponse::SyncEvent(gen::uuid(rng), t(rng, ctx)),
        7..=8 => LaneResponse::Synced(gen::uuid(rng)),
        _ => LaneResponse::Initialized,
    }
}

fn gen_init<T>(rng: &mut Rng, ctx: &mut Ctx, t: impl Fn(&mut Rng, &mut Ctx) -> T) -> StoreInitMessage<T> {
    match rng.below(5) {
        0..=3 => StoreInitMessage::Command(t(rng, ctx)),
        _ => StoreInitMessage::InitComplete,
    }
}

fn gen_not<T>(rng: &mut Rng, ctx: &mut Ctx, t: impl Fn(&mut Rng, &mut Ctx) -> T) -> DownlinkNotification<T> {
    match rng.below(8) {
        0 => DownlinkNotification::Linked,
        1 => DownlinkNotification::Synced,
        2 => DownlinkNotification::Unlinked,
        _ => DownlinkNotification::Event { body: t(rng, ctx) },
    }
}

fn gen_addr(rng: &mut Rng, ctx: &mut Ctx) -> Address<String> {
    Address {
        host: if rng.bool() { Some(gen::name(rng, ctx)) } else { None },
        node: gen::name(rng, ctx),
        lane: gen::name(rng, ctx),
    }
}

fn gen_cmd<T>(rng: &mut Rng, ctx: &mut Ctx, t: impl Fn(&mut Rng, &mut Ctx) -> T) -> CommandMessage<String, T> {
    match rng.below(9) {
        0..=2 => CommandMessage::Register { address: gen_addr(rng, ctx), id: gen::id16(rng) },
        3..=5 => CommandMessage::Addressed { target: gen_addr(rng, ctx), command: t(rng, ctx), overwrite_permitted: rng.bool() },
        _ => CommandMessage::Registered { target: gen::id16(rng), command: t(rng, ctx), overwrite_permitted: rng.bool() },
    }
}

fn bm(b: BytesMut) -> B {
    b.to_vec()
}

// ------------------------------------------------------------------------------------------------
// Raw (bytes level) pairs of swimos_agent_protocol. `Msg == Norm`, and the re-encoding of a
// decoded message uses the same real encoder.

macro_rules! raw_pair {
    ($ty:ident, $name:expr, $format:expr, $msg:ty, $enc:ty, $dec:ty, $gen:expr, $kind:expr, $norm:expr) => {
        pub struct $ty;
        impl Pair for $ty {
            type Msg = $msg;
            type Norm = $msg;
            type Dec = $dec;
            fn name() -> String {
                $name.to_string()
            }
            fn format() -> Format {
                $format
            }
            fn canonical() -> bool {
                true
            }
            fn gen(rng: &mut Rng, ctx: &mut Ctx) -> Self::Msg {
                let g: fn(&mut Rng, &mut Ctx) -> $msg = $gen;
                g(rng, ctx)
            }
            fn encode(m: &Self::Msg, dst: &mut BytesMut) -> Result<(), String> {
                <$enc>::default().encode(m.clone(), dst).map_err(es)
            }
            fn expect(m: &Self::Msg) -> Self::Norm {
                m.clone()
            }
            fn kind(n: &Self::Norm) -> String {
                let k: fn(&$msg) -> String = $kind;
                k(n)
            }
            fn decoder() -> Self::Dec {
                <$dec>::default()
            }
            fn normalize(item: <Self::Dec as Decoder>::Item) -> Self::Norm {
                let f: fn(<$dec as Decoder>::Item) -> $msg = $norm;
                f(item)
            }
            fn reencode(n: &Self::Norm) -> Option<Vec<u8>> {
                let mut dst = BytesMut::new();
                <$enc>::default().encode(n.clone(), &mut dst).ok()?;
                Some(dst.to_vec())
            }
        }
    };
}

raw_pair!(
    MapOpRaw, "map-op-raw", Format::Bare(Inner::MapOp), MapOperation<B, B>, RawMapOperationEncoder, RawMapOperationDecoder,
    |r, c| gen_op(r, c, gen::bytes_body, gen::bytes_body),
    |m| k_op(m).to_string(),
    |i| map_op(i, bm, bm)
);

raw_pair!(
    MapMsgRaw, "map-msg-raw", Format::Bare(Inner::MapMsg), MapMessage<B, B>, RawMapMessageEncoder, RawMapMessageDecoder,
    |r, c| gen_msg(r, c, gen::bytes_body, gen::bytes_body),
    |m| k_msg(m).to_string(),
    |i| map_msg(i, bm, bm)
);

raw_pair!(
    LaneReqValueRaw, "lane-req-value-raw", Format::LaneReq(Inner::WithLen), LaneRequest<B>, RawValueLaneRequestEncoder,
    RawValueLaneRequestDecoder,
    |r, c| gen_req(r, c, gen::bytes_body),
    |m| k_req(m, none),
    |i| map_req(i, bm)
);

raw_pair!(
    LaneReqMapRaw, "lane-req-map-raw", Format::LaneReq(Inner::MapMsg), LaneRequest<MapMessage<B, B>>, RawMapLaneRequestEncoder,
    RawMapLaneRequestDecoder,
    |r, c| gen_req(r, c, |r, c| gen_msg(r, c, gen::bytes_body, gen::bytes_body)),
    |m| k_req(m, |x| k_msg(x)),
    |i| map_req(i, |m| map_msg(m, bm, bm))
);

raw_pair!(
    LaneRespValueRaw, "lane-resp-value-raw", Format::LaneResp(Inner::WithLen), LaneResponse<B>, RawValueLaneResponseEncoder,
    RawValueLaneResponseDecoder,
    |r, c| gen_resp(r, c, gen::bytes_body),
    |m| k_resp(m, none),
    |i| map_resp(i, bm)
);

raw_pair!(
    LaneRespMapRaw, "lane-resp-map-raw", Format::LaneResp(Inner::MapOp), LaneResponse<MapOperation<B, B>>,
    RawMapLaneResponseEncoder, RawMapLaneResponseDecoder,
    |r, c| gen_resp(r, c, |r, c| gen_op(r, c, gen::bytes_body, gen::bytes_body)),
    |m| k_resp(m, |x| k_op(x)),
    |i| map_resp(i, |m| map_op(m, bm, bm))
);

raw_pair!(
    StoreInitValueRaw, "store-init-value-raw", Format::StoreInit(Inner::WithLen), StoreInitMessage<B>, RawValueStoreInitEncoder,
    RawValueStoreInitDecoder,
    |r, c| gen_init(r, c, gen::bytes_body),
    |m| k_init(m, none),
    |i| map_init(i, bm)
);

raw_pair!(
    StoreInitMapRaw, "store-init-map-raw", Format::StoreInit(Inner::MapMsg), StoreInitMessage<MapMessage<B, B>>,
    RawMapStoreInitEncoder, RawMapStoreInitDecoder,
    |r, c| gen_init(r, c, |r, c| gen_msg(r, c, gen::bytes_body, gen::bytes_body)),
    |m| k_init(m, |x| k_msg(x)),
    |i| map_init(i, |m| map_msg(m, bm, bm))
);

raw_pair!(
    StoreInitializedPair, "store-initialized", Format::StoreInitialized, StoreInitialized, StoreInitializedCodec,
    StoreInitializedCodec,
    |_r, _c| StoreInitialized,
    |_m| "Initialized".to_string(),
    |i| i
);

// Raw ad hoc command messages, with each of the three string types the decoder is generic in.
pub struct CommandRaw<S>(PhantomData<S>);

pub trait NameStr: swimos_utilities::encoding::TryFromUtf8Bytes + Debug + AsRef<str> + 'static {
    const TY: &'static str;
}
impl NameStr for BytesStr {
    const TY: &'static str = "bytesstr";
}
impl NameStr for String {
    const TY: &'static str = "string";
}
impl NameStr for Text {
    const TY: &'static str = "text";
}

impl<S: NameStr> Pair for CommandRaw<S> {
    type Msg = CommandMessage<String, B>;
    type Norm = CommandMessage<String, B>;
    type Dec = RawCommandMessageDecoder<S>;
    fn name() -> String {
        format!("command-raw.{}", S::TY)
    }
    fn format() -> Format {
        Format::Command
    }
    fn canonical() -> bool {
        true
    }
    fn gen(rng: &mut Rng, ctx: &mut Ctx) -> Self::Msg {
        gen_cmd(rng, ctx, gen::bytes_body)
    }
    fn encode(m: &Self::Msg, dst: &mut BytesMut) -> Result<(), String> {
        RawCommandMessageEncoder::default().encode(m.clone(), dst).map_err(es)
    }
    fn expect(m: &Self::Msg) -> Self::Norm {
        m.clone()
    }
    fn kind(n: &Self::Norm) -> String {
        k_cmd(n)
    }
    fn decoder() -> Self::Dec {
        RawCommandMessageDecoder::default()
    }
    fn normalize(item: CommandMessage<S, BytesMut>) -> Self::Norm {
        map_cmd(item, |s: S| s.as_ref().to_string(), bm)
    }
    fn reencode(n: &Self::Norm) -> Option<Vec<u8>> {
        let mut dst = BytesMut::new();
        RawCommandMessageEncoder::default().encode(n.clone(), &mut dst).ok()?;
        Some(dst.to_vec())
    }
}

// ------------------------------------------------------------------------------------------------
// Typed pairs: the decoder parses the Recon body into `T`. The body reaches it either through the
// typed encoder or through the raw encoder of the same wire format (`Via`).

macro_rules! typed_value_pair {
    ($ty:ident, $name:expr, $format:expr, $shape:ident, $tenc:ty, $renc:ty, $dec:ident, $gen:ident, $kind:ident, $map:ident) => {
        pub struct $ty<T>(PhantomData<T>);
        impl<T: TBody> Pair for $ty<T> {
            type Msg = ($shape<T>, Via);
            type Norm = $shape<T>;
            type Dec = $dec<T>;
            fn name() -> String {
                format!("{}.{}", $name, T::TY)
            }
            fn format() -> Format {
                $format
            }
            fn canonical() -> bool {
                false
            }
            fn gen(rng: &mut Rng, ctx: &mut Ctx) -> Self::Msg {
                let m = $gen(rng, ctx, |r: &mut Rng, c: &mut Ctx| T::gen(r, c));
                (m, Via::gen(rng, ctx))
            }
            fn encode(m: &Self::Msg, dst: &mut BytesMut) -> Result<(), String> {
                match &m.1 {
                    Via::Typed => <$tenc>::default().encode(m.0.clone(), dst).map_err(es),
                    via => <$renc>::default().encode($map(m.0.clone(), |t| via.text(&t)), dst).map_err(es),
                }
            }
            fn expect(m: &Self::Msg) -> Self::Norm {
                m.0.clone()
            }
            fn kind(n: &Self::Norm) -> String {
                $kind(n, none)
            }
            fn decoder() -> Self::Dec {
                <$dec<T>>::default()
            }
            fn normalize(item: $shape<T>) -> Self::Norm {
                item
            }
            fn bare_ok(field: &str, payload: &[u8], cut: usize) -> Option<bool> {
                (field == "body").then(|| gen::bare_ok::<T>(payload, cut))
            }
            fn padded(m: &Self::Msg) -> bool {
                m.1.padded()
            }
        }
    };
}

typed_value_pair!(
    LaneReqValueTyped, "lane-req-value-typed", Format::LaneReq(Inner::WithLen), LaneRequest, ValueLaneRequestEncoder,
    RawValueLaneRequestEncoder, ValueLaneRequestDecoder, gen_req, k_req, map_req
);

typed_value_pair!(
    LaneRespValueTyped, "lane-resp-value-typed", Format::LaneResp(Inner::WithLen), LaneResponse, ValueLaneResponseEncoder,
    RawValueLaneResponseEncoder, ValueLaneResponseDecoder, gen_resp, k_resp, map_resp
);

/// Key / value types of a typed map pair.
pub trait KV: 'static {
    type K: TBody;
    type V: TBody;
    const TY: &'static str;
}
pub struct TextValue;
impl KV for TextValue {
    type K = Text;
    type V = swimos_model::Value;
    const TY: &'static str = "text-value";
}
pub struct ValueText;
impl KV for ValueText {
    type K = swimos_model::Value;
    type V = Text;
    const TY: &'static str = "value-text";
}

type Op<P> = MapOperation<<P as KV>::K, <P as KV>::V>;
type Mm<P> = MapMessage<<P as KV>::K, <P as KV>::V>;

fn gen_op_kv<P: KV>(rng: &mut Rng, ctx: &mut Ctx) -> Op<P> {
    gen_op(rng, ctx, |r, c| P::K::gen(r, c), |r, c| P::V::gen(r, c))
}

fn gen_msg_kv<P: KV>(rng: &mut Rng, ctx: &mut Ctx) -> Mm<P> {
    gen_msg(rng, ctx, |r, c| P::K::gen(r, c), |r, c| P::V::gen(r, c))
}

fn raw_op<P: KV>(op: Op<P>, via: &Via) -> MapOperation<B, B> {
    map_op(op, |k| via.text(&k), |v| via.text(&v))
}

fn raw_msg<P: KV>(op: Mm<P>, via: &Via) -> MapMessage<B, B> {
    map_msg(op, |k| via.text(&k), |v| via.text(&v))
}

macro_rules! typed_map_pair {
    ($ty:ident, $name:expr, $format:expr, $msg:ty, $dec:ty, $gen:expr, $kind:expr, $tenc:expr, $renc:expr) => {
        pub struct $ty<P>(PhantomData<P>);
        impl<P: KV> Pair for $ty<P> {
            type Msg = ($msg, Via);
            type Norm = $msg;
            type Dec = $dec;
            fn name() -> String {
                format!("{}.{}", $name, P::TY)
            }
            fn format() -> Format {
                $format
            }
            fn canonical() -> bool {
                false
            }
            fn gen(rng: &mut Rng, ctx: &mut Ctx) -> Self::Msg {
                let g: fn(&mut Rng, &mut Ctx) -> $msg = $gen;
                (g(rng, ctx), Via::gen(rng, ctx))
            }
            fn encode(m: &Self::Msg, dst: &mut BytesMut) -> Result<(), String> {
                match &m.1 {
                    Via::Typed => {
                        let f: fn($msg, &mut BytesMut) -> Result<(), String> = $tenc;
                        f(m.0.clone(), dst)
                    }
                    via => {
                        let f: fn($msg, &Via, &mut BytesMut) -> Result<(), String> = $renc;
                        f(m.0.clone(), via, dst)
                    }
                }
            }
            fn expect(m: &Self::Msg) -> Self::Norm {
                m.0.clone()
            }
            fn kind(n: &Self::Norm) -> String {
                let k: fn(&$msg) -> String = $kind;
                k(n)
            }
            fn decoder() -> Self::Dec {
                <$dec>::default()
            }
            fn normalize(item: $msg) -> Self::Norm {
                item
            }
            fn bare_ok(field: &str, payload: &[u8], cut: usize) -> Option<bool> {
                match field {
                    "map-key" => Some(gen::bare_ok::<P::K>(payload, cut)),
                    "map-value" => Some(gen::bare_ok::<P::V>(payload, cut)),
                    _ => None,
                }
            }
            fn padded(m: &Self::Msg) -> bool {
                m.1.padded()
            }
        }
    };
}

typed_map_pair!(
    MapOpTyped, "map-op-typed", Format::Bare(Inner::MapOp), Op<P>, MapOperationDecoder<P::K, P::V>,
    gen_op_kv::<P>,
    |m| k_op(m).to_string(),
    |m, dst| MapOperationEncoder.encode(m, dst).map_err(es),
    |m, via, dst| RawMapOperationEncoder.encode(raw_op::<P>(m, via), dst).map_err(es)
);

typed_map_pair!(
    MapMsgTyped, "map-msg-typed", Format::Bare(Inner::MapMsg), Mm<P>, MapMessageDecoder<P::K, P::V>,
    gen_msg_kv::<P>,
    |m| k_msg(m).to_string(),
    |m, dst| MapMessageEncoder::default().encode(m, dst).map_err(es),
    |m, via, dst| RawMapMessageEncoder::default().encode(raw_msg::<P>(m, via), dst).map_err(es)
);

typed_map_pair!(
    LaneReqMapTyped, "lane-req-map-typed", Format::LaneReq(Inner::MapMsg), LaneRequest<Mm<P>>,
    MapLaneRequestDecoder<P::K, P::V>,
    |r, c| gen_req(r, c, gen_msg_kv::<P>),
    |m| k_req(m, |x| k_msg(x)),
    |m, dst| MapLaneRequestEncoder::default().encode(m, dst).map_err(es),
    |m, via, dst| RawMapLaneRequestEncoder::default().encode(map_req(m, |x| raw_msg::<P>(x, via)), dst).map_err(es)
);

typed_map_pair!(
    LaneRespMapTyped, "lane-resp-map-typed", Format::LaneResp(Inner::MapOp), LaneResponse<Op<P>>,
    MapLaneResponseDecoder<P::K, P::V>,
    |r, c| gen_resp(r, c, gen_op_kv::<P>),
    |m| k_resp(m, |x| k_op(x)),
    |m, dst| MapLaneResponseEncoder::default().encode(m, dst).map_err(es),
    |m, via, dst| RawMapLaneResponseEncoder::default().encode(map_resp(m, |x| raw_op::<P>(x, via)), dst).map_err(es)
);

// Store initialisation: only raw encoders exist; the typed decoders read what they write.
pub struct StoreInitValueTyped<T>(PhantomData<T>);
impl<T: TBody> Pair for StoreInitValueTyped<T> {
    type Msg = (StoreInitMessage<T>, Via);
    type Norm = StoreInitMessage<T>;
    type Dec = ValueStoreInitDecoder<T>;
    fn name() -> String {
        format!("store-init-value-typed.{}", T::TY)
    }
    fn format() -> Format {
        Format::StoreInit(Inner::WithLen)
    }
    fn canonical() -> bool {
        false
    }
    fn gen(rng: &mut Rng, ctx: &mut Ctx) -> Self::Msg {
        (gen_init(rng, ctx, |r, c| T::gen(r, c)), Via::raw_only(rng, ctx))
    }
    fn encode(m: &Self::Msg, dst: &mut BytesMut) -> Result<(), String> {
        RawValueStoreInitEncoder::default().encode(map_init(m.0.clone(), |t| m.1.text(&t)), dst).map_err(es)
    }
    fn expect(m: &Self::Msg) -> Self::Norm {
        m.0.clone()
    }
    fn kind(n: &Self::Norm) -> String {
        k_init(n, none)
    }
    fn decoder() -> Self::Dec {
        ValueStoreInitDecoder::default()
    }
    fn normalize(item: StoreInitMessage<T>) -> Self::Norm {
        item
    }
    fn bare_ok(field: &str, payload: &[u8], cut: usize) -> Option<bool> {
        (field == "body").then(|| gen::bare_ok::<T>(payload, cut))
    }
    fn padded(m: &Self::Msg) -> bool {
        m.1.padded()
    }
}

pub struct StoreInitMapTyped<P>(PhantomData<P>);
impl<P: KV> Pair for StoreInitMapTyped<P> {
    type Msg = (StoreInitMessage<Mm<P>>, Via);
    type Norm = StoreInitMessage<Mm<P>>;
    type Dec = MapStoreInitDecoder<P::K, P::V>;
    fn name() -> String {
        format!("store-init-map-typed.{}", P::TY)
    }
    fn format() -> Format {
        Format::StoreInit(Inner::MapMsg)
    }
    fn canonical() -> bool {
        false
    }
    fn gen(rng: &mut Rng, ctx: &mut Ctx) -> Self::Msg {
        (gen_init(rng, ctx, gen_msg_kv::<P>), Via::raw_only(rng, ctx))
    }
    fn encode(m: &Self::Msg, dst: &mut BytesMut) -> Result<(), String> {
        RawMapStoreInitEncoder::default().encode(map_init(m.0.clone(), |x| raw_msg::<P>(x, &m.1)), dst).map_err(es)
    }
    fn expect(m: &Self::Msg) -> Self::Norm {
        m.0.clone()
    }
    fn kind(n: &Self::Norm) -> String {
        k_init(n, |x| k_msg(x))
    }
    fn decoder() -> Self::Dec {
        MapStoreInitDecoder::default()
    }
    fn normalize(item: StoreInitMessage<Mm<P>>) -> Self::Norm {
        item
    }
    fn bare_ok(field: &str, payload: &[u8], cut: usize) -> Option<bool> {
        match field {
            "map-key" => Some(gen::bare_ok::<P::K>(payload, cut)),
            "map-value" => Some(gen::bare_ok::<P::V>(payload, cut)),
            _ => None,
        }
    }
    fn padded(m: &Self::Msg) -> bool {
        m.1.padded()
    }
}

// Store responses: typed encoders, raw decoders (the runtime persists the bytes).
pub struct StoreRespValue<T>(PhantomData<T>);
impl<T: TBody> Pair for StoreRespValue<T> {
    type Msg = StoreResponse<T>;
    type Norm = StoreResponse<B>;
    type Dec = RawValueStoreResponseDecoder;
    fn name() -> String {
        format!("store-resp-value.{}", T::TY)
    }
    fn format() -> Format {
        Format::StoreResp(Inner::WithLen)
    }
    fn canonical() -> bool {
        false
    }
    fn gen(rng: &mut Rng, ctx: &mut Ctx) -> Self::Msg {
        StoreResponse::new(T::gen(rng, ctx))
    }
    fn encode(m: &Self::Msg, dst: &mut BytesMut) -> Result<(), String> {
        ValueStoreResponseEncoder::default().encode(m.clone(), dst).map_err(es)
    }
    fn expect(m: &Self::Msg) -> Self::Norm {
        StoreResponse::new(recon_bytes(&m.message))
    }
    fn kind(_n: &Self::Norm) -> String {
        "Event".into()
    }
    fn decoder() -> Self::Dec {
        RawValueStoreResponseDecoder::default()
    }
    fn normalize(item: StoreResponse<BytesMut>) -> Self::Norm {
        StoreResponse::new(bm(item.message))
    }
}

pub struct StoreRespMap<P>(PhantomData<P>);
impl<P: KV> Pair for StoreRespMap<P> {
    type Msg = StoreResponse<Op<P>>;
    type Norm = StoreResponse<MapOperation<B, B>>;
    type Dec = RawMapStoreResponseDecoder;
    fn name() -> String {
        format!("store-resp-map.{}", P::TY)
    }
    fn format() -> Format {
        Format::StoreResp(Inner::MapOp)
    }
    fn canonical() -> bool {
        false
    }
    fn gen(rng: &mut Rng, ctx: &mut Ctx) -> Self::Msg {
        StoreResponse::new(gen_op_kv::<P>(rng, ctx))
    }
    fn encode(m: &Self::Msg, dst: &mut BytesMut) -> Result<(), String> {
        MapStoreResponseEncoder::default().encode(m.clone(), dst).map_err(es)
    }
    fn expect(m: &Self::Msg) -> Self::Norm {
        StoreResponse::new(raw_op::<P>(m.message.clone(), &Via::Typed))
    }
    fn kind(n: &Self::Norm) -> String {
        format!("Event.{}", k_op(&n.message))
    }
    fn decoder() -> Self::Dec {
        RawMapStoreResponseDecoder::default()
    }
    fn normalize(item: StoreResponse<MapOperation<BytesMut, BytesMut>>) -> Self::Norm {
        StoreResponse::new(map_op(item.message, bm, bm))
    }
}

// Downlink notifications: one bytes-level encoder; value bodies are Recon text, map bodies are
// binary map messages written by `MapMessageEncoder` (what the downlink runtime produces).
pub struct DlNotificationValue<T>(PhantomData<T>);
impl<T: TBody> Pair for DlNotificationValue<T> {
    type Msg = (DownlinkNotification<T>, Via);
    type Norm = DownlinkNotification<T>;
    type Dec = ValueNotificationDecoder<T>;
    fn name() -> String {
        format!("dl-notification-value.{}", T::TY)
    }
    fn format() -> Format {
        Format::DlNotification(None)
    }
    fn canonical() -> bool {
        false
    }
    fn gen(rng: &mut Rng, ctx: &mut Ctx) -> Self::Msg {
        (gen_not(rng, ctx, |r, c| T::gen(r, c)), Via::raw_only(rng, ctx))
    }
    fn encode(m: &Self::Msg, dst: &mut BytesMut) -> Result<(), String> {
        DownlinkNotificationEncoder.encode(map_not(m.0.clone(), |t| m.1.text(&t)), dst).map_err(es)
    }
    fn expect(m: &Self::Msg) -> Self::Norm {
        m.0.clone()
    }
    fn kind(n: &Self::Norm) -> String {
        k_not(n, none)
    }
    fn decoder() -> Self::Dec {
        ValueNotificationDecoder::default()
    }
    fn normalize(item: DownlinkNotification<T>) -> Self::Norm {
        item
    }
    fn bare_ok(field: &str, payload: &[u8], cut: usize) -> Option<bool> {
        (field == "body").then(|| gen::bare_ok::<T>(payload, cut))
    }
    fn padded(m: &Self::Msg) -> bool {
        m.1.padded()
    }
}

pub struct DlNotificationMap<P>(PhantomData<P>);
impl<P: KV> Pair for DlNotificationMap<P> {
    type Msg = (DownlinkNotification<Mm<P>>, Via);
    type Norm = DownlinkNotification<Mm<P>>;
    type Dec = MapNotificationDecoder<P::K, P::V>;
    fn name() -> String {
        format!("dl-notification-map.{}", P::TY)
    }
    fn format() -> Format {
        Format::DlNotification(Some(Inner::MapMsg))
    }
    fn canonical() -> bool {
        false
    }
    fn gen(rng: &mut Rng, ctx: &mut Ctx) -> Self::Msg {
        (gen_not(rng, ctx, gen_msg_kv::<P>), Via::gen(rng, ctx))
    }
    fn encode(m: &Self::Msg, dst: &mut BytesMut) -> Result<(), String> {
        let via = &m.1;
        let mut err = None;
        let n = map_not(m.0.clone(), |mm| {
            let mut body = BytesMut::new();
            let r = match via {
                Via::Typed => MapMessageEncoder::default().encode(mm, &mut body).map_err(es),
                via => RawMapMessageEncoder::default().encode(raw_msg::<P>(mm, via), &mut body).map_err(es),
            };
            if let Err(e) = r {
                err = Some(e);
            }
            body.to_vec()
        });
        if let Some(e) = err {
            return Err(e);
        }
        DownlinkNotificationEncoder.encode(n, dst).map_err(es)
    }
    fn expect(m: &Self::Msg) -> Self::Norm {
        m.0.clone()
    }
    fn kind(n: &Self::Norm) -> String {
        k_not(n, |x| k_msg(x))
    }
    fn decoder() -> Self::Dec {
        MapNotificationDecoder::default()
    }
    fn normalize(item: DownlinkNotification<Mm<P>>) -> Self::Norm {
        item
    }
    fn bare_ok(field: &str, payload: &[u8], cut: usize) -> Option<bool> {
        match field {
            "map-key" => Some(gen::bare_ok::<P::K>(payload, cut)),
            "map-value" => Some(gen::bare_ok::<P::V>(payload, cut)),
            _ => None,
        }
    }
    fn padded(m: &Self::Msg) -> bool {
        m.1.padded()
    }
}

pub struct DlOperation<T>(PhantomData<T>);
impl<T: TBody> Pair for DlOperation<T> {
    type Msg = T;
    type Norm = B;
    type Dec = DownlinkOperationDecoder;
    fn name() -> String {
        format!("dl-operation.{}", T::TY)
    }
    fn format() -> Format {
        Format::Bare(Inner::WithLen)
    }
    fn canonical() -> bool {
        false
    }
    fn gen(rng: &mut Rng, ctx: &mut Ctx) -> Self::Msg {
        T::gen(rng, ctx)
    }
    fn encode(m: &Self::Msg, dst: &mut BytesMut) -> Result<(), String> {
        DownlinkOperationEncoder::default().encode(DownlinkOperation::new(m.clone()), dst).map_err(es)
    }
    fn expect(m: &Self::Msg) -> Self::Norm {
        recon_bytes(m)
    }
    fn kind(_n: &Self::Norm) -> String {
        "Operation".into()
    }
    fn decoder() -> Self::Dec {
        DownlinkOperationDecoder
    }
    fn normalize(item: DownlinkOperation<Bytes>) -> Self::Norm {
        item.body.to_vec()
    }
    fn reserve_guard(buf: &[u8]) -> Option<u64> {
        // `src.reserve(LEN_SIZE + len)` when the body is not there yet.
        if buf.len() >= 8 {
            let len = u64::from_be_bytes(buf[..8].try_into().unwrap());
            if (buf.len() as u64) < len.saturating_add(8) {
                return Some(len);
            }
        }
        None
    }
}

pub struct CommandTyped<S, T>(PhantomData<(S, T)>);
impl<S: NameStr, T: TBody> Pair for CommandTyped<S, T> {
    type Msg = (CommandMessage<String, T>, Via);
    type Norm = CommandMessage<String, T>;
    type Dec = CommandMessageDecoder<S, T>;
    fn name() -> String {
        format!("command-typed.{}.{}", S::TY, T::TY)
    }
    fn format() -> Format {
        Format::Command
    }
    fn canonical() -> bool {
        false
    }
    fn gen(rng: &mut Rng, ctx: &mut Ctx) -> Self::Msg {
        (gen_cmd(rng, ctx, |r, c| T::gen(r, c)), Via::gen(rng, ctx))
    }
    fn encode(m: &Self::Msg, dst: &mut BytesMut) -> Result<(), String> {
        match &m.1 {
            Via::Typed => CommandMessageEncoder::default().encode(m.0.clone(), dst).map_err(es),
            via => RawCommandMessageEncoder::default().encode(map_cmd(m.0.clone(), |s| s, |t| via.text(&t)), dst).map_err(es),
        }
    }
    fn expect(m: &Self::Msg) -> Self::Norm {
        m.0.clone()
    }
    fn kind(n: &Self::Norm) -> String {
        k_cmd(n)
    }
    fn decoder() -> Self::Dec {
        CommandMessageDecoder::default()
    }
    fn normalize(item: CommandMessage<S, T>) -> Self::Norm {
        map_cmd(item, |s: S| s.as_ref().to_string(), |t| t)
    }
    fn bare_ok(field: &str, payload: &[u8], cut: usize) -> Option<bool> {
        (field == "body").then(|| gen::bare_ok::<T>(payload, cut))
    }
    fn padded(m: &Self::Msg) -> bool {
        m.1.padded()
    }
}

// ------------------------------------------------------------------------------------------------
// swimos_messages::protocol

type Req<T> = RequestMessage<String, T>;
type Resp<T, U> = ResponseMessage<String, T, U>;

fn gen_path(rng: &mut Rng, ctx: &mut Ctx) -> RelativeAddress<String> {
    RelativeAddress::new(gen::name(rng, ctx), gen::name(rng, ctx))
}

fn gen_request<T>(rng: &mut Rng, ctx: &mut Ctx, t: impl Fn(&mut Rng, &mut Ctx) -> T) -> Req<T> {
    let origin = gen::uuid(rng);
    let path = gen_path(rng, ctx);
    let envelope = match rng.below(8) {
        0 => Operation::Link,
        1 => Operation::Sync,
        2 => Operation::Unlink,
        _ => Operation::Command(t(rng, ctx)),
    };
    RequestMessage { origin, path, envelope }
}

fn gen_response<T>(rng: &mut Rng, ctx: &mut Ctx, t: impl Fn(&mut Rng, &mut Ctx) -> T) -> Resp<T, B> {
    let origin = gen::uuid(rng);
    let path = gen_path(rng, ctx);
    let envelope = match rng.below(10) {
        0 => Notification::Linked,
        1 => Notification::Synced,
        2 => Notification::Unlinked(None),
        3 => Notification::Unlinked(Some(gen::bytes_body(rng, ctx))),
        _ => Notification::Event(t(rng, ctx)),
    };
    ResponseMessage { origin, path, envelope }
}

fn k_request<T>(m: &Req<T>) -> String {
    match &m.envelope {
        Operation::Link => "Link",
        Operation::Sync => "Sync",
        Operation::Unlink => "Unlink",
        Operation::Command(_) => "Command",
    }
    .to_string()
}

fn k_response<T>(m: &Resp<T, B>) -> String {
    match &m.envelope {
        Notification::Linked => "Linked",
        Notification::Synced => "Synced",
        Notification::Unlinked(None) => "Unlinked.none",
        Notification::Unlinked(Some(b)) if b.is_empty() => "Unlinked.some-empty",
        Notification::Unlinked(Some(_)) => "Unlinked.some",
        Notification::Event(_) => "Event",
    }
    .to_string()
}

fn map_request<P, T, P2, T2>(m: RequestMessage<P, T>, fp: impl Fn(P) -> P2, ft: impl FnOnce(T) -> T2) -> RequestMessage<P2, T2> {
    let RequestMessage { origin, path: RelativeAddress { node, lane }, envelope } = m;
    RequestMessage {
        origin,
        path: RelativeAddress::new(fp(node), fp(lane)),
        envelope: match envelope {
            Operation::Link => Operation::Link,
            Operation::Sync => Operation::Sync,
            Operation::Unlink => Operation::Unlink,
            Operation::Command(t) => Operation::Command(ft(t)),
        },
    }
}

fn map_response<P, T, U, P2, T2, U2>(
    m: ResponseMessage<P, T, U>,
    fp: impl Fn(P) -> P2,
    ft: impl FnOnce(T) -> T2,
    fu: impl FnOnce(U) -> U2,
) -> ResponseMessage<P2, T2, U2> {
    let ResponseMessage { origin, path: RelativeAddress { node, lane }, envelope } = m;
    ResponseMessage {
        origin,
        path: RelativeAddress::new(fp(node), fp(lane)),
        envelope: match envelope {
            Notification::Linked => Notification::Linked,
            Notification::Synced => Notification::Synced,
            Notification::Unlinked(u) => Notification::Unlinked(u.map(fu)),
            Notification::Event(t) => Notification::Event(ft(t)),
        },
    }
}

/// `required` as the raw routed-message decoders compute it, when they would reserve it.
fn routed_reserve(buf: &[u8], with_body: bool) -> Option<u64> {
    if buf.len() < 32 {
        return None;
    }
    let node = u32::from_be_bytes(buf[16..20].try_into().unwrap()) as u64;
    let lane = u32::from_be_bytes(buf[20..24].try_into().unwrap()) as u64;
    let word = u64::from_be_bytes(buf[24..32].try_into().unwrap());
    let body = if with_body { word & !OP_MASK } else { 0 };
    let required = 32 + node + lane + body;
    if (buf.len() as u64) < required {
        Some(required)
    } else {
        None
    }
}

pub struct RequestRaw;
impl Pair for RequestRaw {
    type Msg = Req<B>;
    type Norm = Req<B>;
    type Dec = RawRequestMessageDecoder;
    fn name() -> String {
        "request-raw".into()
    }
    fn format() -> Format {
        Format::Request
    }
    fn canonical() -> bool {
        true
    }
    fn gen(rng: &mut Rng, ctx: &mut Ctx) -> Self::Msg {
        gen_request(rng, ctx, gen::bytes_body)
    }
    fn encode(m: &Self::Msg, dst: &mut BytesMut) -> Result<(), String> {
        // Alternate between the by-reference and the by-value encoder impls.
        if m.origin.as_u128() & 1 == 0 {
            RawRequestMessageEncoder.encode(m, dst).map_err(es)
        } else {
            RawRequestMessageEncoder.encode(m.clone(), dst).map_err(es)
        }
    }
    fn expect(m: &Self::Msg) -> Self::Norm {
        m.clone()
    }
    fn kind(n: &Self::Norm) -> String {
        k_request(n)
    }
    fn decoder() -> Self::Dec {
        RawRequestMessageDecoder
    }
    fn normalize(item: RequestMessage<BytesStr, Bytes>) -> Self::Norm {
        map_request(item, |s| s.as_str().to_string(), |b| b.to_vec())
    }
    fn reencode(n: &Self::Norm) -> Option<Vec<u8>> {
        let mut dst = BytesMut::new();
        RawRequestMessageEncoder.encode(n, &mut dst).ok()?;
        Some(dst.to_vec())
    }
    fn reserve_guard(buf: &[u8]) -> Option<u64> {
        routed_reserve(buf, true)
    }
}

pub struct RequestTyped<T>(PhantomData<T>);
impl<T: TBody> Pair for RequestTyped<T> {
    type Msg = (Req<T>, Via);
    type Norm = Req<T>;
    type Dec = RequestMessageDecoder<T, <T as RecognizerReadable>::Rec>;
    fn name() -> String {
        format!("request-typed.{}", T::TY)
    }
    fn format() -> Format {
        Format::Request
    }
    fn canonical() -> bool {
        false
    }
    fn gen(rng: &mut Rng, ctx: &mut Ctx) -> Self::Msg {
        (gen_request(rng, ctx, |r, c| T::gen(r, c)), Via::raw_only(rng, ctx))
    }
    fn encode(m: &Self::Msg, dst: &mut BytesMut) -> Result<(), String> {
        RawRequestMessageEncoder.encode(map_request(m.0.clone(), |s| s, |t| m.1.text(&t)), dst).map_err(es)
    }
    fn expect(m: &Self::Msg) -> Self::Norm {
        m.0.clone()
    }
    fn kind(n: &Self::Norm) -> String {
        k_request(n)
    }
    fn decoder() -> Self::Dec {
        RequestMessageDecoder::new(T::make_recognizer())
    }
    fn normalize(item: RequestMessage<Text, T>) -> Self::Norm {
        map_request(item, |s| s.as_str().to_string(), |t| t)
    }
    fn reserve_guard(buf: &[u8]) -> Option<u64> {
        // `src.reserve(node_len + lane_len)`; only meaningful while the decoder reads a header,
        // a spurious hit mid-body merely ends a mutation run early.
        routed_reserve(buf, false)
    }
    fn bare_ok(field: &str, payload: &[u8], cut: usize) -> Option<bool> {
        (field == "body").then(|| gen::bare_ok::<T>(payload, cut))
    }
    fn padded(m: &Self::Msg) -> bool {
        m.1.padded()
    }
}

pub struct ResponseRaw;
impl Pair for ResponseRaw {
    type Msg = Resp<B, B>;
    type Norm = Resp<B, B>;
    type Dec = RawResponseMessageDecoder;
    fn name() -> String {
        "response-raw".into()
    }
    fn format() -> Format {
        Format::Response
    }
    fn canonical() -> bool {
        true
    }
    fn gen(rng: &mut Rng, ctx: &mut Ctx) -> Self::Msg {
        gen_response(rng, ctx, gen::bytes_body)
    }
    fn encode(m: &Self::Msg, dst: &mut BytesMut) -> Result<(), String> {
        if m.origin.as_u128() & 1 == 0 {
            RawResponseMessageEncoder.encode(m, dst).map_err(es)
        } else {
            RawResponseMessageEncoder.encode(m.clone(), dst).map_err(es)
        }
    }
    fn expect(m: &Self::Msg) -> Self::Norm {
        m.clone()
    }
    fn kind(n: &Self::Norm) -> String {
        k_response(n)
    }
    fn decoder() -> Self::Dec {
        RawResponseMessageDecoder
    }
    fn normalize(item: ResponseMessage<BytesStr, Bytes, Bytes>) -> Self::Norm {
        map_response(item, |s| s.as_str().to_string(), |b| b.to_vec(), |b| b.to_vec())
    }
    fn reencode(n: &Self::Norm) -> Option<Vec<u8>> {
        let mut dst = BytesMut::new();
        RawResponseMessageEncoder.encode(n, &mut dst).ok()?;
        Some(dst.to_vec())
    }
    fn reserve_guard(buf: &[u8]) -> Option<u64> {
        routed_reserve(buf, true)
    }
}

/// Typed response encoder (Recon event bodies), read back by the raw response decoder.
pub struct ResponseTyped<T>(PhantomData<T>);
impl<T: TBody> Pair for ResponseTyped<T> {
    type Msg = Resp<T, B>;
    type Norm = Resp<B, B>;
    type Dec = RawResponseMessageDecoder;
    fn name() -> String {
        format!("response-typed.{}", T::TY)
    }
    fn format() -> Format {
        Format::Response
    }
    fn canonical() -> bool {
        false
    }
    fn gen(rng: &mut Rng, ctx: &mut Ctx) -> Self::Msg {
        gen_response(rng, ctx, |r, c| T::gen(r, c))
    }
    fn encode(m: &Self::Msg, dst: &mut BytesMut) -> Result<(), String> {
        ResponseMessageEncoder.encode(m.clone(), dst).map_err(es)
    }
    fn expect(m: &Self::Msg) -> Self::Norm {
        map_response(m.clone(), |s| s, |t| recon_bytes(&t), |u| u)
    }
    fn kind(n: &Self::Norm) -> String {
        k_response(n)
    }
    fn decoder() -> Self::Dec {
        RawResponseMessageDecoder
    }
    fn normalize(item: ResponseMessage<BytesStr, Bytes, Bytes>) -> Self::Norm {
        map_response(item, |s| s.as_str().to_string(), |b| b.to_vec(), |b| b.to_vec())
    }
    fn reserve_guard(buf: &[u8]) -> Option<u64> {
        routed_reserve(buf, true)
    }
}
