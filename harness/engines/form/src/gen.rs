//! Seeded, boundary-heavy generators for every type of the battery (`Specimen`), including the
//! built-in `Form` implementations of swimos_form.

use std::collections::HashMap;
use std::fmt::Debug;
use std::hash::Hash;
use std::num::NonZeroUsize;
use std::sync::Arc;
use std::time::Duration;

use common::Rng;
use swimos_form::Form;
use swimos_model::{Attr, BigInt, BigUint, Blob, Item, Text, Timestamp, Value};

/// A type of the battery: a `Form` with a seeded generator. Generators never produce values that
/// are *inherently* unrepresentable (NaN, which is not `==` to itself; non-default values in
/// skipped fields, which are documented to come back as `Default`).
pub trait Specimen: Form + PartialEq + Debug + Clone + 'static {
    fn gen(rng: &mut Rng) -> Self;
}

pub fn g<T: Specimen>(rng: &mut Rng) -> T {
    T::gen(rng)
}

const I64_POOL: &[i64] = &[
    0, 1, -1, 2, 7, 10, -10, 31, 32, -32, -33, 127, 128, -128, -129, 255, 256, 32767, 32768, -32768, -32769, 65535,
    65536, 2147483647, 2147483648, -2147483648, -2147483649, 4294967295, 4294967296, 9007199254740992,
    9007199254740993, i64::MAX, i64::MAX - 1, i64::MIN, i64::MIN + 1,
];

fn any_i64(rng: &mut Rng) -> i64 {
    match rng.below(4) {
        0 | 1 => *rng.pick(I64_POOL),
        2 => rng.range_i64(-1000, 1000),
        _ => rng.next_u64() as i64 >> rng.below(64),
    }
}

impl Specimen for i32 {
    fn gen(rng: &mut Rng) -> Self {
        loop {
            if let Ok(n) = i32::try_from(any_i64(rng)) {
                return n;
            }
        }
    }
}

impl Specimen for i64 {
    fn gen(rng: &mut Rng) -> Self {
        any_i64(rng)
    }
}

impl Specimen for u32 {
    fn gen(rng: &mut Rng) -> Self {
        loop {
            if let Ok(n) = u32::try_from(any_i64(rng)) {
                return n;
            }
        }
    }
}

impl Specimen for u64 {
    fn gen(rng: &mut Rng) -> Self {
        match rng.below(6) {
            0 => *rng.pick(&[u64::MAX, u64::MAX - 1, i64::MAX as u64 + 1, i64::MAX as u64, 1 << 63, (1 << 63) + 1]),
            1 => rng.next_u64(),
            _ => loop {
                if let Ok(n) = u64::try_from(any_i64(rng)) {
                    break n;
                }
            },
        }
    }
}

impl Specimen for usize {
    fn gen(rng: &mut Rng) -> Self {
        u64::gen(rng) as usize
    }
}

impl Specimen for NonZeroUsize {
    fn gen(rng: &mut Rng) -> Self {
        NonZeroUsize::new(usize::gen(rng)).unwrap_or(NonZeroUsize::MIN)
    }
}

impl Specimen for bool {
    fn gen(rng: &mut Rng) -> Self {
        rng.bool()
    }
}

impl Specimen for () {
    fn gen(_rng: &mut Rng) -> Self {}
}

const F64_POOL: &[f64] = &[
    0.0, -0.0, 1.0, -1.0, 0.5, -0.5, 1.5, 0.1, 0.2, 1e-7, 1e7, 1e15, 1e16, 1e21, 1e22, -1e21, 1e300, -1e300, 1e-300,
    f64::MAX, f64::MIN, f64::MIN_POSITIVE, 5e-324, -5e-324, f64::EPSILON, 123456789.125, 3.4028234663852886e38,
    9007199254740992.0, 9007199254740994.0, 2147483647.0, 2147483648.0, -2147483649.0, 4294967296.0, 1.8446744073709552e19,
    9.223372036854775807e18, 0.30000000000000004, 2.2250738585072011e-308, 16777217.0, 0.333333343267440796,
];

impl Specimen for f64 {
    /// Finite values only: NaN is not `==` to itself, so no round-trip law can be stated on it with
    /// `PartialEq`; infinities have no Recon literal.
    fn gen(rng: &mut Rng) -> Self {
        match rng.below(5) {
            0 | 1 => *rng.pick(F64_POOL),
            2 => any_i64(rng) as f64,
            3 => (rng.f64_unit() - 0.5) * 10f64.powi(rng.range_i64(-12, 12) as i32),
            _ => loop {
                let x = f64::from_bits(rng.next_u64());
                if x.is_finite() {
                    break x;
                }
            },
        }
    }
}

pub const STR_POOL: &[&str] = &[
    "", "a", "b", "name", "hello", "Hello World", "two words", " ", "  lead", "trail ", "true", "false", "0", "1", "-1",
    "1.5", "1e5", "0x10", "_", "_a", "a-b", "a_b", "é", "e\u{301}", "ℵ", "اسم", "\u{10000}", "\u{1F600}", "\"", "\\", "\\\"",
    "a\"b", "\n", "\r\n", "\t", "\u{0}", "\u{7f}", "\u{8}", "\u{c}", "\u{feff}", "\u{2028}", "@tag", "@", "a:b", ":", "{", "}",
    "{}", "(", ")", "()", ",", ";", "%", "%AAAA", "#", "//", "/* c */", "a,b", "a;b", "infinite", "inf", "NaN", "nan", "null",
    "extant", "Labelled", "custom", "a", "first", "key", "value", "0.0", "-0", "+1", "1_000", "9223372036854775808",
    "zzzzzzzzzzzzzzzzzzzzzzzzzzzzzzzzzzzzzzzzzzzzzzzzzzzzzzzzzzzzzzzzzzzzzzzzzzzzzzzzzzzzzzzzzzzzzzzzzzzzzzzzzzzzzzzzzzzzzzzz",
];

pub fn any_string(rng: &mut Rng) -> String {
    match rng.below(8) {
        0..=4 => rng.pick(STR_POOL).to_string(),
        5 => {
            // concatenation of two pool entries
            format!("{}{}", rng.pick(STR_POOL), rng.pick(STR_POOL))
        }
        6 => {
            let len = rng.below(12);
            (0..len)
                .map(|_| *rng.pick(&['a', 'Z', '0', '9', '-', '_', ' ', '"', '\\', '\n', 'é', '@', ':', '{', ')', ',', '\u{1F600}']))
                .collect()
        }
        _ => {
            // long enough to cross the msgpack str8/str16 boundaries
            let len = *rng.pick(&[31usize, 32, 33, 255, 256, 257, 300]);
            (0..len).map(|i| (b'a' + (i % 26) as u8) as char).collect()
        }
    }
}

impl Specimen for String {
    fn gen(rng: &mut Rng) -> Self {
        any_string(rng)
    }
}

impl Specimen for Text {
    fn gen(rng: &mut Rng) -> Self {
        Text::from(any_string(rng))
    }
}

pub fn any_bytes(rng: &mut Rng) -> Vec<u8> {
    match rng.below(6) {
        0 => vec![],
        1 => vec![*rng.pick(&[0u8, 1, 127, 128, 255])],
        2 => b"abc".to_vec(),
        3 => {
            let len = *rng.pick(&[2usize, 3, 4, 5, 255, 256, 257]);
            (0..len).map(|_| rng.next_u64() as u8).collect()
        }
        _ => {
            let len = rng.below(20);
            (0..len).map(|_| rng.next_u64() as u8).collect()
        }
    }
}

impl Specimen for Blob {
    fn gen(rng: &mut Rng) -> Self {
        Blob::from_vec(any_bytes(rng))
    }
}

impl Specimen for Vec<u8> {
    fn gen(rng: &mut Rng) -> Self {
        any_bytes(rng)
    }
}

impl Specimen for Box<[u8]> {
    fn gen(rng: &mut Rng) -> Self {
        any_bytes(rng).into_boxed_slice()
    }
}

impl Specimen for BigInt {
    fn gen(rng: &mut Rng) -> Self {
        let base = BigInt::from(any_i64(rng));
        match rng.below(4) {
            0 => base,
            1 => base * BigInt::from(u64::MAX),
            2 => BigInt::from(u64::MAX) + BigInt::from(rng.below(3)),
            _ => (BigInt::from(1) << (rng.range(60, 300) as usize)) * BigInt::from(if rng.bool() { 1 } else { -1 }) + base,
        }
    }
}

impl Specimen for BigUint {
    fn gen(rng: &mut Rng) -> Self {
        let base = BigUint::from(u64::gen(rng));
        match rng.below(4) {
            0 => base,
            1 => base * BigUint::from(u64::MAX),
            2 => BigUint::from(u64::MAX) + BigUint::from(rng.below(3)),
            _ => (BigUint::from(1u32) << (rng.range(60, 300) as usize)) + base,
        }
    }
}

impl Specimen for Duration {
    fn gen(rng: &mut Rng) -> Self {
        let secs = match rng.below(4) {
            0 => 0,
            1 => rng.below(100),
            2 => u64::gen(rng),
            _ => *rng.pick(&[u64::MAX, i64::MAX as u64, u32::MAX as u64 + 1]),
        };
        let nanos = *rng.pick(&[0u32, 1, 999, 1_000, 999_999, 1_000_000, 500_000_000, 999_999_999]);
        Duration::new(secs, nanos)
    }
}

impl Specimen for Timestamp {
    fn gen(rng: &mut Rng) -> Self {
        use chrono::{TimeZone, Utc};
        // Whole microseconds (the written representation is in microseconds), both sides of the
        // epoch, with and without a sub-second part.
        let secs = match rng.below(4) {
            0 => 0,
            1 => rng.range_i64(-100_000, 100_000),
            2 => rng.range_i64(0, 4_000_000_000),
            _ => *rng.pick(&[1, -1, 1_700_000_000, 253_402_300_799]),
        };
        let micros = *rng.pick(&[0u32, 0, 1, 999, 1_000, 500_000, 999_999]);
        match Utc.timestamp_opt(secs, micros * 1000) {
            chrono::LocalResult::Single(dt) => Timestamp::from(dt),
            _ => Timestamp::from(Utc.timestamp_opt(0, 0).unwrap()),
        }
    }
}

fn any_len(rng: &mut Rng) -> usize {
    *rng.pick(&[0usize, 0, 1, 1, 2, 3, 5])
}

impl<T: Specimen> Specimen for Vec<T> {
    fn gen(rng: &mut Rng) -> Self {
        let n = if rng.chance(1, 40) { *rng.pick(&[15usize, 16, 17]) } else { any_len(rng) };
        (0..n).map(|_| T::gen(rng)).collect()
    }
}

impl<T: Specimen> Specimen for Option<T> {
    fn gen(rng: &mut Rng) -> Self {
        if rng.chance(1, 3) {
            None
        } else {
            Some(T::gen(rng))
        }
    }
}

impl<T: Specimen> Specimen for Arc<T> {
    fn gen(rng: &mut Rng) -> Self {
        Arc::new(T::gen(rng))
    }
}

impl<K: Specimen + Eq + Hash, V: Specimen> Specimen for HashMap<K, V> {
    fn gen(rng: &mut Rng) -> Self {
        let n = any_len(rng).min(3);
        (0..n).map(|_| (K::gen(rng), V::gen(rng))).collect()
    }
}

macro_rules! tuple_specimen {
    ($($t:ident),+) => {
        impl<$($t: Specimen),+> Specimen for ($($t,)+) {
            fn gen(rng: &mut Rng) -> Self {
                ($($t::gen(rng),)+)
            }
        }
    };
}

tuple_specimen!(A);
tuple_specimen!(A, B);
tuple_specimen!(A, B, C);
tuple_specimen!(A, B, C, D, E);

/// Random model values (no NaN / infinities: `Value`'s `PartialEq` could not confirm a round trip).
/// `wild` values use everything the model allows (attribute names that are not identifiers, extant
/// value items, big integers, single record items after attributes); tame ones stay inside what the
/// Recon text layer is known to carry, so that `Value` *fields* of derived types exercise the Form
/// machinery rather than re-discover text-layer findings (those are exercised by the `Value(wild)`
/// entry and belong to the Recon properties).
pub fn any_value(rng: &mut Rng, depth: u32) -> Value {
    value_of(rng, depth, true)
}

pub fn tame_value(rng: &mut Rng, depth: u32) -> Value {
    loop {
        let v = value_of(rng, depth, false);
        if v != Value::Extant {
            return v;
        }
    }
}

fn value_of(rng: &mut Rng, depth: u32, wild: bool) -> Value {
    let top = if depth == 0 { 11 } else { 14 };
    match rng.below(top) {
        0 => Value::Extant,
        1 => Value::BooleanValue(rng.bool()),
        2 => Value::Int32Value(i32::gen(rng)),
        3 => Value::Int64Value(i64::gen(rng)),
        4 => Value::UInt32Value(u32::gen(rng)),
        5 => Value::UInt64Value(u64::gen(rng)),
        6 => Value::Float64Value(f64::gen(rng)),
        7 if wild => Value::BigInt(BigInt::gen(rng)),
        8 if wild => Value::BigUint(BigUint::gen(rng)),
        7 | 8 => Value::Int32Value(i32::gen(rng)),
        9 => Value::text(any_string(rng)),
        10 => Value::Data(Blob::gen(rng)),
        _ => {
            let na = *rng.pick(&[0usize, 0, 1, 1, 2]);
            let ni = *rng.pick(&[0usize, 1, 1, 2, 3]);
            let attrs: Vec<Attr> = (0..na)
                .map(|_| {
                    let name = if wild { attr_name(rng) } else { rng.pick(&["a", "b", "tag", "Labelled", "custom", "update", "A"]).to_string() };
                    if rng.bool() {
                        Attr::of(name)
                    } else {
                        Attr::of((name, value_of(rng, depth - 1, wild)))
                    }
                })
                .collect();
            let mut items: Vec<Item> = (0..ni)
                .map(|_| {
                    if rng.bool() {
                        let mut v = value_of(rng, depth - 1, wild);
                        if !wild && v == Value::Extant {
                            v = Value::Int32Value(0);
                        }
                        Item::ValueItem(v)
                    } else if rng.chance(3, 4) {
                        Item::Slot(Value::text(any_string(rng)), value_of(rng, depth - 1, wild))
                    } else {
                        let mut k = value_of(rng, depth - 1, wild);
                        if !wild && k == Value::Extant {
                            k = Value::Int32Value(1);
                        }
                        Item::Slot(k, value_of(rng, depth - 1, wild))
                    }
                })
                .collect();
            if !wild && items.len() == 1 {
                // Shapes the Recon printer is known not to carry (a lone record item, a lone slot after
                // attributes, a record as a slot key): left to the `Value(wild)` entry.
                let lone_record = matches!(&items[0], Item::ValueItem(Value::Record(_, _)));
                let lone_slot = matches!(&items[0], Item::Slot(_, _)) && !attrs.is_empty();
                if lone_record || lone_slot {
                    items.push(Item::ValueItem(Value::Int32Value(1)));
                }
            }
            if !wild {
                for it in items.iter_mut() {
                    if let Item::Slot(k, _) = it {
                        if matches!(k, Value::Record(_, _)) {
                            *k = Value::text("key");
                        }
                    }
                }
            }
            Value::Record(attrs, items)
        }
    }
}

pub fn attr_name(rng: &mut Rng) -> String {
    if rng.chance(3, 4) {
        rng.pick(&["a", "b", "tag", "Labelled", "custom", "extra", "update", "A", "my tag", "true", "1", ""]).to_string()
    } else {
        any_string(rng)
    }
}
