//! Engine `form` (C16): typed, model (`Value`) and wire (Recon text, MessagePack) representations of
//! `Form` types agree, decided on the real conversion functions only.
//!
//! Parts:
//!  * `roundtrip` – one generated instance `x: T` per case (T cycles through the battery):
//!      - model:   `T::try_from_value(&x.as_value()) == Ok(x)`, `T::try_convert(x.into_value()) == Ok(x)`;
//!      - recon:   for the three printers the printed text, parsed to the model, denotes `x.as_value()`
//!                 (so that `parse_recognize::<T>(print(x)) == x` follows from the other two oracles), and
//!                 the two reading paths (direct recogniser / via `Value`) agree on it;
//!      - msgpack: `MsgPackInterpreter` write, `read_from_msg_pack::<T>` `== Ok(x)`.
//!  * `texts` – arbitrary inputs for T: its own valid texts (typed print and print of the model image),
//!    texts valid for another battery type U, structure-level mutations of both, token-level mutations,
//!    random model values. Oracle: direct recogniser and via-`Value` path agree on accept/reject and on
//!    the value. Error *messages* are never compared.
//!  * `msgpack-hostile`, `msgpack-crafted` – the MessagePack reader on what the writer never produces
//!    (truncations, equivalent encodings with other headers, trailing bytes, damaged markers and
//!    lengths, hand-written inputs): see `hostile.rs`. Not run for C09.
//!
//! Signatures name the oracle, how it failed (direction, variant name of the error of the rejecting
//! side with value *kinds* only) and
//!  * the battery type (whose name describes its shape / attributes) for everything decided on
//!    instances of the type or on texts printed from them, and
//!  * the shape class of the type (`derived-plain`, `derived-attr-field`, `derived-header`,
//!    `derived-body-replaced`, `builtin`) for mutated / foreign inputs: recogniser-level disagreements
//!    on such inputs hit every type of a shape alike.
//! Never the data. The class of the input (which mutation produced it) is in the detail only: one
//! defect shows under every input class that happens to reach it.
//!
//! Features that are known to break a representation (Option in a positional body, HashMap in an
//! attribute, nested Vec in an attribute, `Value` as a replaced body, non-identifier tags, ...) are
//! isolated in dedicated battery types so that composite types stay clean and one defect yields few
//! signatures.

mod battery;
mod gen;
mod hostile;
mod texts;

/// Counts the largest single request per thread (see `hostile`): lets the `msgpack-hostile` part see a
/// reader that reserves what a corrupt length prefix announces.
#[global_allocator]
static ALLOC: hostile::WatchAlloc = hostile::WatchAlloc;

use std::collections::HashMap;
use std::fmt::Debug;
use std::num::NonZeroUsize;
use std::panic::{catch_unwind, AssertUnwindSafe};
use std::sync::Arc;
use std::time::Duration;

use bytes::{BufMut, BytesMut};
use common::{json, sanitize_sig, CaseOut, Json, Rng, Session};
use swimos_form::read::{ExpectedEvent, ReadError};
use swimos_form::write::StructuralWritable;
use swimos_model::{BigInt, BigUint, Blob, Text, Timestamp, Value, ValueKind};
use swimos_msgpack::{read_from_msg_pack, MsgPackInterpreter, MsgPackReadError};
use swimos_recon::parser::{parse_recognize, ParseError};
use swimos_recon::{print_recon, print_recon_compact, print_recon_pretty};

use battery::*;
use gen::Specimen;

const P: &str = "C16";

fn clip(s: &str) -> String {
    if s.chars().count() > 400 {
        format!("{}…", s.chars().take(400).collect::<String>())
    } else {
        s.to_string()
    }
}

fn show<T: Debug>(t: &T) -> Json {
    Json::String(clip(&format!("{t:?}")))
}

/// Kind of a value with all integer kinds folded into one (which of them a number gets depends on its
/// magnitude, i.e. on the data).
fn kind_class(k: &ValueKind) -> String {
    match k {
        ValueKind::Int32 | ValueKind::Int64 | ValueKind::UInt32 | ValueKind::UInt64 | ValueKind::BigInt | ValueKind::BigUint => "Integer".to_string(),
        other => format!("{other:?}"),
    }
}

fn expected_kind(e: &ExpectedEvent) -> String {
    match e {
        ExpectedEvent::ValueEvent(k) => kind_class(k),
        ExpectedEvent::Attribute(_) => "Attribute".to_string(),
        ExpectedEvent::RecordBody => "RecordBody".to_string(),
        ExpectedEvent::Slot => "Slot".to_string(),
        ExpectedEvent::EndOfRecord => "EndOfRecord".to_string(),
        ExpectedEvent::EndOfAttribute => "EndOfAttribute".to_string(),
        ExpectedEvent::Or(v) => format!("Or[{}]", v.iter().map(expected_kind).collect::<Vec<_>>().join("|")),
    }
}

/// Variant name of a read error (with the kinds of an `UnexpectedKind`, never names or values): a
/// data-free discriminator for signatures.
fn read_err_kind(e: &ReadError) -> String {
    match e {
        ReadError::UnexpectedKind { actual, expected } => {
            return format!("UnexpectedKind({},expected={})", kind_class(actual), expected.as_ref().map(expected_kind).unwrap_or_else(|| "none".to_string()))
        }
        other => read_err_variant(other),
    }
    .to_string()
}

fn read_err_variant(e: &ReadError) -> &'static str {
    match e {
        ReadError::UnexpectedKind { .. } => "UnexpectedKind",
        ReadError::ReaderUnderflow => "ReaderUnderflow",
        ReadError::DoubleSlot => "DoubleSlot",
        ReadError::ReaderOverflow => "ReaderOverflow",
        ReadError::IncompleteRecord => "IncompleteRecord",
        ReadError::MissingFields(_) => "MissingFields",
        ReadError::UnexpectedAttribute(_) => "UnexpectedAttribute",
        ReadError::InconsistentState => "InconsistentState",
        ReadError::UnexpectedItem => "UnexpectedItem",
        ReadError::UnexpectedSlot => "UnexpectedSlot",
        ReadError::DuplicateField(_) => "DuplicateField",
        ReadError::UnexpectedField(_) => "UnexpectedField",
        ReadError::NumberOutOfRange => "NumberOutOfRange",
        ReadError::MissingTag => "MissingTag",
        ReadError::Malformatted { .. } => "Malformatted",
        ReadError::Message(_) => "Message",
    }
}

fn parse_err_kind(e: &ParseError) -> String {
    match e {
        ParseError::Syntax { .. } => "Syntax".to_string(),
        ParseError::Structure(r) => read_err_kind(r),
        ParseError::InvalidEventStream => "InvalidEventStream".to_string(),
    }
}

fn msgpack_err_kind(e: &MsgPackReadError) -> String {
    match e {
        MsgPackReadError::Structure(r) => format!("Structure:{}", read_err_kind(r)),
        MsgPackReadError::StringDecode(_) => "StringDecode".into(),
        MsgPackReadError::InvalidMarker(_) => "InvalidMarker".into(),
        MsgPackReadError::UnknownExtType(_) => "UnknownExtType".into(),
        MsgPackReadError::EmptyBigInt => "EmptyBigInt".into(),
        MsgPackReadError::Incomplete => "Incomplete".into(),
        MsgPackReadError::UnconsumedData => "UnconsumedData".into(),
    }
}

fn hex(b: &[u8]) -> String {
    let mut s: String = b.iter().take(200).map(|x| format!("{x:02x}")).collect();
    if b.len() > 200 {
        s.push('…');
    }
    s
}

/// Equality used when comparing what two *reading paths* produced from the same input: the type's own
/// `PartialEq`; when that says "different" the `Debug` images are compared as a fallback, so that a
/// NaN introduced by a mutated input (NaN != NaN) read identically on both paths is not reported.
fn same<T: PartialEq + Debug>(a: &T, b: &T) -> bool {
    a == b || format!("{a:?}") == format!("{b:?}")
}

/// Run one call into the code under test; a panic becomes an `Err` carrying the message.
fn guard<R>(f: impl FnOnce() -> R) -> Result<R, String> {
    catch_unwind(AssertUnwindSafe(f)).map_err(|p| {
        if let Some(s) = p.downcast_ref::<&str>() {
            s.to_string()
        } else if let Some(s) = p.downcast_ref::<String>() {
            s.clone()
        } else {
            "non-string panic payload".to_string()
        }
    })
}

fn panic_violation(out: &mut CaseOut, op: &str, name: &str, msg: &str, detail: Json) {
    out.violation(
        P,
        format!("panic/{op}/{name}/{}", sanitize_sig(msg)),
        format!("{op} panicked: {msg}"),
        detail,
    );
}

// ------------------------------------------------------------------------------------------------
// The two reading paths of the property.

struct Readings<T> {
    direct: Result<T, ParseError>,
    model: Result<Value, ParseError>,
    via: Option<Result<T, ReadError>>,
}

/// `None` if one of the calls panicked (reported here).
fn read_both<T: Specimen>(name: &str, text: &str, out: &mut CaseOut) -> Option<Readings<T>> {
    out.events += 3;
    let direct = match guard(|| parse_recognize::<T>(text, false)) {
        Ok(r) => r,
        Err(msg) => {
            panic_violation(out, "parse_recognize-typed", name, &msg, json!({"text": clip(text)}));
            return None;
        }
    };
    let model = match guard(|| parse_recognize::<Value>(text, false)) {
        Ok(r) => r,
        Err(msg) => {
            panic_violation(out, "parse_recognize-model", name, &msg, json!({"text": clip(text)}));
            return None;
        }
    };
    let via = match &model {
        Ok(v) => match guard(|| T::try_from_value(v)) {
            Ok(r) => Some(r),
            Err(msg) => {
                panic_violation(out, "try_from_value", name, &msg, json!({"text": clip(text), "model": show(v)}));
                return None;
            }
        },
        Err(_) => None,
    };
    Some(Readings { direct, model, via })
}

#[derive(Clone, Copy, PartialEq, Eq, Debug)]
enum Outcome {
    /// The text is not well-formed Recon (the model parse failed) and the direct path rejected too.
    BothRejectUnparseable,
    BothAccept,
    BothReject,
    Mismatch,
    Panicked,
}

/// Oracle "direct-vs-value" on an arbitrary text. `class` names how the text was produced (detail only).
///
/// `key` is what the signature names: the battery type for texts printed from instances of the type
/// itself, the shape class of the type for mutated / foreign inputs (recogniser-level disagreements on
/// such inputs hit every type of a shape alike).
fn agree<T: Specimen>(name: &str, key: &str, text: &str, class: &str, r: &Readings<T>, out: &mut CaseOut) -> Outcome {
    let Readings { direct, model, via } = r;
    if let Err(ParseError::InvalidEventStream) = direct {
        out.count("direct:InvalidEventStream");
    }
    let detail = || {
        json!({
            "type": name, "input_class": class, "text": clip(text),
            "direct": match direct { Ok(x) => json!({"ok": show(x)}), Err(e) => json!({"err": format!("{e:?}")}) },
            "model": match model { Ok(v) => json!({"ok": show(v)}), Err(e) => json!({"err": format!("{e:?}")}) },
            "via_model": match via { Some(Ok(x)) => json!({"ok": show(x)}), Some(Err(e)) => json!({"err": format!("{e:?}")}), None => Json::Null },
        })
    };
    match (direct, via) {
        (Err(_), None) => Outcome::BothRejectUnparseable,
        (Ok(_), None) => {
            // The model parser rejects the text but the typed recogniser produced a value from it.
            out.violation(
                P,
                format!("direct-vs-value/accept-mismatch/{key}/direct-accepts/model-parse-rejects"),
                "parse_recognize::<T> accepts a text that parse_recognize::<Value> rejects",
                detail(),
            );
            Outcome::Mismatch
        }
        (Ok(a), Some(Ok(b))) => {
            if same(a, b) {
                // Not a verdict: the consuming conversion against the borrowing one.
                if let Ok(v) = model {
                    out.events += 1;
                    match guard(|| T::try_convert(v.clone())) {
                        Ok(Ok(c)) if same(&c, a) => {}
                        _ => out.count("try_convert-differs-from-try_from_value"),
                    }
                }
                Outcome::BothAccept
            } else {
                out.violation(
                    P,
                    format!("direct-vs-value/value-mismatch/{key}"),
                    "both reading paths accept the text but produce different values",
                    detail(),
                );
                Outcome::Mismatch
            }
        }
        (Ok(_), Some(Err(e))) => {
            out.violation(
                P,
                format!("direct-vs-value/accept-mismatch/{key}/direct-accepts/via-model-rejects:{}", read_err_kind(e)),
                "parse_recognize::<T> accepts, T::try_from_value(parse_recognize::<Value>) rejects",
                detail(),
            );
            Outcome::Mismatch
        }
        (Err(e), Some(Ok(_))) => {
            out.violation(
                P,
                format!("direct-vs-value/accept-mismatch/{key}/via-model-accepts/direct-rejects:{}", parse_err_kind(e)),
                "parse_recognize::<T> rejects, T::try_from_value(parse_recognize::<Value>) accepts",
                detail(),
            );
            Outcome::Mismatch
        }
        (Err(_), Some(Err(_))) => Outcome::BothReject,
    }
}

fn check_text<T: Specimen>(name: &str, key: &str, text: &str, class: &str, out: &mut CaseOut) -> Outcome {
    match read_both::<T>(name, text, out) {
        Some(r) => agree(name, key, text, class, &r, out),
        None => Outcome::Panicked,
    }
}

// ------------------------------------------------------------------------------------------------
// Oracles on one generated instance.

fn roundtrip<T: Specimen>(name: &str, x: T, rng: &mut Rng, out: &mut CaseOut) {
    out.sig(&name);
    out.sig(&format!("{x:?}"));
    out.nontrivial = true;
    out.count(&format!("type/{name}"));

    // (1) model round trip, both API pairs.
    out.events += 4;
    let v = match guard(|| x.as_value()) {
        Ok(v) => v,
        Err(msg) => {
            panic_violation(out, "as_value", name, &msg, json!({"x": show(&x)}));
            return;
        }
    };
    let violations_before_model = out.violations.len();
    let model_back = |api: &str, back: Result<Result<T, ReadError>, String>, v: &Value, out: &mut CaseOut| match back {
        Ok(Ok(y)) if y == x => {}
        Ok(Ok(y)) => out.violation(
            P,
            format!("model-roundtrip/differs/{name}"),
            format!("{api}: converting x to the model and back returns a different value"),
            json!({"api": api, "x": show(&x), "model": show(v), "back": show(&y)}),
        ),
        Ok(Err(e)) => out.violation(
            P,
            format!("model-roundtrip/rejected:{}/{name}", read_err_kind(&e)),
            format!("{api}: the model image of x is rejected by the type's own reader"),
            json!({"api": api, "x": show(&x), "model": show(v), "err": format!("{e:?}")}),
        ),
        Err(msg) => panic_violation(out, api, name, &msg, json!({"x": show(&x), "model": show(v)})),
    };
    model_back("try_from_value(as_value)", guard(|| T::try_from_value(&v)), &v, out);
    match guard(|| x.clone().into_value()) {
        Ok(v2) => {
            if v2 != v {
                out.count("as_value!=into_value");
            }
            model_back("try_convert(into_value)", guard(|| T::try_convert(v2.clone())), &v2, out);
        }
        Err(msg) => panic_violation(out, "into_value", name, &msg, json!({"x": show(&x)})),
    }

    let model_ok = out.violations.len() == violations_before_model;

    // (2) Recon. The printed text must denote the model image of x (then `parse_recognize::<T>(text)
    // == x` follows from the model round trip and from the agreement of the two reading paths, both of
    // which are checked on their own). The model image printed through `Value`'s writer is used as a
    // diagnostic: when it is the same text, the finding is about the Recon printer/parser pair, not
    // about the typed writer.
    type Printers<T> = [(&'static str, fn(&T) -> String, fn(&Value) -> String); 3];
    let printers: Printers<T> = [
        ("std", |x| print_recon(x).to_string(), |v| print_recon(v).to_string()),
        ("compact", |x| print_recon_compact(x).to_string(), |v| print_recon_compact(v).to_string()),
        ("pretty", |x| print_recon_pretty(x).to_string(), |v| print_recon_pretty(v).to_string()),
    ];
    let mut sample_text = String::new();
    // one violation per (kind, diagnostic) for the three printers together
    let mut print_findings: Vec<(String, String, Json)> = Vec::new();
    for (printer, typed, of_model) in &printers {
        out.events += 1;
        let text = match guard(|| typed(&x)) {
            Ok(t) => t,
            Err(msg) => {
                panic_violation(out, &format!("print_recon-{printer}"), name, &msg, json!({"x": show(&x)}));
                continue;
            }
        };
        if sample_text.is_empty() {
            sample_text = text.clone();
        }
        let Some(r) = read_both::<T>(name, &text, out) else { continue };
        let model_text = guard(|| of_model(&v)).ok();
        let diag = match &model_text {
            Some(mt) if *mt == text => "same-text-as-model-print",
            Some(_) => "typed-print-differs-from-model-print",
            None => "model-print-panics",
        };
        let paths_agree = matches!(
            agree(name, name, &text, &format!("own-printed-{printer}"), &r, out),
            Outcome::BothAccept | Outcome::BothReject
        );
        match &r.model {
            Ok(m) if *m == v => {
                // Faithful text: the direct reading gives x back unless the model round trip or the
                // agreement of the reading paths fails (both reported on their own).
                match &r.direct {
                    Ok(y) if *y == x => {}
                    _ if model_ok && paths_agree => out.violation(
                        P,
                        format!("recon-roundtrip/unexplained/{name}"),
                        "parse_recognize::<T>(print(x)) != x although the text denotes x.as_value(), the model round trip holds and the reading paths agree",
                        json!({"x": show(&x), "text": clip(&text), "printer": printer, "direct": match &r.direct { Ok(y) => show(y), Err(e) => Json::String(format!("{e:?}")) }}),
                    ),
                    _ => out.count("direct-read-of-printed-text-differs(explained-by-other-oracle)"),
                }
            }
            Ok(m) => print_findings.push((
                format!("recon-print/text-denotes-different-model/{name}/{diag}"),
                printer.to_string(),
                json!({"x": show(&x), "text": clip(&text), "model_of_x": show(&v), "model_of_text": show(m), "model_print": model_text.as_deref().map(clip)}),
            )),
            Err(e) => print_findings.push((
                format!("recon-print/text-unparseable:{}/{name}/{diag}", parse_err_kind(e)),
                printer.to_string(),
                json!({"x": show(&x), "text": clip(&text), "err": format!("{e:?}"), "model_print": model_text.as_deref().map(clip)}),
            )),
        }
    }
    print_findings.sort_by(|a, b| a.0.cmp(&b.0));
    let mut i = 0;
    while i < print_findings.len() {
        let sig = print_findings[i].0.clone();
        let ps: Vec<String> = print_findings.iter().filter(|f| f.0 == sig).map(|f| f.1.clone()).collect();
        // Not part of C16's statement (which is about converting and *reading*): a printed text
        // that does not denote the value's model is a printer/parser defect, i.e. C09's business.
        // It is recorded under C09 so that it never decides the C16 check.
        out.violation(
            "C09",
            format!("form-engine/{sig}"),
            format!("the Recon text printed from x does not denote x.as_value() (printers: {})", ps.join("+")),
            print_findings[i].2.clone(),
        );
        i += ps.len();
    }

    // (3) MessagePack.
    out.events += 2;
    let mut buf = BytesMut::new();
    let written = guard(|| {
        let mut w = (&mut buf).writer();
        x.write_with(MsgPackInterpreter::new(&mut w))
    });
    match written {
        Err(msg) => panic_violation(out, "msgpack-write", name, &msg, json!({"x": show(&x)})),
        Ok(Err(e)) => out.violation(
            P,
            format!("msgpack-roundtrip/write-error/{name}"),
            format!("writing x as MessagePack fails: {e}"),
            json!({"x": show(&x), "err": format!("{e:?}")}),
        ),
        Ok(Ok(())) => {
            let all = buf.clone().freeze();
            let mut bytes = buf.split().freeze();
            match guard(|| read_from_msg_pack::<T, _>(&mut bytes)) {
                Err(msg) => panic_violation(out, "msgpack-read", name, &msg, json!({"x": show(&x), "bytes": hex(&all)})),
                Ok(Ok(y)) if y == x => {
                    if !bytes.is_empty() {
                        out.count("msgpack-unconsumed-bytes");
                    }
                }
                Ok(Ok(y)) => out.violation(
                    P,
                    format!("msgpack-roundtrip/differs/{name}"),
                    "read_from_msg_pack(write(x)) returns a different value",
                    json!({"x": show(&x), "bytes": hex(&all), "back": show(&y)}),
                ),
                Ok(Err(e)) => out.violation(
                    P,
                    format!("msgpack-roundtrip/rejected:{}/{name}", msgpack_err_kind(&e)),
                    format!("read_from_msg_pack(write(x)) fails: {e}"),
                    json!({"x": show(&x), "bytes": hex(&all), "err": format!("{e:?}")}),
                ),
            }
        }
    }
    // Not a verdict (the statement only asks for write(x) -> read == x): the MessagePack image of the
    // *model image* read back as T. Counted per type so that the evidence shows where the two differ.
    out.events += 1;
    let mut buf = BytesMut::new();
    let via_model = guard(|| {
        let mut w = (&mut buf).writer();
        if v.write_with(MsgPackInterpreter::new(&mut w)).is_err() {
            return None;
        }
        let mut bytes = buf.split().freeze();
        read_from_msg_pack::<T, _>(&mut bytes).ok()
    });
    match via_model {
        Ok(Some(y)) if y == x => {}
        _ => out.count(&format!("msgpack-of-model-image-read-as-T-differs/{name}")),
    }
    if rng.chance(1, 200) {
        out.set_sample(json!({"type": name, "x": show(&x), "recon": clip(&sample_text)}));
    }
}

// ------------------------------------------------------------------------------------------------
// Per-type operations, type-erased into an `Entry` so that the parts can cycle through the battery.

type Texts = Vec<(String, &'static str)>;

struct Entry {
    name: &'static str,
    /// Shape / attribute class of the type.
    shape: &'static str,
    roundtrip: Box<dyn Fn(&mut Rng, &mut CaseOut) + Sync>,
    /// Valid texts for a fresh instance (typed and model prints, three printers; a printer that
    /// panics contributes nothing here – the `roundtrip` part reports it).
    texts: Box<dyn Fn(&mut Rng) -> Texts + Sync>,
    /// Model image of a fresh instance.
    value: Box<dyn Fn(&mut Rng) -> Value + Sync>,
    /// (signature key, text, input class)
    check: Box<dyn Fn(&str, &str, &str, &mut CaseOut) -> Outcome + Sync>,
    /// Part `msgpack-hostile` on a fresh instance; the argument is the MessagePack image of an
    /// instance of another battery type (with that type's name).
    hostile: Box<dyn Fn(&mut Rng, Option<(Vec<u8>, &'static str)>, &mut CaseOut) + Sync>,
    /// MessagePack image of a fresh instance (`None` if the writer fails on it).
    msgpack: Box<dyn Fn(&mut Rng) -> Option<Vec<u8>> + Sync>,
    /// Part `msgpack-crafted`: the hand-written input of that index read as this type.
    crafted: Box<dyn Fn(usize, &mut CaseOut) + Sync>,
}

impl Entry {
    fn of<T: Specimen>(shape: &'static str, name: &'static str) -> Entry {
        Entry::with::<T>(shape, name, T::gen)
    }

    fn with<T: Specimen>(shape: &'static str, name: &'static str, gen: fn(&mut Rng) -> T) -> Entry {
        Entry {
            name,
            shape,
            roundtrip: Box::new(move |rng, out| {
                let x = gen(rng);
                roundtrip::<T>(name, x, rng, out)
            }),
            texts: Box::new(move |rng| {
                let x = gen(rng);
                let mut texts: Texts = Vec::new();
                let mut push = |r: Result<String, String>, how| {
                    if let Ok(t) = r {
                        texts.push((t, how));
                    }
                };
                push(guard(|| print_recon(&x).to_string()), "typed-std");
                push(guard(|| print_recon_compact(&x).to_string()), "typed-compact");
                push(guard(|| print_recon_pretty(&x).to_string()), "typed-pretty");
                if let Ok(v) = guard(|| x.as_value()) {
                    push(guard(|| print_recon(&v).to_string()), "model-std");
                    push(guard(|| print_recon_compact(&v).to_string()), "model-compact");
                    push(guard(|| print_recon_pretty(&v).to_string()), "model-pretty");
                }
                texts
            }),
            value: Box::new(move |rng| {
                let x = gen(rng);
                guard(|| x.as_value()).unwrap_or(Value::Extant)
            }),
            check: Box::new(move |key, text, class, out| check_text::<T>(name, key, text, class, out)),
            hostile: Box::new(move |rng, foreign, out| {
                let x = gen(rng);
                hostile::run::<T>(name, shape, x, foreign, rng, out)
            }),
            msgpack: Box::new(move |rng| hostile::write_mp(&gen(rng))),
            crafted: Box::new(move |idx, out| hostile::crafted::<T>(name, shape, idx, out)),
        }
    }
}

macro_rules! entries {
    ($shape:literal: $($name:literal => $t:ty),+ $(,)?) => {
        vec![$(Entry::of::<$t>($shape, $name)),+]
    };
}

fn battery() -> Vec<Entry> {
    let mut all: Vec<Entry> = Vec::new();
    all.extend(entries!["derived-plain":
        "Unit" => Unit,
        "UnitTagged" => UnitTagged,
        "UnitTagQuoted" => UnitTagQuoted,
        "Tuple1" => Tuple1,
        "Tuple1Record" => Tuple1Record,
        "Tuple1Vec" => Tuple1Vec,
        "Tuple2" => Tuple2,
        "Tuple3Skip" => Tuple3Skip,
        "TupleRenamed" => TupleRenamed,
        "TupleOpt" => TupleOpt,
        "Labelled" => Labelled,
        "LabelledSkip" => LabelledSkip,
        "LabelledRenamed" => LabelledRenamed,
        "TaggedStruct" => TaggedStruct,
        "ConventionStruct" => ConventionStruct,
        "Prims" => Prims,
        "ManyOptFields" => ManyOptFields,
        "Generic1<i32>" => Generic1<i32>,
        "Generic1<Labelled>" => Generic1<Labelled>,
        "Generic1<Vec<String>>" => Generic1<Vec<String>>,
        "Generic1<Option<MixedEnum>>" => Generic1<Option<MixedEnum>>,
        "GenericTuple<i32,Labelled>" => GenericTuple<i32, Labelled>,
        "Nested" => Nested,
        "TupleNested" => TupleNested,
        "WithMaps" => WithMaps,
        "VecFields" => VecFields,
        "OptFields" => OptFields,
    ]);
    all.extend(entries!["derived-plain":
        "NewtypeI32" => NewtypeI32,
        "NewtypeNamedSkip" => NewtypeNamedSkip,
        "NewtypeStruct" => NewtypeStruct,
        "NewtypeVec" => NewtypeVec,
    ]);
    all.extend(entries!["derived-attr-field":
        "AttrPrim" => AttrPrim,
        "AttrTwo" => AttrTwo,
        "AttrComplex" => AttrComplex,
        "AttrVecVec" => AttrVecVec,
        "AttrMap" => AttrMap,
        "AttrEnum" => AttrEnum,
        "BigFields" => BigFields,
    ]);
    all.extend(entries!["derived-header":
        "HeaderBodyPrim" => HeaderBodyPrim,
        "HeaderBodyOnly" => HeaderBodyOnly,
        "HeaderBodyOpt" => HeaderBodyOpt,
        "HeaderBodyVec" => HeaderBodyVec,
        "HeaderBodyVecVec" => HeaderBodyVecVec,
        "HeaderBodyStruct" => HeaderBodyStruct,
        "HeaderBodyMap" => HeaderBodyMap,
    ]);
    all.extend(entries!["derived-header":
        "HeaderSlots" => HeaderSlots,
        "HeaderSlotsComplex" => HeaderSlotsComplex,
        "HeaderBoth" => HeaderBoth,
        "HeaderBothVec" => HeaderBothVec,
        "GenericHeader<String,i32,bool>" => GenericHeader<String, i32, bool>,
        "GenericHeader<i32,Vec<String>,Labelled>" => GenericHeader<i32, Vec<String>, Labelled>,
        "TagField" => TagField,
        "Kitchen" => Kitchen,
        "ValueFields" => ValueFields,
    ]);
    all.extend(entries!["derived-body-replaced":
        "WrapBodyVec" => WrapBodyVec,
        "WrapBodyStruct" => WrapBodyStruct,
        "ChoiceBody" => ChoiceBody,
        "Vec<ChoiceBody>" => Vec<ChoiceBody>,
        "Vec<BodyVec>" => Vec<BodyVec>,
        "AttrOfBodyVec" => AttrOfBodyVec,
        "AttrOfBodyStruct" => AttrOfBodyStruct,
    ]);
    all.extend(entries!["derived-header":
        "HeaderBodyLastVec" => HeaderBodyLastVec,
        "Vec<HeaderBodyLastVec>" => Vec<HeaderBodyLastVec>,
        "Vec<HeaderBodyLastOpt>" => Vec<HeaderBodyLastOpt>,
        "Vec<HeaderBodyLastStruct>" => Vec<HeaderBodyLastStruct>,
        "Generic1<Vec<HeaderBodyLastOpt>>" => Generic1<Vec<HeaderBodyLastOpt>>,
        "Vec<HeaderBodyOpt>" => Vec<HeaderBodyOpt>,
    ]);
    all.extend(entries!["derived-body-replaced":
        "BodyPrim" => BodyPrim,
        "BodyStruct" => BodyStruct,
        "BodyVec" => BodyVec,
        "BodyOnlyOpt" => BodyOnlyOpt,
        "BodyEnum" => BodyEnum,
        "BodyValue" => BodyValue,
        "BodyBlob" => BodyBlob,
        "BodyBigInt" => BodyBigInt,
    ]);
    all.extend(entries!["derived-plain":
        "UnitEnum" => UnitEnum,
        "MixedEnum" => MixedEnum,
        "ConventionEnum" => ConventionEnum,
        "GenericEnum<i32,String>" => GenericEnum<i32, String>,
        "GenericEnum<String,Vec<i32>>" => GenericEnum<String, Vec<i32>>,
        "EnumOfTypes" => EnumOfTypes,
        "EnumTupleOpt" => EnumTupleOpt,
        "SingleVariant" => SingleVariant,
    ]);
    all.extend(entries!["derived-header":
        "MapUpdateLike<String,Labelled>" => MapUpdateLike<String, Labelled>,
        "MapUpdateLike<i32,Value>" => MapUpdateLike<i32, Value>,
        "HeaderEnum" => HeaderEnum,
    ]);
    // `#[form(tag)]` fields (R5-C16): every shape the derive treats separately, alone and nested.
    all.extend(entries!["derived-plain":
        "TagFieldOnly" => TagFieldOnly,
        "TagFieldLabelled" => TagFieldLabelled,
        "TagFieldTuple" => TagFieldTuple,
        "TagFieldTuple1" => TagFieldTuple1,
        "TagFieldGeneric<i32>" => TagFieldGeneric<i32>,
        "TagFieldGeneric<TagFieldTuple>" => TagFieldGeneric<TagFieldTuple>,
        "Vec<TagFieldTuple>" => Vec<TagFieldTuple>,
        "Option<TagFieldLabelled>" => Option<TagFieldLabelled>,
        "EnumOfTagFields" => EnumOfTagFields,
    ]);
    all.extend(entries!["derived-header":
        "TagFieldLabelledHeaders" => TagFieldLabelledHeaders,
        "TagFieldTupleHeaders" => TagFieldTupleHeaders,
        "TagFieldNoItems" => TagFieldNoItems,
        "TagFieldNoItemsHeaderBody" => TagFieldNoItemsHeaderBody,
        "Vec<TagFieldNoItems>" => Vec<TagFieldNoItems>,
    ]);
    all.extend(entries!["derived-attr-field":
        "TagFieldNoItemsAttr" => TagFieldNoItemsAttr,
    ]);
    all.extend(entries!["derived-body-replaced":
        "TagFieldBody" => TagFieldBody,
        "TagFieldBodyPrim" => TagFieldBodyPrim,
        "TagFieldBodyHeaders" => TagFieldBodyHeaders,
        "Vec<TagFieldBody>" => Vec<TagFieldBody>,
    ]);
    let derived = all.len();
    assert!(derived >= 40);
    all.extend(entries!["builtin":
        "()" => (),
        "i32" => i32,
        "i64" => i64,
        "u32" => u32,
        "u64" => u64,
        "usize" => usize,
        "NonZeroUsize" => NonZeroUsize,
        "f64" => f64,
        "bool" => bool,
        "String" => String,
        "Text" => Text,
        "Blob" => Blob,
        "Vec<u8>" => Vec<u8>,
        "Box<[u8]>" => Box<[u8]>,
        "BigInt" => BigInt,
        "BigUint" => BigUint,
        "Timestamp" => Timestamp,
        "Arc<String>" => Arc<String>,
    ]);
    all.extend(entries!["builtin":
        "Duration" => Duration,
        "Arc<Labelled>" => Arc<Labelled>,
    ]);
    all.extend(entries!["builtin":
        "Option<i32>" => Option<i32>,
        "Option<String>" => Option<String>,
        "Option<Labelled>" => Option<Labelled>,
        "Option<Vec<i32>>" => Option<Vec<i32>>,
    ]);
    all.extend(entries!["builtin":
        "Vec<i32>" => Vec<i32>,
        "Vec<String>" => Vec<String>,
        "Vec<f64>" => Vec<f64>,
        "Vec<Vec<i32>>" => Vec<Vec<i32>>,
        "Vec<Option<i32>>" => Vec<Option<i32>>,
        "Vec<Labelled>" => Vec<Labelled>,
        "Vec<MixedEnum>" => Vec<MixedEnum>,
        "Vec<Value>" => Vec<Value>,
        "(i32,)" => (i32,),
        "(i32,String)" => (i32, String),
        "(Labelled,Vec<i32>,Option<bool>)" => (Labelled, Vec<i32>, Option<bool>),
        "(i32,i64,u32,u64,f64)" => (i32, i64, u32, u64, f64),
    ]);
    all.extend(entries!["builtin":
        "HashMap<String,i32>" => HashMap<String, i32>,
        "HashMap<i32,String>" => HashMap<i32, String>,
        "HashMap<String,Labelled>" => HashMap<String, Labelled>,
        "HashMap<String,Vec<i32>>" => HashMap<String, Vec<i32>>,
    ]);
    all.push(Entry::with::<Value>("builtin", "Value", mixed_value));
    // Everything the model allows (non-identifier attribute names, extant items, big integers ...).
    all.push(Entry::with::<Value>("builtin", "Value(wild)", wild_value));
    all
}

/// Hand-written inputs fed to every type of the battery.
const CRAFTED: &[&str] = &[
    "@duration { secs: 18446744073709551615, nanos: 4294967295 }",
    "@duration { secs: 18446744073709551615, nanos: 1000000000 }",
    "@duration { nanos: 4294967295, secs: 1 }",
    "@duration { secs: 1 }",
    "@duration",
    "9223372036854775807",
    "-9223372036854775808",
    "18446744073709551615",
    "-1",
    "0",
    "4294967296",
    "1e400",
    "-0.0",
    "{}",
    "{,}",
    "",
    "@Labelled(,) { a: 1, b: b, c: true }",
    "@Labelled { a: 1, b: b, c: true, }",
    "@Labelled { a: 1, b: b, c: true } trailing",
    "@Labelled { a: 1, b: b, c: true, a: 2 }",
    "@Labelled { c: true, b: b, a: 1 }",
];

mod sizes;

fn main() {
    let mut s = Session::new("form");
    let entries = battery();
    let n = entries.len() as u64;
    s.note(format!("battery: {n} types"));

    let per_type = s.args.budget(2_000, 100_000);
    s.part(
        "roundtrip",
        "one generated instance x of battery type T per case (T = case mod |battery|): model round trip (as_value/try_from_value, into_value/try_convert); Recon text printed from x (three printers) parses to the model image of x and the direct and via-Value reading paths agree on it; MessagePack write -> read_from_msg_pack == x; every case is non-trivial; distinct by (type, Debug image of x)",
        false,
        per_type * n,
        |i, rng, out| {
            let e = &entries[(i % n) as usize];
            (e.roundtrip)(rng, out);
        },
    );

    s.part(
        "msgpack-sizes",
        "one (shape, size) per case over 7 collection/string shapes x 13 sizes at the MessagePack length-class boundaries (15..17, 31..33, 255..257, 65535..65537, 70001): write -> read_from_msg_pack must give the value back; exhaustive over that grid; distinct by (shape, size)",
        true,
        (sizes::SIZES.len() * sizes::SHAPES.len()) as u64,
        |i, _rng, out| sizes::run_case(i, out),
    );

    // The MessagePack reader on what the writer never produces. Judges C16 only.
    if s.prop() != "C09" {
        let per_type = s.args.budget(40, 1_500);
        s.part(
            "msgpack-hostile",
            "one generated instance x of battery type T per case (T = case mod |battery|), written by the real MessagePack writer, then read by read_from_msg_pack::<T> and read_from_msg_pack::<Value> -> T::try_from_value from: every strict prefix of the bytes and of three re-encodings with 8/16/32-bit headers (must be rejected, never read as a different value); every single-token re-encoding with a header the writer never chooses (f32, str8/16/32, bin16/32, array16/32, map16/32, ext8/16/32, wider signed/unsigned integers) and all tokens widened at once (must be ruled on exactly as the writer's encoding); the bytes followed by trailing bytes (never a different value); 10 damaged copies (reserved/random/array markers, unknown extension types, empty big integers, lengths +-1 and up to 4 GiB, bit flips, byte insert/delete, scalars of another kind, dropped/duplicated tokens), 2 structure-mutated model images, the bytes of another battery type, hand-written inputs; on everything: no panic, no single allocator request >= 16 MiB, and the two reading paths agree on accept/reject and value; in 1 case of 4 the bytes are also read by a hand-written recogniser that completes after k = 1, 2, ... events (Ok must not leave part of the value unread); non-trivial when the harness tokeniser reproduces the writer's bytes exactly; distinct by (type, Debug image of x, damaged inputs)",
            false,
            per_type * n,
            |i, rng, out| {
                let e = &entries[(i % n) as usize];
                let foreign = if rng.chance(1, 2) {
                    let src = &entries[rng.usize_below(entries.len())];
                    (src.msgpack)(rng).map(|b| (b, src.name))
                } else {
                    None
                };
                (e.hostile)(rng, foreign, out);
            },
        );
        let k = hostile::crafted_len() as u64;
        s.part(
            "msgpack-crafted",
            "every hand-written MessagePack input (top-level and record-level error exits: empty input, reserved marker, arrays at value position, empty/unknown/oversized extensions, str/bin/ext/array/map lengths up to 4 GiB with no data, invalid UTF-8, f32, non-text attribute names) read as every battery type: no panic, no allocator request >= 16 MiB, the two reading paths agree; and every hand-built equivalent pair (18 scalars x 5 positions - alone, delegated body, record item, attribute value, slot value - in the minimal form and in every other form that carries them): both must be ruled on alike by every battery type; exhaustive over (type, input); distinct by (type, input)",
            true,
            n * k,
            |i, _rng, out| {
                let e = &entries[(i / k) as usize];
                (e.crafted)((i % k) as usize, out);
            },
        );
    }

    let cases = s.args.budget(150_000, 6_000_000);
    s.part(
        "texts",
        "arbitrary inputs for battery type T (T = case mod |battery|): own valid text, text valid for another battery type, structure-level mutations (fields reordered/missing/duplicated, extra/missing/renamed attributes, wrong primitive kinds, attribute-body wrapping ...) and token-level mutations of either, random model values; parse_recognize::<T>(text) and parse_recognize::<Value>(text) -> T::try_from_value must agree on accept/reject and value; non-trivial when at least one text of the case is well-formed Recon; distinct by (type, texts)",
        false,
        cases,
        |i, rng, out| {
            let e = &entries[(i % n) as usize];
            out.sig(&e.name);
            // Source of the base value/text: the type itself or another type of the battery.
            let cross = rng.chance(1, 3);
            let src = if cross { &entries[rng.usize_below(entries.len())] } else { e };
            let origin = if cross && src.name != e.name { "cross" } else { "own" };
            let mut inputs: Vec<(String, String)> = Vec::new();
            // a) printed as is
            let valid = (src.texts)(rng);
            if valid.is_empty() {
                out.inconclusive("every printer panicked on the generated instance");
                return;
            }
            let (t0, how) = &valid[rng.usize_below(valid.len())];
            inputs.push((t0.clone(), format!("{origin}/valid-{how}")));
            // b) structure-level mutations of the model image, printed with a random printer
            for _ in 0..3 {
                let mut v = (src.value)(rng);
                let class = *rng.pick(texts::VALUE_MUTATIONS);
                if texts::mutate_value(&mut v, class, rng) {
                    // occasionally stack a second mutation
                    let class2 = if rng.chance(1, 5) {
                        let c2 = *rng.pick(texts::VALUE_MUTATIONS);
                        if texts::mutate_value(&mut v, c2, rng) {
                            Some(c2)
                        } else {
                            None
                        }
                    } else {
                        None
                    };
                    let which = rng.below(3);
                    let text = guard(|| match which {
                        0 => print_recon(&v).to_string(),
                        1 => print_recon_compact(&v).to_string(),
                        _ => print_recon_pretty(&v).to_string(),
                    });
                    let Ok(text) = text else {
                        out.count("printer-panicked-on-mutated-model");
                        continue;
                    };
                    let label = match class2 {
                        Some(c2) => format!("{origin}/{class}+{c2}"),
                        None => format!("{origin}/{class}"),
                    };
                    inputs.push((text, label));
                }
            }
            // c) token-level mutations of a valid text
            for _ in 0..3 {
                let (t, _) = &valid[rng.usize_below(valid.len())];
                let class = *rng.pick(texts::TOKEN_MUTATIONS);
                if let Some(m) = texts::mutate_tokens(t, class, rng) {
                    inputs.push((m, format!("{origin}/{class}")));
                }
            }
            // d) a random model value
            if rng.chance(1, 4) {
                let v = gen::any_value(rng, 2);
                if let Ok(t) = guard(|| print_recon(&v).to_string()) {
                    inputs.push((t, "random/value".to_string()));
                }
            }
            // e) hand-written hostile texts (boundary numerics where a reader does arithmetic)
            if rng.chance(1, 16) {
                inputs.push((rng.pick(CRAFTED).to_string(), "crafted/text".to_string()));
            }
            let mut well_formed = 0;
            for (text, class) in &inputs {
                out.sig(text);
                // Texts printed from an instance of T itself are keyed by the type, everything else by
                // the shape class of T.
                let key = if class.starts_with("own/valid-") { e.name } else { e.shape };
                let o = (e.check)(key, text, class, out);
                // Coverage: per input class, how the real functions ruled.
                let bucket = class.split('+').next().unwrap_or("");
                match o {
                    Outcome::BothRejectUnparseable => out.count(&format!("unparseable/{bucket}")),
                    Outcome::BothAccept => {
                        well_formed += 1;
                        out.count(&format!("both-accept/{bucket}"));
                        out.count(&format!("accepted-by/{}", e.name));
                    }
                    Outcome::BothReject => {
                        well_formed += 1;
                        out.count(&format!("both-reject/{bucket}"));
                    }
                    Outcome::Mismatch => {
                        well_formed += 1;
                        out.count(&format!("mismatch/{bucket}"));
                    }
                    Outcome::Panicked => out.count(&format!("panicked/{bucket}")),
                }
            }
            out.nontrivial = well_formed > 0;
            if i < 3 * n && i % n == 0 {
                out.set_sample(json!({"type": e.name, "inputs": inputs.iter().take(4).map(|(t, c)| json!({"class": c, "text": clip(t)})).collect::<Vec<_>>()}));
            }
        },
    );

    s.finish()
}
