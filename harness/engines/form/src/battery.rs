//! The battery of `#[derive(Form)]` types. Type names describe the shape / attribute class: they are
//! what violation signatures are keyed on.
//!
//! Skipped fields are always generated as `Default::default()` (documented: they are not written and
//! come back as the default).

use std::collections::HashMap;
use std::sync::Arc;

use common::Rng;
use swimos_form::{Form, Tag};
use swimos_model::{BigInt, BigUint, Blob, Text, Value};

use crate::gen::{g, Specimen};

macro_rules! specimen {
    ($t:ty, |$r:ident| $body:expr) => {
        impl Specimen for $t {
            fn gen($r: &mut Rng) -> Self {
                $body
            }
        }
    };
}

// ------------------------------------------------------------------------------------------------
// Structs: basic shapes

#[derive(Form, Debug, PartialEq, Clone)]
pub struct Unit;
specimen!(Unit, |_r| Unit);

#[derive(Form, Debug, PartialEq, Clone)]
#[form(tag = "unit-renamed")]
pub struct UnitTagged;
specimen!(UnitTagged, |_r| UnitTagged);

/// A tag that is not an identifier: has to be quoted in Recon.
#[derive(Form, Debug, PartialEq, Clone)]
#[form(tag = "my tag")]
pub struct UnitTagQuoted;
specimen!(UnitTagQuoted, |_r| UnitTagQuoted);

#[derive(Form, Debug, PartialEq, Clone)]
pub struct Tuple1(pub i32);
specimen!(Tuple1, |r| Tuple1(g(r)));

#[derive(Form, Debug, PartialEq, Clone)]
pub struct Tuple2(pub i32, pub String);
specimen!(Tuple2, |r| Tuple2(g(r), g(r)));

#[derive(Form, Debug, PartialEq, Clone)]
pub struct Tuple3Skip(#[form(skip)] pub i32, pub String, pub bool);
specimen!(Tuple3Skip, |r| Tuple3Skip(0, g(r), g(r)));

#[derive(Form, Debug, PartialEq, Clone)]
pub struct TupleRenamed(#[form(name = "first")] pub i32, #[form(name = "second")] pub String);
specimen!(TupleRenamed, |r| TupleRenamed(g(r), g(r)));

#[derive(Form, Debug, PartialEq, Clone)]
pub struct TupleOpt(pub Option<i32>, pub String);
specimen!(TupleOpt, |r| TupleOpt(g(r), g(r)));

#[derive(Form, Debug, PartialEq, Clone)]
#[form(newtype)]
pub struct NewtypeI32(pub i32);
specimen!(NewtypeI32, |r| NewtypeI32(g(r)));

#[derive(Form, Debug, PartialEq, Clone)]
#[form(newtype)]
pub struct NewtypeNamedSkip {
    pub a: String,
    #[form(skip)]
    pub b: i32,
}
specimen!(NewtypeNamedSkip, |r| NewtypeNamedSkip { a: g(r), b: 0 });

#[derive(Form, Debug, PartialEq, Clone)]
#[form(newtype)]
pub struct NewtypeStruct(pub Labelled);
specimen!(NewtypeStruct, |r| NewtypeStruct(g(r)));

#[derive(Form, Debug, PartialEq, Clone)]
#[form(newtype)]
pub struct NewtypeVec(pub Vec<i32>);
specimen!(NewtypeVec, |r| NewtypeVec(g(r)));

#[derive(Form, Debug, PartialEq, Clone)]
pub struct Labelled {
    pub a: i32,
    pub b: String,
    pub c: bool,
}
specimen!(Labelled, |r| Labelled { a: g(r), b: g(r), c: g(r) });

#[derive(Form, Debug, PartialEq, Clone)]
pub struct LabelledSkip {
    pub a: i32,
    #[form(skip)]
    pub b: String,
    pub c: Option<bool>,
}
specimen!(LabelledSkip, |r| LabelledSkip { a: g(r), b: String::new(), c: g(r) });

#[derive(Form, Debug, PartialEq, Clone)]
pub struct LabelledRenamed {
    #[form(name = "renamed")]
    pub a: i32,
    #[form(name = "needs quoting")]
    pub b: String,
    #[form(name = "true")]
    pub c: bool,
}
specimen!(LabelledRenamed, |r| LabelledRenamed { a: g(r), b: g(r), c: g(r) });

#[derive(Form, Debug, PartialEq, Clone)]
#[form(tag = "custom")]
pub struct TaggedStruct {
    pub a: i64,
    pub b: Option<String>,
}
specimen!(TaggedStruct, |r| TaggedStruct { a: g(r), b: g(r) });

#[derive(Form, Debug, PartialEq, Clone)]
#[form(convention = "kebab", fields_convention = "camel")]
pub struct ConventionStruct {
    pub first_field: i32,
    #[form(convention = "snake-upper")]
    pub second_field: String,
    #[form(name = "explicit")]
    pub third_field: bool,
}
specimen!(ConventionStruct, |r| ConventionStruct { first_field: g(r), second_field: g(r), third_field: g(r) });

#[derive(Form, Debug, PartialEq, Clone)]
pub struct Prims {
    pub i: i32,
    pub l: i64,
    pub u: u32,
    pub ul: u64,
    pub us: usize,
    pub f: f64,
    pub b: bool,
    pub s: String,
    pub t: Text,
    pub d: Blob,
    pub unit: (),
}
specimen!(Prims, |r| Prims {
    i: g(r),
    l: g(r),
    u: g(r),
    ul: g(r),
    us: g(r),
    f: g(r),
    b: g(r),
    s: g(r),
    t: g(r),
    d: g(r),
    unit: (),
});

#[derive(Form, Debug, PartialEq, Clone)]
pub struct BigFields {
    pub bi: BigInt,
    pub bu: BigUint,
    #[form(attr)]
    pub abi: BigInt,
}
specimen!(BigFields, |r| BigFields { bi: g(r), bu: g(r), abi: g(r) });

macro_rules! many_fields {
    ($name:ident { $($f:ident),+ }) => {
        #[derive(Form, Debug, PartialEq, Clone)]
        pub struct $name { $(pub $f: Option<i32>),+ }
        specimen!($name, |r| $name { $($f: if r.chance(1, 4) { Some(g(r)) } else { None }),+ });
    };
}

// 36 optional fields: beyond 32 bits of the recognizers' progress bitset.
many_fields!(ManyOptFields {
    f00, f01, f02, f03, f04, f05, f06, f07, f08, f09, f10, f11, f12, f13, f14, f15, f16, f17, f18, f19, f20, f21, f22, f23,
    f24, f25, f26, f27, f28, f29, f30, f31, f32, f33, f34, f35
});

// ------------------------------------------------------------------------------------------------
// Structs: attr / header / header_body / body / tag

#[derive(Form, Debug, PartialEq, Clone)]
pub struct AttrPrim {
    #[form(attr)]
    pub in_attr: bool,
    pub first: i32,
}
specimen!(AttrPrim, |r| AttrPrim { in_attr: g(r), first: g(r) });

#[derive(Form, Debug, PartialEq, Clone)]
pub struct AttrTwo {
    #[form(attr)]
    pub a: String,
    #[form(attr, name = "bee")]
    pub b: Option<i32>,
    pub c: i32,
}
specimen!(AttrTwo, |r| AttrTwo { a: g(r), b: g(r), c: g(r) });

#[derive(Form, Debug, PartialEq, Clone)]
pub struct AttrComplex {
    #[form(attr)]
    pub v: Vec<i32>,
    #[form(attr)]
    pub s: Labelled,
    #[form(attr)]
    pub t: Tuple2,
    pub c: i32,
}
specimen!(AttrComplex, |r| AttrComplex { v: g(r), s: g(r), t: g(r), c: g(r) });

#[derive(Form, Debug, PartialEq, Clone)]
pub struct AttrVecVec {
    #[form(attr)]
    pub vv: Vec<Vec<i32>>,
}
specimen!(AttrVecVec, |r| AttrVecVec { vv: g(r) });

#[derive(Form, Debug, PartialEq, Clone)]
pub struct AttrMap {
    #[form(attr)]
    pub m: HashMap<String, i32>,
}
specimen!(AttrMap, |r| AttrMap { m: g(r) });

#[derive(Form, Debug, PartialEq, Clone)]
pub struct AttrEnum {
    #[form(attr)]
    pub e: MixedEnum,
    #[form(attr)]
    pub u: UnitEnum,
}
specimen!(AttrEnum, |r| AttrEnum { e: g(r), u: g(r) });

#[derive(Form, Debug, PartialEq, Clone)]
pub struct HeaderBodyPrim {
    #[form(header_body)]
    pub hb: i32,
    pub x: String,
}
specimen!(HeaderBodyPrim, |r| HeaderBodyPrim { hb: g(r), x: g(r) });

#[derive(Form, Debug, PartialEq, Clone)]
pub struct HeaderBodyOnly {
    #[form(header_body)]
    pub n: i64,
}
specimen!(HeaderBodyOnly, |r| HeaderBodyOnly { n: g(r) });

#[derive(Form, Debug, PartialEq, Clone)]
pub struct HeaderBodyOpt {
    #[form(header_body)]
    pub hb: Option<String>,
    pub x: i32,
}
specimen!(HeaderBodyOpt, |r| HeaderBodyOpt { hb: g(r), x: g(r) });

#[derive(Form, Debug, PartialEq, Clone)]
pub struct HeaderBodyVec {
    #[form(header_body)]
    pub hb: Vec<i32>,
    pub x: i32,
}
specimen!(HeaderBodyVec, |r| HeaderBodyVec { hb: g(r), x: g(r) });

#[derive(Form, Debug, PartialEq, Clone)]
pub struct HeaderBodyVecVec {
    #[form(header_body)]
    pub hb: Vec<Vec<i32>>,
}
specimen!(HeaderBodyVecVec, |r| HeaderBodyVecVec { hb: g(r) });

#[derive(Form, Debug, PartialEq, Clone)]
pub struct HeaderBodyStruct {
    #[form(header_body)]
    pub hb: Labelled,
    pub x: i32,
}
specimen!(HeaderBodyStruct, |r| HeaderBodyStruct { hb: g(r), x: g(r) });

#[derive(Form, Debug, PartialEq, Clone)]
pub struct HeaderBodyMap {
    #[form(header_body)]
    pub hb: HashMap<String, i32>,
    pub x: i32,
}
specimen!(HeaderBodyMap, |r| HeaderBodyMap { hb: g(r), x: g(r) });

#[derive(Form, Debug, PartialEq, Clone)]
pub struct HeaderSlots {
    #[form(header)]
    pub node: String,
    #[form(header)]
    pub lane: Option<i32>,
    pub x: i32,
}
specimen!(HeaderSlots, |r| HeaderSlots { node: g(r), lane: g(r), x: g(r) });

#[derive(Form, Debug, PartialEq, Clone)]
pub struct HeaderSlotsComplex {
    #[form(header)]
    pub v: Vec<i32>,
    #[form(header, name = "inner")]
    pub s: Labelled,
    pub x: Option<i32>,
}
specimen!(HeaderSlotsComplex, |r| HeaderSlotsComplex { v: g(r), s: g(r), x: g(r) });

#[derive(Form, Debug, PartialEq, Clone)]
pub struct HeaderBoth {
    #[form(header_body)]
    pub hb: i32,
    #[form(header)]
    pub h1: String,
    #[form(header)]
    pub h2: bool,
    pub y: f64,
}
specimen!(HeaderBoth, |r| HeaderBoth { hb: g(r), h1: g(r), h2: g(r), y: g(r) });

#[derive(Form, Debug, PartialEq, Clone)]
pub struct HeaderBothVec {
    #[form(header_body)]
    pub hb: Vec<i32>,
    #[form(header)]
    pub h1: Option<String>,
}
specimen!(HeaderBothVec, |r| HeaderBothVec { hb: g(r), h1: g(r) });

#[derive(Form, Debug, PartialEq, Clone)]
pub struct BodyPrim {
    pub h: i32,
    #[form(body)]
    pub b: String,
}
specimen!(BodyPrim, |r| BodyPrim { h: g(r), b: g(r) });

#[derive(Form, Debug, PartialEq, Clone)]
pub struct BodyStruct {
    pub h: i32,
    #[form(body)]
    pub b: Labelled,
}
specimen!(BodyStruct, |r| BodyStruct { h: g(r), b: g(r) });

#[derive(Form, Debug, PartialEq, Clone)]
pub struct BodyVec {
    #[form(header)]
    pub h: String,
    #[form(body)]
    pub b: Vec<i32>,
}
specimen!(BodyVec, |r| BodyVec { h: g(r), b: g(r) });

#[derive(Form, Debug, PartialEq, Clone)]
pub struct BodyOnlyOpt {
    #[form(body)]
    pub b: Option<i32>,
}
specimen!(BodyOnlyOpt, |r| BodyOnlyOpt { b: g(r) });

#[derive(Form, Debug, PartialEq, Clone)]
pub struct BodyEnum {
    #[form(attr)]
    pub at: i32,
    #[form(body)]
    pub b: MixedEnum,
}
specimen!(BodyEnum, |r| BodyEnum { at: g(r), b: g(r) });

#[derive(Form, Debug, PartialEq, Clone)]
pub struct BodyValue {
    pub a: i32,
    #[form(body)]
    pub b: Value,
}
specimen!(BodyValue, |r| BodyValue { a: g(r), b: g(r) });

#[derive(Form, Debug, PartialEq, Clone)]
pub struct BodyBlob {
    #[form(body)]
    pub b: Blob,
}
specimen!(BodyBlob, |r| BodyBlob { b: g(r) });

#[derive(Form, Debug, PartialEq, Clone)]
pub struct BodyBigInt {
    #[form(body)]
    pub b: BigUint,
}
specimen!(BodyBigInt, |r| BodyBigInt { b: g(r) });

#[derive(Tag, Clone, Copy, Debug, PartialEq, Eq)]
pub enum Level {
    #[form(tag = "trace")]
    Trace,
    #[form(tag = "error")]
    Error,
    Plain,
}

#[derive(Form, Debug, PartialEq, Clone)]
pub struct TagField {
    #[form(tag)]
    pub level: Level,
    #[form(header)]
    pub time: i64,
    pub message: String,
}
specimen!(TagField, |r| TagField { level: *r.pick(&[Level::Trace, Level::Error, Level::Plain]), time: g(r), message: g(r) });

// `#[form(tag)]` on a field (the tag attribute's name is taken from the field's value) in every shape
// the derive macro treats separately. `TagField` above is the labelled shape with a header field and a
// slot; tuple structs, structs with a `#[form(body)]` field and structs without body items go through
// the *ordinal* field table of the generated recogniser, the labelled ones through the labelled one.
// (Enum variants cannot have a tag field: the derive rejects it. The field's type must implement `Tag`;
// `String` does not.)

fn level(r: &mut Rng) -> Level {
    *r.pick(&[Level::Trace, Level::Error, Level::Plain])
}

#[derive(Form, Debug, PartialEq, Clone)]
pub struct TagFieldOnly {
    #[form(tag)]
    pub level: Level,
}
specimen!(TagFieldOnly, |r| TagFieldOnly { level: level(r) });

#[derive(Form, Debug, PartialEq, Clone)]
pub struct TagFieldLabelled {
    #[form(tag)]
    pub level: Level,
    pub a: i32,
    pub b: String,
}
specimen!(TagFieldLabelled, |r| TagFieldLabelled { level: level(r), a: g(r), b: g(r) });

#[derive(Form, Debug, PartialEq, Clone)]
pub struct TagFieldLabelledHeaders {
    #[form(tag)]
    pub level: Level,
    #[form(header_body)]
    pub hb: i32,
    #[form(header)]
    pub h: String,
    #[form(attr)]
    pub at: bool,
    pub x: Option<i64>,
    #[form(name = "renamed")]
    pub y: Vec<i32>,
}
specimen!(TagFieldLabelledHeaders, |r| TagFieldLabelledHeaders { level: level(r), hb: g(r), h: g(r), at: g(r), x: g(r), y: g(r) });

#[derive(Form, Debug, PartialEq, Clone)]
pub struct TagFieldTuple(#[form(tag, name = "level")] pub Level, pub String, pub i32);
specimen!(TagFieldTuple, |r| TagFieldTuple(level(r), g(r), g(r)));

#[derive(Form, Debug, PartialEq, Clone)]
pub struct TagFieldTuple1(#[form(tag, name = "level")] pub Level, pub i32);
specimen!(TagFieldTuple1, |r| TagFieldTuple1(level(r), g(r)));

#[derive(Form, Debug, PartialEq, Clone)]
pub struct TagFieldTupleHeaders(
    #[form(tag, name = "level")] pub Level,
    #[form(header_body, name = "hb")] pub i32,
    #[form(header, name = "h")] pub String,
    #[form(attr, name = "at")] pub bool,
    pub String,
    pub Option<i32>,
);
specimen!(TagFieldTupleHeaders, |r| TagFieldTupleHeaders(level(r), g(r), g(r), g(r), g(r), g(r)));

#[derive(Form, Debug, PartialEq, Clone)]
pub struct TagFieldBody {
    #[form(tag)]
    pub level: Level,
    #[form(body)]
    pub b: Vec<i32>,
}
specimen!(TagFieldBody, |r| TagFieldBody { level: level(r), b: g(r) });

#[derive(Form, Debug, PartialEq, Clone)]
pub struct TagFieldBodyPrim {
    #[form(tag)]
    pub level: Level,
    #[form(body)]
    pub b: i64,
}
specimen!(TagFieldBodyPrim, |r| TagFieldBodyPrim { level: level(r), b: g(r) });

#[derive(Form, Debug, PartialEq, Clone)]
pub struct TagFieldBodyHeaders {
    #[form(tag)]
    pub level: Level,
    #[form(header)]
    pub h: i32,
    #[form(attr)]
    pub at: String,
    #[form(body)]
    pub b: Labelled,
}
specimen!(TagFieldBodyHeaders, |r| TagFieldBodyHeaders { level: level(r), h: g(r), at: g(r), b: g(r) });

/// Every field lifted into the header / an attribute: no body items.
#[derive(Form, Debug, PartialEq, Clone)]
pub struct TagFieldNoItems {
    #[form(tag)]
    pub level: Level,
    #[form(header)]
    pub a: i32,
    #[form(header)]
    pub b: String,
}
specimen!(TagFieldNoItems, |r| TagFieldNoItems { level: level(r), a: g(r), b: g(r) });

#[derive(Form, Debug, PartialEq, Clone)]
pub struct TagFieldNoItemsHeaderBody {
    #[form(tag)]
    pub level: Level,
    #[form(header_body)]
    pub hb: Vec<i32>,
}
specimen!(TagFieldNoItemsHeaderBody, |r| TagFieldNoItemsHeaderBody { level: level(r), hb: g(r) });

#[derive(Form, Debug, PartialEq, Clone)]
pub struct TagFieldNoItemsAttr {
    #[form(tag)]
    pub level: Level,
    #[form(attr)]
    pub at: i32,
    #[form(skip)]
    pub skipped: i32,
}
specimen!(TagFieldNoItemsAttr, |r| TagFieldNoItemsAttr { level: level(r), at: g(r), skipped: 0 });

#[derive(Form, Debug, PartialEq, Clone)]
pub struct TagFieldGeneric<T> {
    #[form(tag)]
    pub level: Level,
    pub inner: T,
}
impl<T: Specimen> Specimen for TagFieldGeneric<T> {
    fn gen(r: &mut Rng) -> Self {
        TagFieldGeneric { level: level(r), inner: g(r) }
    }
}

/// Tag-field structs as variant payloads and inside collections (recogniser reset between elements).
#[derive(Form, Debug, PartialEq, Clone)]
pub enum EnumOfTagFields {
    T(TagFieldTuple),
    B { inner: TagFieldBody },
    N(TagFieldNoItems, TagFieldLabelled),
}
specimen!(EnumOfTagFields, |r| match r.below(3) {
    0 => EnumOfTagFields::T(g(r)),
    1 => EnumOfTagFields::B { inner: g(r) },
    _ => EnumOfTagFields::N(g(r), g(r)),
});

#[derive(Form, Debug, PartialEq, Clone)]
pub struct Kitchen {
    #[form(header_body)]
    pub hb: i32,
    #[form(header)]
    pub h: String,
    #[form(attr)]
    pub at: bool,
    #[form(skip)]
    pub sk: i32,
    pub s1: i64,
    #[form(name = "s-two")]
    pub s2: Option<String>,
    #[form(slot)]
    pub s3: Vec<u32>,
}
specimen!(Kitchen, |r| Kitchen { hb: g(r), h: g(r), at: g(r), sk: 0, s1: g(r), s2: g(r), s3: g(r) });

// ------------------------------------------------------------------------------------------------
// Generics, nesting, collections

#[derive(Form, Debug, PartialEq, Clone)]
pub struct Generic1<T> {
    pub item: T,
}
impl<T: Specimen> Specimen for Generic1<T>
where
    Generic1<T>: Form,
{
    fn gen(r: &mut Rng) -> Self {
        Generic1 { item: g(r) }
    }
}

#[derive(Form, Debug, PartialEq, Clone)]
pub struct GenericHeader<S, T, U> {
    #[form(header)]
    pub s: S,
    #[form(header_body)]
    pub t: T,
    pub u: U,
}
impl<S: Specimen, T: Specimen, U: Specimen> Specimen for GenericHeader<S, T, U>
where
    GenericHeader<S, T, U>: Form,
{
    fn gen(r: &mut Rng) -> Self {
        GenericHeader { s: g(r), t: g(r), u: g(r) }
    }
}

#[derive(Form, Debug, PartialEq, Clone)]
pub struct GenericTuple<A, B>(pub A, pub B);
impl<A: Specimen, B: Specimen> Specimen for GenericTuple<A, B>
where
    GenericTuple<A, B>: Form,
{
    fn gen(r: &mut Rng) -> Self {
        GenericTuple(g(r), g(r))
    }
}

#[derive(Form, Debug, PartialEq, Clone)]
pub struct Nested {
    pub inner: Labelled,
    pub e: MixedEnum,
    pub o: Option<Labelled>,
    pub v: Vec<Labelled>,
    pub t: Tuple2,
    pub u: Unit,
    pub a: Arc<TaggedStruct>,
}
specimen!(Nested, |r| Nested { inner: g(r), e: g(r), o: g(r), v: g(r), t: g(r), u: Unit, a: g(r) });

#[derive(Form, Debug, PartialEq, Clone)]
pub struct TupleNested(pub Labelled, pub Tuple2, pub UnitEnum, pub Vec<MixedEnum>);
specimen!(TupleNested, |r| TupleNested(g(r), g(r), g(r), g(r)));

#[derive(Form, Debug, PartialEq, Clone)]
pub struct WithMaps {
    pub m: HashMap<String, i32>,
    pub n: HashMap<i32, Labelled>,
    pub o: HashMap<String, Vec<String>>,
}
specimen!(WithMaps, |r| WithMaps { m: g(r), n: g(r), o: g(r) });

#[derive(Form, Debug, PartialEq, Clone)]
pub struct VecFields {
    pub a: Vec<i32>,
    pub b: Vec<String>,
    pub c: Vec<Vec<i32>>,
    pub e: Vec<Unit>,
}
specimen!(VecFields, |r| VecFields { a: g(r), b: g(r), c: g(r), e: g(r) });

#[derive(Form, Debug, PartialEq, Clone)]
pub struct OptFields {
    pub a: Option<i32>,
    pub b: Option<String>,
    pub c: Option<Vec<i32>>,
    pub d: Option<Labelled>,
    pub e: Option<UnitEnum>,
}
specimen!(OptFields, |r| OptFields { a: g(r), b: g(r), c: g(r), d: g(r), e: g(r) });

#[derive(Form, Debug, PartialEq, Clone)]
pub struct ValueFields {
    pub v: Value,
    #[form(attr)]
    pub av: Value,
    #[form(header)]
    pub hv: Value,
}
specimen!(ValueFields, |r| ValueFields { v: mixed_value(r), av: g(r), hv: g(r) });

// ------------------------------------------------------------------------------------------------
// Enums

#[derive(Form, Debug, PartialEq, Clone, Copy)]
pub enum UnitEnum {
    A,
    B,
    #[form(tag = "see")]
    C,
}
specimen!(UnitEnum, |r| *r.pick(&[UnitEnum::A, UnitEnum::B, UnitEnum::C]));

#[derive(Form, Debug, PartialEq, Clone)]
pub enum MixedEnum {
    Unit,
    Newtype(i32),
    Tuple(i32, String),
    Labelled {
        a: i32,
        b: String,
    },
    #[form(tag = "renamed")]
    Renamed {
        #[form(name = "x")]
        a: bool,
    },
}
specimen!(MixedEnum, |r| match r.below(5) {
    0 => MixedEnum::Unit,
    1 => MixedEnum::Newtype(g(r)),
    2 => MixedEnum::Tuple(g(r), g(r)),
    3 => MixedEnum::Labelled { a: g(r), b: g(r) },
    _ => MixedEnum::Renamed { a: g(r) },
});

/// The shape of the map-lane protocol messages.
#[derive(Form, Debug, PartialEq, Clone)]
pub enum MapUpdateLike<K, V> {
    #[form(tag = "update")]
    Update(#[form(header, name = "key")] K, #[form(body)] Arc<V>),
    #[form(tag = "remove")]
    Remove(#[form(header, name = "key")] K),
    #[form(tag = "clear")]
    Clear,
    #[form(tag = "take")]
    Take(#[form(header_body)] u64),
}
impl<K: Specimen, V: Specimen> Specimen for MapUpdateLike<K, V>
where
    MapUpdateLike<K, V>: Form,
{
    fn gen(r: &mut Rng) -> Self {
        match r.below(4) {
            0 => MapUpdateLike::Update(g(r), g(r)),
            1 => MapUpdateLike::Remove(g(r)),
            2 => MapUpdateLike::Clear,
            _ => MapUpdateLike::Take(g(r)),
        }
    }
}

#[derive(Form, Debug, PartialEq, Clone)]
pub enum HeaderEnum {
    A {
        #[form(header_body)]
        hb: i32,
        x: i32,
    },
    B {
        #[form(attr)]
        at: String,
        #[form(header)]
        h: i32,
    },
    C(#[form(skip)] i32, i64),
    D {
        #[form(header)]
        h: Option<i32>,
        #[form(body)]
        b: Vec<String>,
    },
}
specimen!(HeaderEnum, |r| match r.below(4) {
    0 => HeaderEnum::A { hb: g(r), x: g(r) },
    1 => HeaderEnum::B { at: g(r), h: g(r) },
    2 => HeaderEnum::C(0, g(r)),
    _ => HeaderEnum::D { h: g(r), b: g(r) },
});

#[derive(Form, Debug, PartialEq, Clone)]
#[form(convention = "kebab", fields_convention = "camel")]
pub enum ConventionEnum {
    FirstVariant {
        some_field: i32,
    },
    SecondVariant,
    #[form(tag = "Third")]
    ThirdVariant(String),
}
specimen!(ConventionEnum, |r| match r.below(3) {
    0 => ConventionEnum::FirstVariant { some_field: g(r) },
    1 => ConventionEnum::SecondVariant,
    _ => ConventionEnum::ThirdVariant(g(r)),
});

#[derive(Form, Debug, PartialEq, Clone)]
pub enum GenericEnum<S, T> {
    Left(S),
    Right { t: T },
    Neither,
}
impl<S: Specimen, T: Specimen> Specimen for GenericEnum<S, T>
where
    GenericEnum<S, T>: Form,
{
    fn gen(r: &mut Rng) -> Self {
        match r.below(3) {
            0 => GenericEnum::Left(g(r)),
            1 => GenericEnum::Right { t: g(r) },
            _ => GenericEnum::Neither,
        }
    }
}

#[derive(Form, Debug, PartialEq, Clone)]
pub enum EnumOfTypes {
    E(MixedEnum),
    S(Labelled),
    V(Vec<i32>),
}
specimen!(EnumOfTypes, |r| match r.below(3) {
    0 => EnumOfTypes::E(g(r)),
    1 => EnumOfTypes::S(g(r)),
    _ => EnumOfTypes::V(g(r)),
});

/// Tuple variants with optional fields.
#[derive(Form, Debug, PartialEq, Clone)]
pub enum EnumTupleOpt {
    O(Option<i32>),
    P(i32, Option<String>),
}
specimen!(EnumTupleOpt, |r| match r.below(2) {
    0 => EnumTupleOpt::O(g(r)),
    _ => EnumTupleOpt::P(g(r), g(r)),
});

/// A single unnamed field that is itself a record.
#[derive(Form, Debug, PartialEq, Clone)]
pub struct Tuple1Record(pub Labelled);
specimen!(Tuple1Record, |r| Tuple1Record(g(r)));

#[derive(Form, Debug, PartialEq, Clone)]
pub struct Tuple1Vec(pub Vec<i32>);
specimen!(Tuple1Vec, |r| Tuple1Vec(g(r)));

#[derive(Form, Debug, PartialEq, Clone)]
pub enum SingleVariant {
    Only { a: i32, b: Option<i64> },
}
specimen!(SingleVariant, |r| SingleVariant::Only { a: g(r), b: g(r) });

// ------------------------------------------------------------------------------------------------
// `Value` as a field type: tame random model values and the model images of instances of battery
// types, so that the Form machinery around `Value` fields (attribute / header / body positions,
// MessagePack) is exercised on records of every realistic shape.

pub fn battery_value(r: &mut Rng) -> Value {
    fn v<T: Specimen>(r: &mut Rng) -> Value {
        T::gen(r).as_value()
    }
    const SOURCES: &[fn(&mut Rng) -> Value] = &[
        v::<Unit>, v::<Tuple2>, v::<Labelled>, v::<LabelledRenamed>, v::<TaggedStruct>, v::<Prims>, v::<AttrTwo>,
        v::<AttrComplex>, v::<HeaderBodyPrim>, v::<HeaderBodyVec>, v::<HeaderBodyStruct>, v::<HeaderSlots>,
        v::<HeaderBoth>, v::<BodyPrim>, v::<BodyStruct>, v::<BodyVec>, v::<TagField>, v::<Kitchen>, v::<Nested>,
        v::<WithMaps>, v::<VecFields>, v::<OptFields>, v::<MixedEnum>, v::<MapUpdateLike<String, Labelled>>, v::<HeaderEnum>,
        v::<Vec<Vec<i32>>>, v::<HashMap<i32, String>>, v::<(i32, String)>, v::<std::time::Duration>,
    ];
    (r.pick(SOURCES))(r)
}

impl Specimen for Value {
    fn gen(r: &mut Rng) -> Self {
        crate::gen::tame_value(r, 2)
    }
}

/// For the `Value` entry and for `Value` fields in slot position.
pub fn mixed_value(r: &mut Rng) -> Value {
    if r.bool() {
        crate::gen::tame_value(r, 2)
    } else {
        battery_value(r)
    }
}

/// Everything the model allows, for the dedicated `Value(wild)` entry.
pub fn wild_value(r: &mut Rng) -> Value {
    crate::gen::any_value(r, 3)
}

// ------------------------------------------------------------------------------------------------
// Compositions: a type with a replaced body as the only item of a record with attributes, and
// header_body-only types with a stateful last field (used as elements of collections, where one
// recognizer is reset and reused for every element).

#[derive(Form, Debug, PartialEq, Clone)]
pub struct WrapBodyVec(pub BodyVec);
specimen!(WrapBodyVec, |r| WrapBodyVec(g(r)));

#[derive(Form, Debug, PartialEq, Clone)]
pub struct WrapBodyStruct(pub BodyStruct);
specimen!(WrapBodyStruct, |r| WrapBodyStruct(g(r)));

#[derive(Form, Debug, PartialEq, Clone)]
pub enum ChoiceBody {
    One(BodyVec),
    Two(BodyStruct),
    Three(BodyPrim),
}
specimen!(ChoiceBody, |r| match r.below(3) {
    0 => ChoiceBody::One(g(r)),
    1 => ChoiceBody::Two(g(r)),
    _ => ChoiceBody::Three(g(r)),
});

#[derive(Form, Debug, PartialEq, Clone)]
pub struct HeaderBodyLastVec {
    #[form(header_body)]
    pub n: i32,
    pub items: Vec<i32>,
}
specimen!(HeaderBodyLastVec, |r| HeaderBodyLastVec { n: g(r), items: g(r) });

#[derive(Form, Debug, PartialEq, Clone)]
pub struct HeaderBodyLastOpt {
    #[form(header_body)]
    pub n: i32,
    pub text: String,
    pub flag: Option<String>,
}
specimen!(HeaderBodyLastOpt, |r| HeaderBodyLastOpt { n: g(r), text: g(r), flag: g(r) });

#[derive(Form, Debug, PartialEq, Clone)]
pub struct HeaderBodyLastStruct {
    #[form(header_body)]
    pub n: i32,
    pub inner: Labelled,
}
specimen!(HeaderBodyLastStruct, |r| HeaderBodyLastStruct { n: g(r), inner: g(r) });

/// A type with a replaced, record-like body in attribute position.
#[derive(Form, Debug, PartialEq, Clone)]
pub struct AttrOfBodyVec {
    #[form(attr)]
    pub a: BodyVec,
    pub x: i32,
}
specimen!(AttrOfBodyVec, |r| AttrOfBodyVec { a: g(r), x: g(r) });

#[derive(Form, Debug, PartialEq, Clone)]
pub struct AttrOfBodyStruct {
    #[form(attr)]
    pub a: BodyStruct,
    pub x: i32,
}
specimen!(AttrOfBodyStruct, |r| AttrOfBodyStruct { a: g(r), x: g(r) });
