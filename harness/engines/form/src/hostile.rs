//! Part `msgpack-hostile`: the MessagePack *reader* on input that the writer never produces.
//!
//! Everywhere else in this engine MessagePack is only read back from the writer's own, minimal
//! encoding. Here one generated instance `x: T` per case is written with the real writer; the bytes
//! are tokenised by a small MessagePack walker of the harness (used for *producing inputs* only,
//! self-checked: an identity re-encoding must reproduce the bytes, otherwise the case is
//! inconclusive) and then
//!
//!  (a) cut at every byte (the canonical encoding and three re-encodings with wider headers): a
//!      strict prefix of a MessagePack value is never a MessagePack value (the format is
//!      self-delimiting), so the real reader must return an error - no panic, no large reservation,
//!      never a value that differs from what the whole input gives;
//!  (b) re-encoded with headers the writer never chooses but that denote the same data by the
//!      MessagePack specification (f32 for floats that are exactly representable, str8/16/32,
//!      bin16/32, array16/32, map16/32, ext8/16/32, integers in every wider signed/unsigned form):
//!      the real reader must rule on them exactly as it rules on the canonical encoding (so that,
//!      with the `roundtrip` part, they read back as `x`);
//!  (c) followed by trailing bytes: the reader's documentation does not say what happens to them,
//!      so only "never a different value" is judged, the rest (left in the buffer / rejected) counted;
//!  (d) damaged: markers overwritten (reserved marker, array at value position, unknown extension
//!      types, empty big integers), lengths off by one or announcing up to 4 GiB, bits flipped, bytes
//!      inserted/deleted, scalars replaced by scalars of another kind, structure-level mutations of
//!      the model image and the bytes of *other* battery types: no panic, no large reservation, and
//!      the two reading paths (bytes -> T directly; bytes -> `Value` -> `T::try_from_value`) agree on
//!      accept/reject and value;
//!  (e) read by a hand-written recogniser that is satisfied after 1, 2, ... events (1 case in 4): the
//!      only way to the reader's `UnconsumedData` exits; an `Ok` that leaves part of the value unread
//!      is the one outcome judged (the error is documented as "Not all input was consumed").
//!
//! Part `msgpack-crafted` (exhaustive): hand-written inputs for the error exits at top level and
//! directly below a record header, and hand-built equivalent pairs (a scalar alone / as a delegated
//! body / at a value position, in its minimal and in every other form), read as every battery type.
//!
//! Reservations are observed with a counting global allocator (largest single request of the current
//! thread during one read call), so that "the reader reserves what a length prefix announces" is
//! seen as such instead of as a dead process.
//!
//! A disagreement of the two reading paths is checked against the Recon rendering of the same model
//! value: when `parse_recognize::<T>` rules on that text as the MessagePack reader ruled on the bytes,
//! the disagreement is between the recognisers and the `Value` bridge (what the `texts` part reports
//! for Recon) and the signature says `same-on-recon-text`; otherwise `msgpack-only`.

use std::alloc::{GlobalAlloc, Layout, System};
use std::cell::Cell;

use bytes::{BufMut, Bytes, BytesMut};
use common::{json, sanitize_sig, CaseOut, Json, Rng};
use swimos_form::read::{ReadError, ReadEvent, Recognizer, RecognizerReadable};
use swimos_form::write::StructuralWritable;
use swimos_model::Value;
use swimos_msgpack::{read_from_msg_pack, MsgPackInterpreter, MsgPackReadError};
use swimos_recon::parser::parse_recognize;
use swimos_recon::print_recon_compact;

use crate::gen::Specimen;
use crate::{guard, hex, msgpack_err_kind, read_err_kind, same, show, texts, P};

// ------------------------------------------------------------------------------------------------
// Counting allocator.

pub struct WatchAlloc;

thread_local! {
    /// Largest single request (>= `NOTED_FROM`) of this thread since the last reset. A `Cell<usize>`
    /// with a const initialiser has no lazy initialisation and no destructor, so touching it inside
    /// the allocator neither allocates nor registers anything.
    static BIGGEST: Cell<usize> = const { Cell::new(0) };
}

/// Requests below this are never looked at (one compare on the allocation path).
const NOTED_FROM: usize = 1 << 20;
/// A single request of this size while reading an input of at most a few hundred KiB is a
/// reservation taken from a length prefix.
pub const HUGE: usize = 16 << 20;

#[inline]
fn note(size: usize) {
    if size >= NOTED_FROM {
        let _ = BIGGEST.try_with(|c| {
            if size > c.get() {
                c.set(size)
            }
        });
    }
}

unsafe impl GlobalAlloc for WatchAlloc {
    unsafe fn alloc(&self, l: Layout) -> *mut u8 {
        note(l.size());
        System.alloc(l)
    }
    unsafe fn dealloc(&self, p: *mut u8, l: Layout) {
        System.dealloc(p, l)
    }
    unsafe fn alloc_zeroed(&self, l: Layout) -> *mut u8 {
        note(l.size());
        System.alloc_zeroed(l)
    }
    unsafe fn realloc(&self, p: *mut u8, l: Layout, new_size: usize) -> *mut u8 {
        note(new_size);
        System.realloc(p, l, new_size)
    }
}

/// Inputs that announce at least 256 MiB in a 32-bit length field are read by one thread at a time:
/// should a (modified) reader not only reserve but also fill what is announced, one such buffer
/// exists at a time instead of one per worker thread.
static ANNOUNCES_MUCH: std::sync::Mutex<()> = std::sync::Mutex::new(());

fn announces_much(b: &[u8]) -> bool {
    b.windows(2).any(|w| matches!(w[0], 0xc6 | 0xc9 | 0xdb | 0xdd | 0xdf) && w[1] >= 0x10)
}

fn watched<R>(f: impl FnOnce() -> R) -> (R, usize) {
    BIGGEST.with(|c| c.set(0));
    let r = f();
    (r, BIGGEST.with(|c| c.replace(0)))
}

// ------------------------------------------------------------------------------------------------
// A MessagePack walker for the layout the swim writer produces (input generation only).
//
//   value  := scalar | record
//   record := map(n) (str value){n} body
//   body   := map(m) (value value){m} | array(m) item{m} | scalar        (scalar: delegated body)
//   item   := array(2) value value | value                                (array(2): slot in a mixed body)

#[derive(Clone, Copy, PartialEq, Eq, Debug)]
pub enum Kind {
    Nil,
    Bool,
    Int,
    Float,
    Str,
    Bin,
    Array,
    Map,
    Ext,
}

impl Kind {
    fn name(self) -> &'static str {
        match self {
            Kind::Nil => "nil",
            Kind::Bool => "bool",
            Kind::Int => "int",
            Kind::Float => "float",
            Kind::Str => "str",
            Kind::Bin => "bin",
            Kind::Array => "array",
            Kind::Map => "map",
            Kind::Ext => "ext",
        }
    }
}

/// Where a token stands, i.e. which of the reader's three marker switches sees it.
#[derive(Clone, Copy, PartialEq, Eq, Debug)]
pub enum Role {
    /// The whole input is this one scalar (`read_from_msg_pack`'s own switch).
    TopScalar,
    /// A scalar at a value position inside a record (`push_value`).
    Scalar,
    /// A scalar standing where a record body is expected (`read_record_body`).
    BodyScalar,
    AttrsMap,
    AttrName,
    BodyArray,
    BodyMap,
    SlotPair,
}

impl Role {
    fn name(self) -> &'static str {
        match self {
            Role::TopScalar => "top-scalar",
            Role::Scalar => "scalar",
            Role::BodyScalar => "body-scalar",
            Role::AttrsMap => "attrs-map",
            Role::AttrName => "attr-name",
            Role::BodyArray => "body-array",
            Role::BodyMap => "body-map",
            Role::SlotPair => "slot-pair",
        }
    }
}

#[derive(Clone, Debug)]
pub struct Tok {
    pub at: usize,
    /// Header length: marker + length bytes (+ the type byte of an extension).
    pub hdr: usize,
    pub kind: Kind,
    pub role: Role,
    pub form: &'static str,
    /// Payload bytes (str/bin/ext) or element count (array/map).
    pub len: u32,
    pub int: i128,
    pub float: f64,
    pub ext_type: u8,
}

impl Tok {
    fn payload(&self) -> usize {
        match self.kind {
            Kind::Str | Kind::Bin | Kind::Ext => self.len as usize,
            _ => 0,
        }
    }
    fn end(&self) -> usize {
        self.at + self.hdr + self.payload()
    }
}

fn be(b: &[u8]) -> u64 {
    b.iter().fold(0u64, |a, x| (a << 8) | *x as u64)
}

/// Header at `p`; `None` when the bytes end inside it or the marker is the reserved one.
fn header(b: &[u8], p: usize) -> Option<Tok> {
    let m = *b.get(p)?;
    let need = |n: usize| b.get(p + 1..p + 1 + n);
    let mut t = Tok { at: p, hdr: 1, kind: Kind::Nil, role: Role::Scalar, form: "nil", len: 0, int: 0, float: 0.0, ext_type: 0 };
    let mut set = |kind: Kind, form: &'static str, extra: usize| {
        t.kind = kind;
        t.form = form;
        t.hdr = 1 + extra;
    };
    match m {
        0x00..=0x7f => {
            set(Kind::Int, "fixpos", 0);
            t.int = m as i128;
        }
        0x80..=0x8f => {
            set(Kind::Map, "fixmap", 0);
            t.len = (m & 0x0f) as u32;
        }
        0x90..=0x9f => {
            set(Kind::Array, "fixarray", 0);
            t.len = (m & 0x0f) as u32;
        }
        0xa0..=0xbf => {
            set(Kind::Str, "fixstr", 0);
            t.len = (m & 0x1f) as u32;
        }
        0xc0 => set(Kind::Nil, "nil", 0),
        0xc1 => return None,
        0xc2 | 0xc3 => {
            set(Kind::Bool, "bool", 0);
            t.int = (m & 1) as i128;
        }
        0xc4..=0xc6 => {
            let n = 1usize << (m - 0xc4);
            set(Kind::Bin, ["bin8", "bin16", "bin32"][(m - 0xc4) as usize], n);
            t.len = be(need(n)?) as u32;
        }
        0xc7..=0xc9 => {
            let n = 1usize << (m - 0xc7);
            set(Kind::Ext, ["ext8", "ext16", "ext32"][(m - 0xc7) as usize], n + 1);
            let l = need(n + 1)?;
            t.len = be(&l[..n]) as u32;
            t.ext_type = l[n];
        }
        0xca => {
            set(Kind::Float, "f32", 4);
            t.float = f32::from_bits(be(need(4)?) as u32) as f64;
        }
        0xcb => {
            set(Kind::Float, "f64", 8);
            t.float = f64::from_bits(be(need(8)?));
        }
        0xcc..=0xcf => {
            let n = 1usize << (m - 0xcc);
            set(Kind::Int, ["u8", "u16", "u32", "u64"][(m - 0xcc) as usize], n);
            t.int = be(need(n)?) as i128;
        }
        0xd0..=0xd3 => {
            let n = 1usize << (m - 0xd0);
            set(Kind::Int, ["i8", "i16", "i32", "i64"][(m - 0xd0) as usize], n);
            let raw = be(need(n)?);
            let shift = 64 - 8 * n as u32;
            t.int = (((raw << shift) as i64) >> shift) as i128;
        }
        0xd4..=0xd8 => {
            set(Kind::Ext, ["fixext1", "fixext2", "fixext4", "fixext8", "fixext16"][(m - 0xd4) as usize], 1);
            t.len = 1 << (m - 0xd4);
            t.ext_type = need(1)?[0];
        }
        0xd9..=0xdb => {
            let n = 1usize << (m - 0xd9);
            set(Kind::Str, ["str8", "str16", "str32"][(m - 0xd9) as usize], n);
            t.len = be(need(n)?) as u32;
        }
        0xdc | 0xdd => {
            let n = 2usize << (m - 0xdc);
            set(Kind::Array, ["array16", "array32"][(m - 0xdc) as usize], n);
            t.len = be(need(n)?) as u32;
        }
        0xde | 0xdf => {
            let n = 2usize << (m - 0xde);
            set(Kind::Map, ["map16", "map32"][(m - 0xde) as usize], n);
            t.len = be(need(n)?) as u32;
        }
        0xe0..=0xff => {
            set(Kind::Int, "fixneg", 0);
            t.int = (m as i8) as i128;
        }
    }
    if t.end() > b.len() {
        return None;
    }
    Some(t)
}

struct Walker<'a> {
    b: &'a [u8],
    p: usize,
    toks: Vec<Tok>,
}

impl Walker<'_> {
    fn take(&mut self, role: Role) -> Option<Tok> {
        let mut t = header(self.b, self.p)?;
        t.role = role;
        self.p = t.end();
        self.toks.push(t.clone());
        Some(t)
    }

    fn value(&mut self, scalar_role: Role) -> Option<()> {
        let peek = header(self.b, self.p)?;
        match peek.kind {
            Kind::Map => self.record(),
            Kind::Array => None,
            _ => self.take(scalar_role).map(|_| ()),
        }
    }

    fn record(&mut self) -> Option<()> {
        let attrs = self.take(Role::AttrsMap)?;
        for _ in 0..attrs.len {
            if self.take(Role::AttrName)?.kind != Kind::Str {
                return None;
            }
            self.value(Role::Scalar)?;
        }
        let peek = header(self.b, self.p)?;
        match peek.kind {
            Kind::Map => {
                let m = self.take(Role::BodyMap)?;
                for _ in 0..m.len {
                    self.value(Role::Scalar)?;
                    self.value(Role::Scalar)?;
                }
            }
            Kind::Array => {
                let a = self.take(Role::BodyArray)?;
                for _ in 0..a.len {
                    let item = header(self.b, self.p)?;
                    if item.kind == Kind::Array {
                        if item.len != 2 {
                            return None;
                        }
                        self.take(Role::SlotPair)?;
                        self.value(Role::Scalar)?;
                        self.value(Role::Scalar)?;
                    } else {
                        self.value(Role::Scalar)?;
                    }
                }
            }
            _ => {
                self.take(Role::BodyScalar)?;
            }
        }
        Some(())
    }
}

/// Tokens of one value in the writer's layout, tiling `b` exactly; `None` if `b` is not of that layout.
pub fn walk(b: &[u8]) -> Option<Vec<Tok>> {
    let mut w = Walker { b, p: 0, toks: Vec::new() };
    w.value(Role::TopScalar)?;
    (w.p == b.len()).then_some(w.toks)
}

/// All header forms of a kind, narrowest first.
fn forms(kind: Kind) -> &'static [&'static str] {
    match kind {
        Kind::Nil => &["nil"],
        Kind::Bool => &["bool"],
        Kind::Int => &["fixpos", "fixneg", "u8", "u16", "u32", "u64", "i8", "i16", "i32", "i64"],
        Kind::Float => &["f32", "f64"],
        Kind::Str => &["fixstr", "str8", "str16", "str32"],
        Kind::Bin => &["bin8", "bin16", "bin32"],
        Kind::Array => &["fixarray", "array16", "array32"],
        Kind::Map => &["fixmap", "map16", "map32"],
        Kind::Ext => &["fixext1", "fixext2", "fixext4", "fixext8", "fixext16", "ext8", "ext16", "ext32"],
    }
}

fn push_be(v: &mut Vec<u8>, x: u64, n: usize) {
    for i in (0..n).rev() {
        v.push((x >> (8 * i)) as u8);
    }
}

/// Header of `t` in `form` (with `len` as its length / count); `None` when the form cannot carry it.
fn emit(t: &Tok, form: &str, len: u32) -> Option<Vec<u8>> {
    let mut v = Vec::with_capacity(10);
    let n = t.int;
    let l = len as u64;
    let sized = |v: &mut Vec<u8>, marker: u8, bytes: usize, max: u64| {
        if l > max {
            return None;
        }
        v.push(marker);
        push_be(v, l, bytes);
        Some(())
    };
    match (t.kind, form) {
        (Kind::Nil, "nil") => v.push(0xc0),
        (Kind::Bool, "bool") => v.push(0xc2 + (n as u8 & 1)),
        (Kind::Int, "fixpos") if (0..=127).contains(&n) => v.push(n as u8),
        (Kind::Int, "fixneg") if (-32..=-1).contains(&n) => v.push(n as i8 as u8),
        (Kind::Int, "u8") if (0..=u8::MAX as i128).contains(&n) => {
            v.push(0xcc);
            push_be(&mut v, n as u64, 1)
        }
        (Kind::Int, "u16") if (0..=u16::MAX as i128).contains(&n) => {
            v.push(0xcd);
            push_be(&mut v, n as u64, 2)
        }
        (Kind::Int, "u32") if (0..=u32::MAX as i128).contains(&n) => {
            v.push(0xce);
            push_be(&mut v, n as u64, 4)
        }
        (Kind::Int, "u64") if (0..=u64::MAX as i128).contains(&n) => {
            v.push(0xcf);
            push_be(&mut v, n as u64, 8)
        }
        (Kind::Int, "i8") if (i8::MIN as i128..=i8::MAX as i128).contains(&n) => {
            v.push(0xd0);
            push_be(&mut v, n as i64 as u64, 1)
        }
        (Kind::Int, "i16") if (i16::MIN as i128..=i16::MAX as i128).contains(&n) => {
            v.push(0xd1);
            push_be(&mut v, n as i64 as u64, 2)
        }
        (Kind::Int, "i32") if (i32::MIN as i128..=i32::MAX as i128).contains(&n) => {
            v.push(0xd2);
            push_be(&mut v, n as i64 as u64, 4)
        }
        (Kind::Int, "i64") if (i64::MIN as i128..=i64::MAX as i128).contains(&n) => {
            v.push(0xd3);
            push_be(&mut v, n as i64 as u64, 8)
        }
        // f32 only when it carries exactly the same number (the sign of zero included).
        (Kind::Float, "f32") if ((t.float as f32) as f64).to_bits() == t.float.to_bits() => {
            v.push(0xca);
            push_be(&mut v, (t.float as f32).to_bits() as u64, 4)
        }
        (Kind::Float, "f64") => {
            v.push(0xcb);
            push_be(&mut v, t.float.to_bits(), 8)
        }
        (Kind::Str, "fixstr") if l <= 31 => v.push(0xa0 | l as u8),
        (Kind::Str, "str8") => sized(&mut v, 0xd9, 1, 0xff)?,
        (Kind::Str, "str16") => sized(&mut v, 0xda, 2, 0xffff)?,
        (Kind::Str, "str32") => sized(&mut v, 0xdb, 4, u32::MAX as u64)?,
        (Kind::Bin, "bin8") => sized(&mut v, 0xc4, 1, 0xff)?,
        (Kind::Bin, "bin16") => sized(&mut v, 0xc5, 2, 0xffff)?,
        (Kind::Bin, "bin32") => sized(&mut v, 0xc6, 4, u32::MAX as u64)?,
        (Kind::Array, "fixarray") if l <= 15 => v.push(0x90 | l as u8),
        (Kind::Array, "array16") => sized(&mut v, 0xdc, 2, 0xffff)?,
        (Kind::Array, "array32") => sized(&mut v, 0xdd, 4, u32::MAX as u64)?,
        (Kind::Map, "fixmap") if l <= 15 => v.push(0x80 | l as u8),
        (Kind::Map, "map16") => sized(&mut v, 0xde, 2, 0xffff)?,
        (Kind::Map, "map32") => sized(&mut v, 0xdf, 4, u32::MAX as u64)?,
        (Kind::Ext, f) => {
            match f {
                "fixext1" | "fixext2" | "fixext4" | "fixext8" | "fixext16" => {
                    let i = ["fixext1", "fixext2", "fixext4", "fixext8", "fixext16"].iter().position(|x| *x == f)?;
                    if l != 1 << i {
                        return None;
                    }
                    v.push(0xd4 + i as u8);
                }
                "ext8" => sized(&mut v, 0xc7, 1, 0xff)?,
                "ext16" => sized(&mut v, 0xc8, 2, 0xffff)?,
                "ext32" => sized(&mut v, 0xc9, 4, u32::MAX as u64)?,
                _ => return None,
            }
            v.push(t.ext_type);
        }
        _ => return None,
    }
    Some(v)
}

/// Re-encode: every token with the header `choose` returns (or its own bytes), payloads copied.
fn reencode(b: &[u8], toks: &[Tok], mut choose: impl FnMut(usize, &Tok) -> Option<Vec<u8>>) -> Vec<u8> {
    let mut v = Vec::with_capacity(b.len() + 8 * toks.len());
    for (i, t) in toks.iter().enumerate() {
        match choose(i, t) {
            Some(h) => v.extend_from_slice(&h),
            None => v.extend_from_slice(&b[t.at..t.at + t.hdr]),
        }
        v.extend_from_slice(&b[t.at + t.hdr..t.end()]);
    }
    v
}

/// The widest form of a token's kind that is at most `bits` wide and can carry it (integers keep
/// their signedness class: non-negative ones go to the unsigned forms).
///
/// The array(2) that marks a slot in a mixed body is left as the writer wrote it: the reader only
/// knows it as `fixarray(2)` (reported by the single-token re-encodings), and a combination that
/// contains it would be rejected at the first slot and show nothing else.
fn widened(t: &Tok, bits: u32) -> Option<Vec<u8>> {
    if t.role == Role::SlotPair {
        return None;
    }
    let form = match (t.kind, bits) {
        (Kind::Int, 8) => if t.int >= 0 { "u8" } else { "i8" },
        (Kind::Int, 16) => if t.int >= 0 { "u16" } else { "i16" },
        (Kind::Int, _) => if t.int >= 0 { "u64" } else { "i64" },
        (Kind::Str, 8) => "str8",
        (Kind::Str, 16) => "str16",
        (Kind::Str, _) => "str32",
        (Kind::Bin, 8) => "bin8",
        (Kind::Bin, 16) => "bin16",
        (Kind::Bin, _) => "bin32",
        (Kind::Array, 8) => return None,
        (Kind::Array, 16) => "array16",
        (Kind::Array, _) => "array32",
        (Kind::Map, 8) => return None,
        (Kind::Map, 16) => "map16",
        (Kind::Map, _) => "map32",
        (Kind::Ext, 8) => "ext8",
        (Kind::Ext, 16) => "ext16",
        (Kind::Ext, _) => "ext32",
        (Kind::Float, 8) => "f32",
        _ => return None,
    };
    emit(t, form, t.len)
}

// ------------------------------------------------------------------------------------------------
// The real reader, both ways.

pub fn write_mp<W: StructuralWritable>(x: &W) -> Option<Vec<u8>> {
    let mut buf = BytesMut::new();
    let r = guard(|| {
        let mut w = (&mut buf).writer();
        x.write_with(MsgPackInterpreter::new(&mut w))
    });
    match r {
        Ok(Ok(())) => Some(buf.to_vec()),
        _ => None,
    }
}

struct Mp<T> {
    direct: Result<T, MsgPackReadError>,
    /// Bytes left in the buffer after the direct read.
    rest: usize,
    model: Result<Value, MsgPackReadError>,
    via: Option<Result<T, ReadError>>,
}

fn err_variant(e: &MsgPackReadError) -> &'static str {
    match e {
        MsgPackReadError::Structure(_) => "Structure",
        MsgPackReadError::StringDecode(_) => "StringDecode",
        MsgPackReadError::InvalidMarker(_) => "InvalidMarker",
        MsgPackReadError::UnknownExtType(_) => "UnknownExtType",
        MsgPackReadError::EmptyBigInt => "EmptyBigInt",
        MsgPackReadError::Incomplete => "Incomplete",
        MsgPackReadError::UnconsumedData => "UnconsumedData",
    }
}

struct Ctx<'a> {
    name: &'a str,
    shape: &'a str,
}

/// One guarded, allocation-watched call of `read_from_msg_pack`. `None`: it panicked (reported).
fn read_one<U: swimos_form::read::StructuralReadable>(
    path: &str,
    bytes: &Bytes,
    class: &str,
    cx: &Ctx,
    out: &mut CaseOut,
) -> Option<(Result<U, MsgPackReadError>, usize)> {
    out.events += 1;
    let mut b = bytes.clone();
    let _one_at_a_time = announces_much(bytes).then(|| ANNOUNCES_MUCH.lock().unwrap_or_else(|e| e.into_inner()));
    let (r, biggest) = watched(|| guard(|| read_from_msg_pack::<U, _>(&mut b)));
    if biggest >= HUGE {
        out.count("huge-reservation");
        out.violation(
            P,
            format!("msgpack-hostile/huge-reservation/{}", class.split(':').next().unwrap_or("")),
            format!("read_from_msg_pack asked the allocator for {biggest} bytes in one request while reading an input of {} bytes", bytes.len()),
            json!({"type": cx.name, "path": path, "input_class": class, "bytes": hex(bytes), "requested": biggest, "input_len": bytes.len()}),
        );
    }
    match r {
        Ok(r) => Some((r, b.len())),
        Err(msg) => {
            out.count(&format!("panicked/{}", class.split(':').next().unwrap_or("")));
            out.violation(
                P,
                format!("msgpack-hostile/panic/read_from_msg_pack/{}", sanitize_sig(&msg)),
                format!("read_from_msg_pack panicked: {msg}"),
                json!({"type": cx.name, "path": path, "input_class": class, "bytes": hex(bytes), "input_len": bytes.len()}),
            );
            None
        }
    }
}

fn read_two<T: Specimen>(bytes: &[u8], class: &str, cx: &Ctx, out: &mut CaseOut) -> Option<Mp<T>> {
    let all = Bytes::copy_from_slice(bytes);
    let direct = read_one::<T>("typed", &all, class, cx, out);
    let model = read_one::<Value>("model", &all, class, cx, out);
    let (direct, rest) = direct?;
    let (model, _) = model?;
    let via = match &model {
        Ok(v) => {
            out.events += 1;
            match guard(|| T::try_from_value(v)) {
                Ok(r) => Some(r),
                Err(msg) => {
                    out.violation(
                        P,
                        format!("msgpack-hostile/panic/try_from_value/{}", sanitize_sig(&msg)),
                        format!("T::try_from_value panicked on a model value read from MessagePack: {msg}"),
                        json!({"type": cx.name, "input_class": class, "bytes": hex(bytes), "model": show(v)}),
                    );
                    return None;
                }
            }
        }
        Err(_) => None,
    };
    Some(Mp { direct, rest, model, via })
}

#[derive(Clone, Copy, PartialEq, Eq, Debug)]
enum Ruling {
    BothAccept,
    BothReject,
    Mismatch,
}

/// How the Recon recogniser rules on the Recon rendering of the model value read from the bytes,
/// compared with how the MessagePack reader ruled on the bytes (signature facet of a disagreement).
fn recon_facet<T: Specimen>(direct: &Result<T, MsgPackReadError>, model: &Value) -> &'static str {
    let Ok(text) = guard(|| print_recon_compact(model).to_string()) else { return "recon-print-panics" };
    match guard(|| parse_recognize::<Value>(text.as_str(), false)) {
        Ok(Ok(back)) if &back == model => {}
        _ => return "model-not-carried-by-recon-text",
    }
    match (direct, guard(|| parse_recognize::<T>(text.as_str(), false))) {
        (Ok(a), Ok(Ok(b))) if same(a, &b) => "same-on-recon-text",
        (Err(_), Ok(Err(_))) => "same-on-recon-text",
        _ => "msgpack-only",
    }
}

/// The two reading paths on one input. `key`: battery type for re-encodings of the type's own
/// instances, shape class of the type for damaged / foreign inputs.
fn agree<T: Specimen>(key: &str, bytes: &[u8], class: &str, cx: &Ctx, r: &Mp<T>, out: &mut CaseOut) -> Ruling {
    let Mp { direct, model, via, .. } = r;
    let detail = |facet: &str| {
        json!({
            "type": cx.name, "input_class": class, "bytes": hex(bytes), "recon_check": facet,
            "direct": match direct { Ok(x) => json!({"ok": show(x)}), Err(e) => json!({"err": format!("{e:?}")}) },
            "model": match model { Ok(v) => json!({"ok": show(v)}), Err(e) => json!({"err": format!("{e:?}")}) },
            "via_model": match via { Some(Ok(x)) => json!({"ok": show(x)}), Some(Err(e)) => json!({"err": format!("{e:?}")}), None => Json::Null },
        })
    };
    match (direct, via) {
        (Err(_), None) | (Err(_), Some(Err(_))) => Ruling::BothReject,
        (Ok(_), None) => {
            let kind = model.as_ref().err().map(msgpack_err_kind).unwrap_or_default();
            out.violation(
                P,
                format!("msgpack-hostile/direct-vs-value/accept-mismatch/{key}/direct-accepts/model-read-rejects:{kind}"),
                "read_from_msg_pack::<T> accepts bytes that read_from_msg_pack::<Value> rejects",
                detail("-"),
            );
            Ruling::Mismatch
        }
        (Ok(a), Some(Ok(b))) => {
            if same(a, b) {
                Ruling::BothAccept
            } else {
                let facet = model.as_ref().map(|m| recon_facet(direct, m)).unwrap_or("-");
                out.violation(
                    P,
                    format!("msgpack-hostile/direct-vs-value/value-mismatch/{key}/{facet}"),
                    "both MessagePack reading paths accept the bytes but produce different values",
                    detail(facet),
                );
                Ruling::Mismatch
            }
        }
        (Ok(_), Some(Err(e))) => {
            let facet = model.as_ref().map(|m| recon_facet(direct, m)).unwrap_or("-");
            out.violation(
                P,
                format!("msgpack-hostile/direct-vs-value/accept-mismatch/{key}/direct-accepts/via-model-rejects:{}/{facet}", read_err_kind(e)),
                "read_from_msg_pack::<T> accepts, T::try_from_value(read_from_msg_pack::<Value>) rejects",
                detail(facet),
            );
            Ruling::Mismatch
        }
        (Err(e), Some(Ok(_))) => {
            let facet = model.as_ref().map(|m| recon_facet(direct, m)).unwrap_or("-");
            out.violation(
                P,
                format!("msgpack-hostile/direct-vs-value/accept-mismatch/{key}/via-model-accepts/direct-rejects:{}/{facet}", msgpack_err_kind(e)),
                "read_from_msg_pack::<T> rejects, T::try_from_value(read_from_msg_pack::<Value>) accepts",
                detail(facet),
            );
            Ruling::Mismatch
        }
    }
}

fn count_ruling<T>(class: &str, r: &Result<T, MsgPackReadError>, out: &mut CaseOut) {
    let bucket = class.split(':').next().unwrap_or("");
    match r {
        Ok(_) => out.count(&format!("{bucket}/typed:ok")),
        Err(e) => out.count(&format!("{bucket}/typed:{}", err_variant(e))),
    }
}

// ------------------------------------------------------------------------------------------------
// (a) truncation

/// Every strict prefix of `bytes` (sampled above 600 bytes: 2 bytes around every token boundary and
/// 64 random cuts). `whole`: what the reader returns for all of `bytes`.
fn truncations<T: Specimen>(bytes: &[u8], toks: &[Tok], flavour: &str, whole: &Result<T, MsgPackReadError>, cx: &Ctx, rng: &mut Rng, out: &mut CaseOut) {
    let cuts: Vec<usize> = if bytes.len() <= 600 {
        (0..bytes.len()).collect()
    } else {
        let mut c: Vec<usize> = vec![0];
        for t in toks {
            for d in 0..=t.hdr + 1 {
                c.push(t.at + d);
            }
            c.push(t.end().saturating_sub(1));
        }
        for _ in 0..64 {
            c.push(rng.usize_below(bytes.len()));
        }
        c.retain(|k| *k < bytes.len());
        c.sort_unstable();
        c.dedup();
        c
    };
    for k in cuts {
        // which token the cut falls into (for the detail and the coverage counter)
        let tok = toks.iter().find(|t| t.at <= k && k < t.end());
        let place = match tok {
            Some(t) if k == t.at => "at-token-start".to_string(),
            Some(t) if k < t.at + t.hdr => format!("in-{}-header", t.kind.name()),
            Some(t) => format!("in-{}-payload", t.kind.name()),
            None => "?".to_string(),
        };
        let class = format!("truncated-{flavour}:{place}");
        let Some(r) = read_two::<T>(&bytes[..k], &class, cx, out) else { continue };
        out.count(&format!("cut/{place}"));
        count_ruling(&class, &r.direct, out);
        match (&r.direct, whole) {
            (Err(_), _) => {}
            (Ok(y), Ok(w)) if same(y, w) => out.count("truncated/accepted-with-the-value-of-the-whole-input"),
            (Ok(y), _) => out.violation(
                P,
                format!("msgpack-hostile/truncated/accepted-different-value/{}", cx.shape),
                "a strict prefix of a MessagePack value is read successfully, as a value that differs from what the whole input gives",
                json!({"type": cx.name, "input_class": class, "prefix": hex(&bytes[..k]), "whole": hex(bytes), "cut": k, "got": show(y),
                       "whole_reads_as": match whole { Ok(w) => show(w), Err(e) => Json::String(format!("{e:?}")) }}),
            ),
        }
        agree(cx.shape, &bytes[..k], &class, cx, &r, out);
    }
}

// ------------------------------------------------------------------------------------------------
// (b) equivalent encodings

fn pos_name(t: &Tok) -> &'static str {
    t.role.name()
}

/// `alt` must be ruled on exactly as the canonical encoding was. Returns false on a violation.
///
/// Signatures name where the re-encoded token stands and the form it was given, and whether the
/// alternative was rejected or read differently. Not the error: a reader that mis-reads a header
/// loses its place, and what it then trips over depends on the data.
fn equivalent<T: Specimen>(alt: &[u8], what: &str, change: &str, canonical: &[u8], whole: &Result<T, MsgPackReadError>, check_paths: bool, cx: &Ctx, out: &mut CaseOut) -> bool {
    let class = format!("alt-encoding:{what}");
    let Some(r) = read_two::<T>(alt, &class, cx, out) else { return false };
    count_ruling(&class, &r.direct, out);
    let detail = |r: &Mp<T>| {
        json!({"type": cx.name, "change": change, "canonical": hex(canonical), "alternative": hex(alt),
               "canonical_reads_as": match whole { Ok(w) => json!({"ok": show(w)}), Err(e) => json!({"err": format!("{e:?}")}) },
               "alternative_reads_as": match &r.direct { Ok(w) => json!({"ok": show(w)}), Err(e) => json!({"err": format!("{e:?}")}) }})
    };
    let ok = match (&r.direct, whole) {
        (Ok(a), Ok(w)) if same(a, w) => true,
        (Err(_), Err(_)) => true,
        (Ok(_), Ok(_)) => {
            out.violation(P, format!("msgpack-hostile/alt-encoding/differs/{what}"), "an equivalent MessagePack encoding (same data by the MessagePack specification) is read as a different value", detail(&r));
            false
        }
        (Err(e), Ok(_)) => {
            // The statement of C16 speaks of what the writer writes and of the two reading paths
            // agreeing; it does not promise that every encoding the MessagePack specification allows
            // for the same data is read. A rejected alternative is therefore an observation (the
            // reader takes a slot inside a mixed body only as fixarray(2), never as array16/array32);
            // that both reading paths reject it alike is still judged below.
            let _ = e;
            out.count(&format!("observed/alt-encoding-rejected/{what}"));
            true
        }
        (Ok(_), Err(_)) => {
            out.violation(P, format!("msgpack-hostile/alt-encoding/accepted-but-canonical-rejected/{what}"), "an equivalent MessagePack encoding is accepted although the writer's own encoding is rejected", detail(&r));
            false
        }
    };
    // The two reading paths on the alternative encoding; when the direct reading already differs
    // from the canonical one the finding above names the cause, and when the paths disagree on the
    // canonical bytes already (model round trip of x fails: `roundtrip` part) there is nothing new.
    if ok && check_paths {
        agree(cx.name, alt, &class, cx, &r, out);
    }
    ok
}

// ------------------------------------------------------------------------------------------------
// (d) damage

pub const DAMAGE: &[&str] = &[
    "marker-reserved",
    "marker-random",
    "marker-array-at-value",
    "ext-type",
    "ext-empty",
    "len-plus",
    "len-minus",
    "len-huge",
    "bit-flip",
    "byte-set",
    "byte-insert",
    "byte-delete",
    "scalar-swap",
    "token-drop",
    "token-dup",
];

fn scalar_of_other_kind(t: &Tok, rng: &mut Rng) -> Vec<u8> {
    loop {
        let (k, v): (Kind, Vec<u8>) = match rng.below(12) {
            0 => (Kind::Nil, vec![0xc0]),
            1 => (Kind::Bool, vec![0xc2 + rng.below(2) as u8]),
            2 => (Kind::Int, vec![rng.below(128) as u8]),
            3 => (Kind::Int, vec![0xff]),
            4 => (Kind::Int, vec![0xcf, 0xff, 0xff, 0xff, 0xff, 0xff, 0xff, 0xff, 0xff]),
            5 => (Kind::Int, vec![0xd3, 0x80, 0, 0, 0, 0, 0, 0, 0]),
            6 => (Kind::Float, vec![0xca, 0x3f, 0xc0, 0, 0]),
            7 => (Kind::Float, vec![0xcb, 0x7f, 0xf8, 0, 0, 0, 0, 0, 0]),
            8 => (Kind::Str, vec![0xa1, b'a']),
            9 => (Kind::Str, vec![0xd9, 0x02, 0xc3, 0xa9]),
            10 => (Kind::Bin, vec![0xc4, 0x02, 0x00, 0xff]),
            _ => (Kind::Ext, vec![0xd5, 0x00, 0x01, 0x07]),
        };
        if k != t.kind {
            return v;
        }
    }
}

/// One damaged copy of `b`; `None` when the class does not apply to these tokens.
fn damage(b: &[u8], toks: &[Tok], class: &str, rng: &mut Rng) -> Option<Vec<u8>> {
    let any = |rng: &mut Rng| rng.usize_below(toks.len());
    let of = |rng: &mut Rng, f: &dyn Fn(&Tok) -> bool| -> Option<usize> {
        let c: Vec<usize> = (0..toks.len()).filter(|i| f(&toks[*i])).collect();
        (!c.is_empty()).then(|| c[rng.usize_below(c.len())])
    };
    let is_scalar = |t: &Tok| matches!(t.role, Role::TopScalar | Role::Scalar | Role::BodyScalar);
    let has_len = |t: &Tok| matches!(t.kind, Kind::Str | Kind::Bin | Kind::Ext | Kind::Array | Kind::Map);
    let mut v = b.to_vec();
    match class {
        "marker-reserved" => v[toks[any(rng)].at] = 0xc1,
        "marker-random" => {
            let i = any(rng);
            v[toks[i].at] = rng.next_u64() as u8;
        }
        "marker-array-at-value" => {
            let i = of(rng, &is_scalar)?;
            let h: &[u8] = *rng.pick(&[&[0x90u8][..], &[0x91], &[0x92], &[0xdc, 0, 0], &[0xdd, 0, 0, 0, 1]]);
            return Some(reencode(b, toks, |j, _| (j == i).then(|| h.to_vec())));
        }
        "ext-type" => {
            // an existing extension gets an unknown type; without one a scalar becomes an extension
            let ty = *rng.pick(&[2u8, 3, 0x7f, 0x80, 0xff]);
            match of(rng, &|t| t.kind == Kind::Ext) {
                Some(i) => v[toks[i].at + toks[i].hdr - 1] = ty,
                None => {
                    let i = of(rng, &is_scalar)?;
                    let t = &toks[i];
                    v.splice(t.at..t.end(), [0xd5, ty, 0x01, 0x02]);
                }
            }
        }
        "ext-empty" => {
            // big integers of zero bytes, in the three sized forms
            let i = of(rng, &is_scalar)?;
            let t = &toks[i];
            let ty = rng.below(2) as u8;
            let h: Vec<u8> = match rng.below(3) {
                0 => vec![0xc7, 0, ty],
                1 => vec![0xc8, 0, 0, ty],
                _ => vec![0xc9, 0, 0, 0, 0, ty],
            };
            v.splice(t.at..t.end(), h);
        }
        "len-plus" | "len-minus" | "len-huge" => {
            let i = of(rng, &has_len)?;
            let t = &toks[i];
            let (form, len): (&str, u32) = match class {
                "len-plus" => (t.form, t.len.checked_add(1 + rng.below(3) as u32)?),
                "len-minus" if t.len == 0 => return None,
                "len-minus" => (t.form, t.len - 1 - rng.below(t.len.min(3) as u64) as u32),
                _ => {
                    let f16 = forms(t.kind).iter().find(|f| f.ends_with("16") && **f != "fixext16")?;
                    let f32_ = forms(t.kind).iter().find(|f| f.ends_with("32"))?;
                    *rng.pick(&[(*f16, 0xffffu32), (*f32_, u32::MAX), (*f32_, 0x7fff_ffff), (*f32_, 0x1000_0000), (*f32_, 0x0100_0000), (*f32_, 70_000)])
                }
            };
            // a length the token's own form cannot carry goes to the next wider one
            let h = emit(t, form, len).or_else(|| forms(t.kind).iter().filter(|f| !f.starts_with("fixext")).find_map(|f| emit(t, f, len)))?;
            return Some(reencode(b, toks, |j, _| (j == i).then(|| h.clone())));
        }
        "bit-flip" => {
            let k = rng.usize_below(v.len());
            v[k] ^= 1 << rng.below(8);
        }
        "byte-set" => {
            let k = rng.usize_below(v.len());
            v[k] = *rng.pick(&[0x00u8, 0x7f, 0x80, 0x90, 0xa0, 0xc0, 0xc1, 0xc4, 0xc6, 0xc7, 0xc9, 0xca, 0xd4, 0xd8, 0xdb, 0xdd, 0xdf, 0xff]);
        }
        "byte-insert" => {
            let k = rng.usize_below(v.len() + 1);
            v.insert(k, rng.next_u64() as u8);
        }
        "byte-delete" => {
            let k = rng.usize_below(v.len());
            v.remove(k);
        }
        "scalar-swap" => {
            let i = of(rng, &is_scalar)?;
            let t = &toks[i];
            let s = scalar_of_other_kind(t, rng);
            v.splice(t.at..t.end(), s);
        }
        "token-drop" => {
            let i = of(rng, &|t| is_scalar(t) || t.role == Role::AttrName)?;
            let t = &toks[i];
            v.drain(t.at..t.end());
        }
        "token-dup" => {
            let i = of(rng, &is_scalar)?;
            let t = &toks[i];
            let copy = b[t.at..t.end()].to_vec();
            v.splice(t.at..t.at, copy);
        }
        _ => return None,
    }
    (v != b).then_some(v)
}

/// Hand-written inputs fed to every type (the reader's error exits at top level and directly below
/// a record header).
const CRAFTED: &[&[u8]] = &[
    &[],
    &[0xc1],
    &[0x90],
    &[0x92, 0x01, 0x02],
    &[0xdc, 0x00, 0x00],
    &[0xc7, 0x00, 0x00],
    &[0xc7, 0x00, 0x01],
    &[0xc8, 0x00, 0x00, 0x00],
    &[0xc9, 0x00, 0x00, 0x00, 0x00, 0x00],
    &[0xd4, 0x05, 0x00],
    &[0xd4, 0x00, 0x01],
    &[0xd4, 0x00, 0x00],
    &[0xd4, 0x01, 0x00],
    &[0xd8, 0x7f, 0, 0, 0, 0, 0, 0, 0, 0, 0, 0, 0, 0, 0, 0, 0, 0],
    &[0xc6, 0xff, 0xff, 0xff, 0xff],
    &[0xc6, 0xff, 0xff, 0xff, 0xff, 0x00],
    &[0xc5, 0xff, 0xff, 0x00],
    &[0xc4, 0x02, 0x00],
    &[0xdb, 0xff, 0xff, 0xff, 0xff],
    &[0xdb, 0xff, 0xff, 0xff, 0xff, b'a'],
    &[0xda, 0xff, 0xff, b'a'],
    &[0xd9, 0x02, b'a'],
    &[0xd9, 0x02, 0xff, 0xfe],
    &[0xc9, 0xff, 0xff, 0xff, 0xff, 0x01],
    &[0xc9, 0xff, 0xff, 0xff, 0xff, 0x00, 0x01],
    &[0xc8, 0xff, 0xff, 0x01, 0x00],
    &[0xdf, 0xff, 0xff, 0xff, 0xff],
    &[0xde, 0xff, 0xff],
    &[0x80, 0xdd, 0xff, 0xff, 0xff, 0xff],
    &[0x80, 0xdd, 0xff, 0xff, 0xff, 0xff, 0x01],
    &[0x80, 0xdf, 0xff, 0xff, 0xff, 0xff, 0x01, 0x02],
    &[0x80, 0xdc, 0xff, 0xff, 0x01],
    &[0x80, 0xc6, 0xff, 0xff, 0xff, 0xff],
    &[0x80, 0xdb, 0xff, 0xff, 0xff, 0xff],
    &[0x80, 0xc9, 0xff, 0xff, 0xff, 0xff, 0x00, 0x01],
    &[0x80, 0xc1],
    &[0x80, 0x91, 0xc1],
    &[0x80, 0x91, 0x91, 0x01],
    &[0x80, 0x91, 0x92, 0x01],
    &[0x80, 0x91, 0xc6, 0xff, 0xff, 0xff, 0xff],
    &[0x80, 0x91, 0xc9, 0xff, 0xff, 0xff, 0xff, 0x01],
    &[0x80, 0x91, 0xd4, 0x09, 0x00],
    &[0x80, 0x91, 0xc7, 0x00, 0x00],
    &[0x81, 0x01, 0xc0, 0x90],
    &[0x81, 0xc4, 0x01, b'a', 0xc0, 0x90],
    &[0x81, 0xa1, 0xff, 0xc0, 0x90],
    &[0x81, 0xa1, b'a'],
    &[0x81, 0xa1, b'a', 0xc0],
    &[0xca, 0x3f, 0x80, 0x00, 0x00],
    &[0xca, 0x7f, 0xc0, 0x00, 0x00],
    &[0xca, 0x3f, 0x80],
    &[0x80, 0xca, 0x3f, 0x80, 0x00, 0x00],
    &[0x80, 0xca, 0x3f],
    &[0x80, 0x91, 0xca, 0x3f, 0x80, 0x00, 0x00],
    &[0x80, 0x91, 0xca],
    &[0x80, 0x01],
    &[0x80, 0xc0],
    &[0x80, 0xa1, b'a'],
    &[0x80, 0x80],
    &[0x80, 0x90],
    &[0x80, 0x90, 0x00],
    &[0x80, 0x91, 0x80, 0x90],
    &[0x80, 0x91, 0x80],
];

// ------------------------------------------------------------------------------------------------
// One case.

pub fn run<T: Specimen>(name: &'static str, shape: &'static str, x: T, foreign: Option<(Vec<u8>, &'static str)>, rng: &mut Rng, out: &mut CaseOut) {
    let cx = Ctx { name, shape };
    out.sig(&name);
    out.sig(&format!("{x:?}"));
    let Some(good) = write_mp(&x) else {
        // reported by the `roundtrip` part (msgpack-roundtrip/write-error, panic/msgpack-write)
        out.count("writer-failed(roundtrip-part-reports)");
        return;
    };
    let Some(toks) = walk(&good) else {
        out.inconclusive("the harness walker cannot tokenise the writer's output");
        return;
    };
    if reencode(&good, &toks, |_, t| emit(t, t.form, t.len)) != good {
        out.inconclusive("the harness walker's identity re-encoding differs from the writer's output");
        return;
    }
    out.nontrivial = true;
    out.count(&format!("shape/{shape}"));

    // What the reader makes of the writer's own encoding: the reference for everything below
    // (whether it equals x is the `roundtrip` part's business).
    let Some(whole) = read_two::<T>(&good, "canonical", &cx, out) else { return };
    count_ruling("canonical", &whole.direct, out);
    match &whole.direct {
        Ok(y) if *y == x => {}
        _ => out.count("canonical-does-not-read-back-as-x(roundtrip-part-reports)"),
    }
    if whole.rest != 0 {
        out.count("canonical/bytes-left-unread");
    }
    // The two paths on the canonical bytes: a disagreement here is the model round trip failing
    // (`try_from_value(as_value(x)) != x`, reported by the `roundtrip` part) unless the model read
    // from the bytes is not the model image of x.
    let canonical_paths_agree = match (&whole.direct, &whole.via) {
        (Ok(a), Some(Ok(b))) => same(a, b),
        (Err(_), None) | (Err(_), Some(Err(_))) => true,
        _ => false,
    };
    if !canonical_paths_agree {
        let image = guard(|| x.as_value()).ok();
        match (&whole.model, &image) {
            (Ok(m), Some(v)) if m == v => out.count("canonical/paths-disagree(model-roundtrip,roundtrip-part-reports)"),
            _ => {
                agree(name, &good, "canonical", &cx, &whole, out);
            }
        }
    }

    // (b) equivalent encodings: every token in every other form that can carry it (sampled above 160
    // variants), then everything at once at 8 / 16 / 32(64) bit.
    let mut singles: Vec<(usize, &'static str)> = Vec::new();
    for (i, t) in toks.iter().enumerate() {
        for f in forms(t.kind) {
            if *f != t.form && emit(t, f, t.len).is_some() {
                singles.push((i, f));
            }
        }
    }
    if singles.len() > 160 {
        rng.shuffle(&mut singles);
        singles.truncate(160);
    }
    let mut single_failed = false;
    for (i, f) in &singles {
        let t = &toks[*i];
        let alt = reencode(&good, &toks, |j, t| (j == *i).then(|| emit(t, f, t.len)).flatten());
        // Named by where the token stands and the form it is given (the form it had depends on the data).
        let what = format!("{}:{}", pos_name(t), f);
        let change = format!("{} {} -> {}", pos_name(t), t.form, f);
        out.count(&format!("alt/{}:{}", pos_name(t), f));
        single_failed |= !equivalent::<T>(&alt, &what, &change, &good, &whole.direct, canonical_paths_agree, &cx, out);
    }
    let mut widened_all: Vec<(&'static str, Vec<u8>)> = Vec::new();
    for (label, bits) in [("all-8bit", 8u32), ("all-16bit", 16), ("all-widest", 64)] {
        let alt = reencode(&good, &toks, |_, t| widened(t, bits));
        if alt != good {
            widened_all.push((label, alt));
        }
    }
    for (label, alt) in &widened_all {
        out.count(&format!("alt/combined:{label}"));
        // A combination is only informative when every single change of it was accepted.
        if !single_failed {
            equivalent::<T>(alt, &format!("combined:{label}"), label, &good, &whole.direct, canonical_paths_agree, &cx, out);
        }
    }

    // (a) truncation of the canonical bytes and of the widened re-encodings (whose length fields are
    // 1, 2 and 4 bytes long, so that a cut can fall inside them).
    truncations::<T>(&good, &toks, "canonical", &whole.direct, &cx, rng, out);
    for (label, alt) in &widened_all {
        if let Some(alt_toks) = walk(alt) {
            let alt_whole = match read_one::<T>("typed", &Bytes::copy_from_slice(alt), "alt-encoding:whole", &cx, out) {
                Some((r, _)) => r,
                None => continue,
            };
            truncations::<T>(alt, &alt_toks, label, &alt_whole, &cx, rng, out);
        } else {
            out.count("harness:widened-encoding-not-walkable");
        }
    }

    // (c) trailing bytes
    for _ in 0..2 {
        let mut padded = good.clone();
        let extra: Vec<u8> = match rng.below(4) {
            0 => vec![0xc0],
            1 => good.clone(),
            2 => vec![0xc1],
            _ => (0..1 + rng.below(8)).map(|_| rng.next_u64() as u8).collect(),
        };
        padded.extend_from_slice(&extra);
        let Some(r) = read_two::<T>(&padded, "trailing", &cx, out) else { continue };
        count_ruling("trailing", &r.direct, out);
        match (&r.direct, &whole.direct) {
            (Ok(y), Ok(w)) if same(y, w) => {
                if r.rest == extra.len() {
                    out.count("trailing/value-read,trailing-bytes-left-in-buffer");
                } else {
                    out.count("trailing/value-read,buffer-position-not-at-end-of-value");
                }
            }
            (Ok(y), _) => out.violation(
                P,
                format!("msgpack-hostile/trailing/accepted-different-value/{shape}"),
                "bytes appended after a complete MessagePack value change the value that is read",
                json!({"type": name, "bytes": hex(&padded), "value_len": good.len(), "got": show(y),
                       "without_trailing": match &whole.direct { Ok(w) => show(w), Err(e) => Json::String(format!("{e:?}")) }}),
            ),
            (Err(e), Ok(_)) => out.count(&format!("trailing/rejected:{}", err_variant(e))),
            (Err(_), Err(_)) => {}
        }
        if canonical_paths_agree {
            agree(name, &padded, "trailing", &cx, &r, out);
        }
    }

    // the `UnconsumedData` exits (not about T at all: the writer's bytes are just a value to read)
    if rng.chance(1, 4) {
        early_completion(&good, out);
    }

    // (d) damage
    let mut inputs: Vec<(Vec<u8>, String)> = Vec::new();
    for _ in 0..10 {
        let class = *rng.pick(DAMAGE);
        // damage the canonical bytes or (1 in 3) a widened re-encoding
        let (base, base_toks): (&[u8], Vec<Tok>) = if !widened_all.is_empty() && rng.chance(1, 3) {
            let (_, alt) = &widened_all[rng.usize_below(widened_all.len())];
            match walk(alt) {
                Some(t) => (alt, t),
                None => (&good, toks.clone()),
            }
        } else {
            (&good, toks.clone())
        };
        if let Some(d) = damage(base, &base_toks, class, rng) {
            inputs.push((d, format!("damaged:{class}")));
        }
    }
    // structure-level mutations of the model image (well-formed MessagePack that violates T's schema)
    if let Ok(v0) = guard(|| x.as_value()) {
        for _ in 0..2 {
            let mut v = v0.clone();
            let class = *rng.pick(texts::VALUE_MUTATIONS);
            if texts::mutate_value(&mut v, class, rng) {
                if let Some(b) = write_mp(&v) {
                    inputs.push((b, format!("model-mutated:{class}")));
                }
            }
        }
    }
    if let Some((b, from)) = foreign {
        inputs.push((b, format!("foreign:{from}")));
    }
    if rng.chance(1, 4) {
        inputs.push((rng.pick(CRAFTED).to_vec(), "crafted".to_string()));
    }
    for (bytes, class) in &inputs {
        out.sig(bytes);
        let Some(r) = read_two::<T>(bytes, class, &cx, out) else { continue };
        count_ruling(class, &r.direct, out);
        if let Some(sub) = class.strip_prefix("damaged:") {
            match &r.direct {
                Ok(_) => out.count(&format!("damage/{sub}:accepted")),
                Err(e) => out.count(&format!("damage/{sub}:{}", err_variant(e))),
            }
        }
        match agree(shape, bytes, class, &cx, &r, out) {
            Ruling::BothAccept => out.count("paths/both-accept"),
            Ruling::BothReject => out.count("paths/both-reject"),
            Ruling::Mismatch => out.count("paths/mismatch"),
        }
    }
    if rng.chance(1, 50) {
        out.set_sample(json!({"type": name, "x": show(&x), "canonical": hex(&good), "tokens": toks.len(),
                              "inputs": inputs.iter().take(4).map(|(b, c)| json!({"class": c, "bytes": hex(b)})).collect::<Vec<_>>()}));
    }
}

// ------------------------------------------------------------------------------------------------
// A hand-written readable type whose recogniser completes after a given number of events: the only
// way to the reader's `UnconsumedData` exits (every recogniser of the battery completes on the
// `EndRecord` of its own record and not before).

thread_local! {
    static COMPLETE_AT: Cell<u32> = const { Cell::new(u32::MAX) };
    static EVENTS_SEEN: Cell<u32> = const { Cell::new(0) };
}

#[derive(Debug, PartialEq)]
pub struct Early;

pub struct EarlyRec {
    seen: u32,
}

impl Recognizer for EarlyRec {
    type Target = Early;

    fn feed_event(&mut self, _input: ReadEvent<'_>) -> Option<Result<Early, ReadError>> {
        self.seen += 1;
        EVENTS_SEEN.with(|c| c.set(self.seen));
        (self.seen == COMPLETE_AT.with(|c| c.get())).then_some(Ok(Early))
    }

    fn reset(&mut self) {
        self.seen = 0;
    }
}

impl RecognizerReadable for Early {
    type Rec = EarlyRec;
    type AttrRec = EarlyRec;
    type BodyRec = EarlyRec;

    fn make_recognizer() -> Self::Rec {
        EarlyRec { seen: 0 }
    }
    fn make_attr_recognizer() -> Self::AttrRec {
        EarlyRec { seen: 0 }
    }
    fn make_body_recognizer() -> Self::BodyRec {
        EarlyRec { seen: 0 }
    }
}

/// The writer's bytes of some value read by a recogniser that is satisfied after 1, 2, ... events.
/// `MsgPackReadError::UnconsumedData` is documented as "Not all input was consumed": an `Ok` that
/// leaves part of the value unread is the one outcome judged; everything else is counted.
fn early_completion(bytes: &[u8], out: &mut CaseOut) {
    let cx = Ctx { name: "Early(hand-written recogniser)", shape: "hand-written" };
    let all = Bytes::copy_from_slice(bytes);
    COMPLETE_AT.with(|c| c.set(u32::MAX));
    EVENTS_SEEN.with(|c| c.set(0));
    let Some((never, _)) = read_one::<Early>("typed", &all, "early-completion", &cx, out) else { return };
    let total = EVENTS_SEEN.with(|c| c.get());
    match never {
        Ok(_) => out.count("early/never-completing-recogniser:ok(?)"),
        Err(e) => out.count(&format!("early/never-completing-recogniser:{}", err_variant(&e))),
    }
    for at in 1..=total.min(40) + 1 {
        COMPLETE_AT.with(|c| c.set(at));
        EVENTS_SEEN.with(|c| c.set(0));
        let r = read_one::<Early>("typed", &all, "early-completion", &cx, out);
        let seen = EVENTS_SEEN.with(|c| c.get());
        COMPLETE_AT.with(|c| c.set(u32::MAX));
        let Some((r, rest)) = r else { continue };
        let when = match at.cmp(&total) {
            std::cmp::Ordering::Less => "before-last-event",
            std::cmp::Ordering::Equal => "at-last-event",
            std::cmp::Ordering::Greater => "never",
        };
        if seen > at {
            out.count(&format!("early/fed-after-completion/{when}"));
        }
        match r {
            Ok(_) if rest == 0 => out.count(&format!("early/{when}:ok,all-input-consumed")),
            Ok(_) => {
                out.count(&format!("early/{when}:ok,input-left-unread"));
                out.violation(
                    P,
                    "msgpack-hostile/early-completion/ok-with-unread-input",
                    "read_from_msg_pack returns Ok although part of the MessagePack value was not consumed (documented outcome: MsgPackReadError::UnconsumedData)",
                    json!({"bytes": hex(bytes), "recogniser_completes_at_event": at, "events_in_value": total, "bytes_unread": rest}),
                );
            }
            Err(e) => out.count(&format!("early/{when}:{}", err_variant(&e))),
        }
    }
}

/// Hand-built equivalent pairs: a scalar at each position the reader treats separately (alone; as a
/// delegated record body; as a record item, an attribute value, a slot value), in its minimal form
/// and in every other form that carries it.
struct Pair {
    what: String,
    change: String,
    alt: Vec<u8>,
    canonical: Vec<u8>,
}

fn pairs() -> &'static [Pair] {
    static PAIRS: std::sync::OnceLock<Vec<Pair>> = std::sync::OnceLock::new();
    PAIRS.get_or_init(|| {
        let frames: &[(&[u8], &[u8])] = &[
            (&[], &[]),
            (&[0x80], &[]),
            (&[0x80, 0x91], &[]),
            (&[0x81, 0xa1, b'a'], &[0x90]),
            (&[0x80, 0x81, 0x01], &[]),
        ];
        let scalars: &[&[u8]] = &[
            &[0xcb, 0x3f, 0xf8, 0, 0, 0, 0, 0, 0],          // 1.5
            &[0xcb, 0x80, 0, 0, 0, 0, 0, 0, 0],             // -0.0
            &[0xcb, 0x47, 0xef, 0xff, 0xff, 0xe0, 0, 0, 0], // f32::MAX
            &[0x05],
            &[0xfb],                                        // -5
            &[0xcc, 0xc8],                                  // 200
            &[0xd0, 0x9c],                                  // -100
            &[0xcd, 0x75, 0x30],                            // 30000
            &[0xce, 0x00, 0x01, 0x11, 0x70],                // 70000
            &[0xd2, 0xff, 0xfe, 0xee, 0x90],                // -70000
            &[0xa0],
            &[0xa2, 0xc3, 0xa9],                            // "é"
            &[0xc4, 0x00],
            &[0xc4, 0x02, 0x00, 0xff],
            &[0xd5, 0x00, 0x01, 0x07],                      // big integer 7
            &[0xd5, 0x00, 0x00, 0x07],                      // big integer -7
            &[0xd4, 0x01, 0x07],                            // big unsigned integer 7
            &[0xc7, 0x03, 0x01, 0x01, 0x00, 0x00],          // big unsigned integer 65536
        ];
        let mut v = Vec::new();
        for (pre, post) in frames {
            for sc in scalars {
                let canonical: Vec<u8> = [*pre, *sc, *post].concat();
                let Some(toks) = walk(&canonical) else { continue };
                let Some(i) = toks.iter().position(|t| t.at == pre.len()) else { continue };
                let t = &toks[i];
                for f in forms(t.kind) {
                    if *f == t.form {
                        continue;
                    }
                    let Some(h) = emit(t, f, t.len) else { continue };
                    v.push(Pair {
                        what: format!("{}:{}", t.role.name(), f),
                        change: format!("{} {} -> {}", t.role.name(), t.form, f),
                        alt: reencode(&canonical, &toks, |j, _| (j == i).then(|| h.clone())),
                        canonical: canonical.clone(),
                    });
                }
            }
        }
        v
    })
}

/// Exhaustive small part: every hand-written input and every hand-built equivalent pair for every
/// type (cheap, deterministic).
pub fn crafted<T: Specimen>(name: &'static str, shape: &'static str, idx: usize, out: &mut CaseOut) {
    let cx = Ctx { name, shape };
    out.sig(&(name, idx));
    out.nontrivial = true;
    if let Some(bytes) = CRAFTED.get(idx) {
        let Some(r) = read_two::<T>(bytes, "crafted", &cx, out) else { return };
        count_ruling("crafted", &r.direct, out);
        match &r.model {
            Ok(_) => out.count("crafted/model:ok"),
            Err(e) => out.count(&format!("crafted/model:{}", err_variant(e))),
        }
        agree(shape, bytes, "crafted", &cx, &r, out);
    } else if let Some(p) = pairs().get(idx - CRAFTED.len()) {
        let Some((whole, _)) = read_one::<T>("typed", &Bytes::copy_from_slice(&p.canonical), "crafted-pair:minimal", &cx, out) else { return };
        count_ruling("crafted-pair-minimal", &whole, out);
        out.count(&format!("pair/{}", p.what));
        equivalent::<T>(&p.alt, &p.what, &p.change, &p.canonical, &whole, true, &cx, out);
    }
}

pub fn crafted_len() -> usize {
    CRAFTED.len() + pairs().len()
}
