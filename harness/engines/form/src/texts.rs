//! Input generation for the "any input" half of C16: structure-level mutations of model values and
//! token-level mutations of Recon text. These only *produce inputs*; verdicts are always taken from
//! the real reading functions.

use common::Rng;
use swimos_model::{Attr, BigInt, Blob, Item, Text, Value};

use crate::gen::{any_string, any_value, attr_name};

// ------------------------------------------------------------------------------------------------
// Navigation: every sub-value of a value gets a path; mutations pick a path at random.

#[derive(Clone, Debug)]
enum Step {
    AttrBody(usize),
    ItemValue(usize),
    SlotKey(usize),
    SlotValue(usize),
}

fn collect_paths(v: &Value, prefix: &mut Vec<Step>, out: &mut Vec<Vec<Step>>) {
    out.push(prefix.clone());
    if let Value::Record(attrs, items) = v {
        for (i, a) in attrs.iter().enumerate() {
            prefix.push(Step::AttrBody(i));
            collect_paths(&a.value, prefix, out);
            prefix.pop();
        }
        for (i, it) in items.iter().enumerate() {
            match it {
                Item::ValueItem(x) => {
                    prefix.push(Step::ItemValue(i));
                    collect_paths(x, prefix, out);
                    prefix.pop();
                }
                Item::Slot(k, x) => {
                    prefix.push(Step::SlotKey(i));
                    collect_paths(k, prefix, out);
                    prefix.pop();
                    prefix.push(Step::SlotValue(i));
                    collect_paths(x, prefix, out);
                    prefix.pop();
                }
            }
        }
    }
}

fn at_mut<'a>(v: &'a mut Value, path: &[Step]) -> Option<&'a mut Value> {
    let mut cur = v;
    for s in path {
        let Value::Record(attrs, items) = cur else { return None };
        cur = match s {
            Step::AttrBody(i) => &mut attrs.get_mut(*i)?.value,
            Step::ItemValue(i) => match items.get_mut(*i)? {
                Item::ValueItem(x) => x,
                _ => return None,
            },
            Step::SlotKey(i) => match items.get_mut(*i)? {
                Item::Slot(k, _) => k,
                _ => return None,
            },
            Step::SlotValue(i) => match items.get_mut(*i)? {
                Item::Slot(_, x) => x,
                _ => return None,
            },
        };
    }
    Some(cur)
}

fn pick_where<'a>(v: &'a mut Value, rng: &mut Rng, pred: impl Fn(&Value) -> bool) -> Option<&'a mut Value> {
    let mut paths = Vec::new();
    collect_paths(v, &mut Vec::new(), &mut paths);
    let mut ok: Vec<Vec<Step>> = Vec::new();
    for p in paths {
        if at_mut(v, &p).map_or(false, |x| pred(x)) {
            ok.push(p);
        }
    }
    if ok.is_empty() {
        return None;
    }
    let p = ok.swap_remove(rng.usize_below(ok.len()));
    at_mut(v, &p)
}

fn is_record(v: &Value) -> bool {
    matches!(v, Value::Record(_, _))
}

fn is_prim(v: &Value) -> bool {
    !is_record(v)
}

/// Another primitive, of a different kind or at a kind boundary.
fn other_prim(v: &Value, rng: &mut Rng) -> Value {
    let pool_int: &[i64] = &[0, 1, -1, 127, 128, 2147483647, 2147483648, -2147483649, 4294967295, 4294967296, i64::MAX, i64::MIN];
    loop {
        let n = match rng.below(12) {
            0 => Value::Extant,
            1 => Value::BooleanValue(rng.bool()),
            2 => Value::Int32Value(*rng.pick(pool_int) as i32),
            3 => Value::Int64Value(*rng.pick(pool_int)),
            4 => Value::UInt32Value(*rng.pick(pool_int) as u32),
            5 => Value::UInt64Value(*rng.pick(&[0u64, 1, u64::MAX, 1 << 63, 4294967296])),
            6 => Value::Float64Value(*rng.pick(&[0.0, 1.0, -1.0, 1.5, 1e300, 2147483648.0, -0.0, 1e21])),
            7 => Value::BigInt(BigInt::from(*rng.pick(pool_int)) * BigInt::from(*rng.pick(&[1i64, 1, i64::MAX]))),
            8 => Value::BigUint((*rng.pick(&[0u64, 1, u64::MAX])).into()),
            9 => Value::text(any_string(rng)),
            10 => Value::text(*rng.pick(&["true", "false", "1", "a", "", "infinite"])),
            _ => Value::Data(Blob::from_vec(vec![1, 2, 3])),
        };
        if &n != v {
            return n;
        }
    }
}

/// The structure-level mutation classes. The class name is part of violation signatures.
pub const VALUE_MUTATIONS: &[&str] = &[
    "reorder-items",
    "drop-item",
    "dup-item",
    "extra-item",
    "extra-attr",
    "dup-attr",
    "drop-attr",
    "reorder-attrs",
    "wrong-tag",
    "wrong-kind",
    "to-extant",
    "slot-to-value",
    "value-to-slot",
    "rename-slot-key",
    "attr-body-wrap",
    "attr-body-unwrap",
    "attr-body-to-body",
    "body-wrap",
    "record-to-prim",
    "prim-to-record",
    "add-attr-to-nested",
    "tag-body-extants",
];

/// Apply one mutation of class `class` somewhere in `v`. Returns false when the class is not
/// applicable to this value (the caller then tries another class).
pub fn mutate_value(v: &mut Value, class: &str, rng: &mut Rng) -> bool {
    match class {
        "reorder-items" => {
            let Some(Value::Record(_, items)) = pick_where(v, rng, |x| matches!(x, Value::Record(_, it) if it.len() >= 2)) else {
                return false;
            };
            let before = items.clone();
            for _ in 0..4 {
                rng.shuffle(items);
                if *items != before {
                    return true;
                }
            }
            items.reverse();
            *items != before
        }
        "drop-item" => {
            let Some(Value::Record(_, items)) = pick_where(v, rng, |x| matches!(x, Value::Record(_, it) if !it.is_empty())) else {
                return false;
            };
            let i = rng.usize_below(items.len());
            items.remove(i);
            true
        }
        "dup-item" => {
            let Some(Value::Record(_, items)) = pick_where(v, rng, |x| matches!(x, Value::Record(_, it) if !it.is_empty())) else {
                return false;
            };
            let i = rng.usize_below(items.len());
            let it = items[i].clone();
            let at = if rng.bool() { i + 1 } else { items.len() };
            items.insert(at, it);
            true
        }
        "extra-item" => {
            let Some(Value::Record(_, items)) = pick_where(v, rng, is_record) else { return false };
            let at = rng.usize_below(items.len() + 1);
            let it = if rng.bool() {
                Item::ValueItem(any_value(rng, 1))
            } else {
                Item::Slot(Value::text(*rng.pick(&["extra", "a", "b", "x", "key"])), any_value(rng, 1))
            };
            items.insert(at, it);
            true
        }
        "extra-attr" => {
            let Some(Value::Record(attrs, _)) = pick_where(v, rng, is_record) else { return false };
            let at = rng.usize_below(attrs.len() + 1);
            let a = if rng.bool() { Attr::of("extra") } else { Attr::of((attr_name(rng), any_value(rng, 1))) };
            attrs.insert(at, a);
            true
        }
        "dup-attr" => {
            let Some(Value::Record(attrs, _)) = pick_where(v, rng, |x| matches!(x, Value::Record(a, _) if !a.is_empty())) else {
                return false;
            };
            let i = rng.usize_below(attrs.len());
            let a = attrs[i].clone();
            let at = if rng.bool() { i + 1 } else { attrs.len() };
            attrs.insert(at, a);
            true
        }
        "drop-attr" => {
            let Some(Value::Record(attrs, _)) = pick_where(v, rng, |x| matches!(x, Value::Record(a, _) if !a.is_empty())) else {
                return false;
            };
            let i = rng.usize_below(attrs.len());
            attrs.remove(i);
            true
        }
        "reorder-attrs" => {
            let Some(Value::Record(attrs, _)) = pick_where(v, rng, |x| matches!(x, Value::Record(a, _) if a.len() >= 2)) else {
                return false;
            };
            let i = rng.usize_below(attrs.len() - 1);
            if attrs[i] == attrs[i + 1] {
                return false;
            }
            attrs.swap(i, i + 1);
            true
        }
        "wrong-tag" => {
            let Some(Value::Record(attrs, _)) = pick_where(v, rng, |x| matches!(x, Value::Record(a, _) if !a.is_empty())) else {
                return false;
            };
            let old = attrs[0].name.clone();
            let new = match rng.below(4) {
                0 => Text::from(old.as_str().to_lowercase()),
                1 => Text::from(format!("{}x", old.as_str())),
                _ => Text::from(attr_name(rng)),
            };
            if new == old {
                return false;
            }
            attrs[0].name = new;
            true
        }
        "wrong-kind" => {
            let Some(x) = pick_where(v, rng, is_prim) else { return false };
            *x = other_prim(x, rng);
            true
        }
        "to-extant" => {
            let Some(x) = pick_where(v, rng, |x| *x != Value::Extant) else { return false };
            *x = Value::Extant;
            true
        }
        "slot-to-value" => {
            let Some(Value::Record(_, items)) =
                pick_where(v, rng, |x| matches!(x, Value::Record(_, it) if it.iter().any(|i| matches!(i, Item::Slot(_, _)))))
            else {
                return false;
            };
            let idx: Vec<usize> = items.iter().enumerate().filter(|(_, i)| matches!(i, Item::Slot(_, _))).map(|(i, _)| i).collect();
            let i = *rng.pick(&idx);
            let Item::Slot(k, x) = items[i].clone() else { return false };
            items[i] = Item::ValueItem(if rng.chance(3, 4) { x } else { k });
            true
        }
        "value-to-slot" => {
            let Some(Value::Record(_, items)) =
                pick_where(v, rng, |x| matches!(x, Value::Record(_, it) if it.iter().any(|i| matches!(i, Item::ValueItem(_)))))
            else {
                return false;
            };
            let idx: Vec<usize> = items.iter().enumerate().filter(|(_, i)| matches!(i, Item::ValueItem(_))).map(|(i, _)| i).collect();
            let i = *rng.pick(&idx);
            let Item::ValueItem(x) = items[i].clone() else { return false };
            items[i] = Item::Slot(Value::text(*rng.pick(&["a", "key", "first", "x", "0"])), x);
            true
        }
        "rename-slot-key" => {
            let Some(Value::Record(_, items)) =
                pick_where(v, rng, |x| matches!(x, Value::Record(_, it) if it.iter().any(|i| matches!(i, Item::Slot(_, _)))))
            else {
                return false;
            };
            let idx: Vec<usize> = items.iter().enumerate().filter(|(_, i)| matches!(i, Item::Slot(_, _))).map(|(i, _)| i).collect();
            let i = *rng.pick(&idx);
            // Either a fresh key, the key of a sibling slot (duplicate field), or a non-text key.
            let sibling = idx.iter().filter(|j| **j != i).map(|j| match &items[*j] {
                Item::Slot(k, _) => k.clone(),
                _ => Value::Extant,
            }).next();
            let new = match (rng.below(4), sibling) {
                (0, Some(k)) => k,
                (1, _) => Value::Int32Value(1),
                (2, _) => Value::text(any_string(rng)),
                _ => Value::text("other"),
            };
            let Item::Slot(k, _) = &mut items[i] else { return false };
            if *k == new {
                return false;
            }
            *k = new;
            true
        }
        "attr-body-wrap" => {
            // @a(x) -> @a({x}): single-item record around the body of an attribute.
            let Some(Value::Record(attrs, _)) = pick_where(v, rng, |x| matches!(x, Value::Record(a, _) if !a.is_empty())) else {
                return false;
            };
            let i = rng.usize_below(attrs.len());
            let body = std::mem::replace(&mut attrs[i].value, Value::Extant);
            attrs[i].value = Value::Record(vec![], vec![Item::ValueItem(body)]);
            true
        }
        "attr-body-unwrap" => {
            // @a({x}) -> @a(x) where the body is a record of exactly one value item.
            let single = |x: &Value| matches!(x, Value::Record(a, it) if a.is_empty() && it.len() == 1 && matches!(it[0], Item::ValueItem(_)));
            let Some(Value::Record(attrs, _)) = pick_where(v, rng, |x| matches!(x, Value::Record(a, _) if a.iter().any(|at| single(&at.value))))
            else {
                return false;
            };
            for a in attrs.iter_mut() {
                if single(&a.value) {
                    let Value::Record(_, mut it) = std::mem::replace(&mut a.value, Value::Extant) else { return false };
                    let Some(Item::ValueItem(x)) = it.pop() else { return false };
                    a.value = x;
                    return true;
                }
            }
            false
        }
        "attr-body-to-body" => {
            // Move the content of an attribute body into the record body (header <-> body confusion).
            let Some(Value::Record(attrs, items)) =
                pick_where(v, rng, |x| matches!(x, Value::Record(a, _) if a.iter().any(|at| at.value != Value::Extant)))
            else {
                return false;
            };
            for a in attrs.iter_mut() {
                if a.value != Value::Extant {
                    let body = std::mem::replace(&mut a.value, Value::Extant);
                    match body {
                        Value::Record(at, it) if at.is_empty() => items.extend(it),
                        ow => items.push(Item::ValueItem(ow)),
                    }
                    return true;
                }
            }
            false
        }
        "body-wrap" => {
            // {items} -> {{items}}
            let Some(Value::Record(_, items)) = pick_where(v, rng, is_record) else { return false };
            let inner = std::mem::take(items);
            items.push(Item::ValueItem(Value::Record(vec![], inner)));
            true
        }
        "record-to-prim" => {
            let Some(x) = pick_where(v, rng, is_record) else { return false };
            *x = other_prim(&Value::Extant, rng);
            true
        }
        "prim-to-record" => {
            let Some(x) = pick_where(v, rng, is_prim) else { return false };
            let old = std::mem::replace(x, Value::Extant);
            *x = match rng.below(3) {
                0 => Value::Record(vec![], vec![Item::ValueItem(old)]),
                1 => Value::Record(vec![], vec![]),
                _ => Value::Record(vec![Attr::of("a")], vec![Item::ValueItem(old)]),
            };
            true
        }
        "add-attr-to-nested" => {
            // Prefix a primitive with an attribute: `@extra 1` i.e. Record([extra],[1]).
            let Some(x) = pick_where(v, rng, |_| true) else { return false };
            let old = std::mem::replace(x, Value::Extant);
            *x = match old {
                Value::Record(mut a, it) => {
                    a.push(Attr::of("trailing"));
                    Value::Record(a, it)
                }
                ow => Value::Record(vec![Attr::of("extra")], vec![Item::ValueItem(ow)]),
            };
            true
        }
        "tag-body-extants" => {
            // `@Tag` -> `@Tag(,)`: the body of the first attribute becomes a record of extant items.
            let Value::Record(attrs, _) = v else { return false };
            let Some(a) = attrs.first_mut() else { return false };
            if a.value != Value::Extant {
                return false;
            }
            let n = rng.range(2, 3) as usize;
            a.value = Value::Record(vec![], vec![Item::ValueItem(Value::Extant); n]);
            true
        }
        _ => false,
    }
}

// ------------------------------------------------------------------------------------------------
// Token-level mutation of Recon text.

#[derive(Clone, Debug, PartialEq)]
pub struct Tok(pub String);

/// Split into string literals, blobs, punctuation, whitespace and words. Purely a splitter for the
/// mutator: nothing is decided with it.
pub fn lex(s: &str) -> Vec<Tok> {
    let cs: Vec<char> = s.chars().collect();
    let mut out = Vec::new();
    let mut i = 0;
    while i < cs.len() {
        let c = cs[i];
        if c == '"' {
            let mut j = i + 1;
            while j < cs.len() && cs[j] != '"' {
                if cs[j] == '\\' {
                    j += 1;
                }
                j += 1;
            }
            let end = (j + 1).min(cs.len());
            out.push(Tok(cs[i..end].iter().collect()));
            i = end;
        } else if "@(){}:,;".contains(c) {
            out.push(Tok(c.to_string()));
            i += 1;
        } else if c.is_whitespace() {
            let mut j = i;
            while j < cs.len() && cs[j].is_whitespace() {
                j += 1;
            }
            out.push(Tok(cs[i..j].iter().collect()));
            i = j;
        } else {
            let mut j = i;
            while j < cs.len() && !"@(){}:,;\"".contains(cs[j]) && !cs[j].is_whitespace() {
                j += 1;
            }
            out.push(Tok(cs[i..j].iter().collect()));
            i = j;
        }
    }
    out
}

fn join(toks: &[Tok]) -> String {
    toks.iter().map(|t| t.0.as_str()).collect()
}

/// Index of the token closing the bracket opened at `open` (same bracket kind), if balanced.
fn matching(toks: &[Tok], open: usize) -> Option<usize> {
    let (o, c) = match toks[open].0.as_str() {
        "(" => ("(", ")"),
        "{" => ("{", "}"),
        _ => return None,
    };
    let mut depth = 0i32;
    for (i, t) in toks.iter().enumerate().skip(open) {
        if t.0 == o {
            depth += 1;
        } else if t.0 == c {
            depth -= 1;
            if depth == 0 {
                return Some(i);
            }
        }
    }
    None
}

pub const TOKEN_MUTATIONS: &[&str] = &[
    "tok-attr-parens-add-braces",
    "tok-attr-parens-drop-braces",
    "tok-body-drop-braces",
    "tok-separator-swap",
    "tok-delete",
    "tok-duplicate",
    "tok-swap-words",
    "tok-replace-word",
    "tok-insert-attr",
    "tok-whitespace",
    "tok-empty-parens",
    "tok-trailing",
    "tok-extra-separator",
];

pub fn mutate_tokens(text: &str, class: &str, rng: &mut Rng) -> Option<String> {
    let mut toks = lex(text);
    let positions = |toks: &[Tok], what: &str| -> Vec<usize> { toks.iter().enumerate().filter(|(_, t)| t.0 == what).map(|(i, _)| i).collect() };
    let words = |toks: &[Tok]| -> Vec<usize> {
        toks.iter()
            .enumerate()
            .filter(|(_, t)| !t.0.trim().is_empty() && !"@(){}:,;".contains(t.0.as_str()))
            .map(|(i, _)| i)
            .collect()
    };
    match class {
        "tok-attr-parens-add-braces" => {
            // @a(x, y) -> @a({x, y})
            let opens = positions(&toks, "(");
            if opens.is_empty() {
                return None;
            }
            let o = *rng.pick(&opens);
            let c = matching(&toks, o)?;
            toks.insert(c, Tok("}".into()));
            toks.insert(o + 1, Tok("{".into()));
        }
        "tok-attr-parens-drop-braces" => {
            // @a({x, y}) -> @a(x, y)
            let opens: Vec<usize> = positions(&toks, "(")
                .into_iter()
                .filter(|o| {
                    toks.get(o + 1).map_or(false, |t| t.0 == "{")
                        && matching(&toks, o + 1).map_or(false, |c| toks.get(c + 1).map_or(false, |t| t.0 == ")"))
                })
                .collect();
            if opens.is_empty() {
                return None;
            }
            let o = *rng.pick(&opens);
            let c = matching(&toks, o + 1)?;
            toks.remove(c);
            toks.remove(o + 1);
        }
        "tok-body-drop-braces" => {
            // {x} -> x for some braces pair
            let opens = positions(&toks, "{");
            if opens.is_empty() {
                return None;
            }
            let o = *rng.pick(&opens);
            let c = matching(&toks, o)?;
            toks.remove(c);
            toks.remove(o);
            toks.insert(o, Tok(" ".into()));
        }
        "tok-separator-swap" => {
            let seps: Vec<usize> = toks.iter().enumerate().filter(|(_, t)| t.0 == "," || t.0 == ";").map(|(i, _)| i).collect();
            if seps.is_empty() {
                return None;
            }
            let i = *rng.pick(&seps);
            toks[i] = Tok(match (toks[i].0.as_str(), rng.below(2)) {
                (",", 0) => ";".into(),
                (",", _) => "\n".into(),
                (_, 0) => ",".into(),
                _ => "\n".into(),
            });
        }
        "tok-delete" => {
            if toks.is_empty() {
                return None;
            }
            let i = rng.usize_below(toks.len());
            toks.remove(i);
        }
        "tok-duplicate" => {
            if toks.is_empty() {
                return None;
            }
            let i = rng.usize_below(toks.len());
            let len = rng.range(1, 4) as usize;
            let end = (i + len).min(toks.len());
            let seg: Vec<Tok> = toks[i..end].to_vec();
            for (k, t) in seg.into_iter().enumerate() {
                toks.insert(end + k, t);
            }
        }
        "tok-swap-words" => {
            let w = words(&toks);
            if w.len() < 2 {
                return None;
            }
            let a = *rng.pick(&w);
            let b = *rng.pick(&w);
            if toks[a] == toks[b] {
                return None;
            }
            toks.swap(a, b);
        }
        "tok-replace-word" => {
            let w = words(&toks);
            if w.is_empty() {
                return None;
            }
            let i = *rng.pick(&w);
            let new = rng
                .pick(&[
                    "1", "-1", "0", "1.0", "1e3", "0x1F", "true", "false", "a", "\"\"", "\"a b\"", "%AQID", "2147483648",
                    "18446744073709551616", "-9223372036854775809", "_", "01", "1.", "+1", "-0.0", "\"\\u0041\"", "\"\\n\"", "inf", "NaN",
                ])
                .to_string();
            if toks[i].0 == new {
                return None;
            }
            toks[i] = Tok(new);
        }
        "tok-insert-attr" => {
            // before an existing '@', after the end, or at the start
            let mut spots = positions(&toks, "@");
            spots.push(toks.len());
            let i = *rng.pick(&spots);
            let ins = rng.pick(&["@extra ", "@extra(1) ", "@a ", "@\"my tag\" ", "@extra({}) ", "@extra() "]).to_string();
            toks.insert(i, Tok(ins));
        }
        "tok-whitespace" => {
            if toks.is_empty() {
                return None;
            }
            let i = rng.usize_below(toks.len() + 1);
            toks.insert(i, Tok(rng.pick(&[" ", "\n", "\t", "  \n  ", "\r\n"]).to_string()));
        }
        "tok-empty-parens" => {
            // `@a` -> `@a()` : after the name of an attribute that has no body
            let ats = positions(&toks, "@");
            let cands: Vec<usize> = ats.into_iter().filter(|a| toks.get(a + 2).map_or(true, |t| t.0 != "(") && toks.get(a + 1).is_some()).collect();
            if cands.is_empty() {
                return None;
            }
            let a = *rng.pick(&cands);
            toks.insert(a + 2, Tok(rng.pick(&["()", "({})", "( )"]).to_string()));
        }
        "tok-trailing" => {
            toks.push(Tok(rng.pick(&[" 1", " {}", " }", " @a", ",", " x: 1", " )", " \"s\""]).to_string()));
        }
        "tok-extra-separator" => {
            let spots: Vec<usize> = toks
                .iter()
                .enumerate()
                .filter(|(_, t)| ["{", "}", "(", ")", ",", ";"].contains(&t.0.as_str()))
                .map(|(i, _)| i)
                .collect();
            if spots.is_empty() {
                return None;
            }
            let i = *rng.pick(&spots);
            let at = if rng.bool() { i } else { i + 1 };
            toks.insert(at, Tok(rng.pick(&[",", ";", "\n"]).to_string()));
        }
        _ => return None,
    }
    let out = join(&toks);
    if out == text {
        None
    } else {
        Some(out)
    }
}
