//! Part `msgpack-sizes`: MessagePack has a separate header format for every length class
//! (fix / 8 / 16 / 32 bit) of strings, binaries, arrays, maps and extension types. The random
//! battery only ever produces small collections, so this part walks the class boundaries
//! explicitly: 15/16/17, 31/32/33, 255/256/257, 65535/65536/65537 and one larger size, for
//! Vec, HashMap, String, Blob and model records of items / slots / attributes.

use std::collections::HashMap;

use bytes::{BufMut, BytesMut};
use common::{json, CaseOut};
use swimos_form::write::StructuralWritable;
use swimos_form::read::StructuralReadable;
use swimos_model::{Attr, Blob, Item, Value};
use swimos_msgpack::{read_from_msg_pack, MsgPackInterpreter};

pub const SIZES: [usize; 13] = [15, 16, 17, 31, 32, 33, 255, 256, 257, 65535, 65536, 65537, 70001];
pub const SHAPES: [&str; 7] = ["vec-i32", "hashmap-i32-i32", "string", "blob", "value-items", "value-slots", "value-attrs"];

fn round_trip<T>(x: &T, shape: &str, size: usize, out: &mut CaseOut)
where
    T: StructuralWritable + StructuralReadable + PartialEq,
{
    let class = match size {
        0..=15 => "fix",
        16..=31 => "fix-or-8",
        32..=255 => "8",
        256..=65535 => "16",
        _ => "32",
    };
    let mut buf = BytesMut::new();
    let written = {
        let mut w = (&mut buf).writer();
        x.write_with(MsgPackInterpreter::new(&mut w))
    };
    out.events += 2;
    if let Err(e) = written {
        out.violation("C16", format!("msgpack-sizes/write-error/{shape}/length-class={class}"), format!("writing a {shape} of {size} elements as MessagePack fails: {e}"), json!({"size": size}));
        return;
    }
    let mut bytes = buf.split().freeze();
    match read_from_msg_pack::<T, _>(&mut bytes) {
        Ok(y) if &y == x => {}
        Ok(_) => out.violation(
            "C16",
            format!("msgpack-sizes/differs/{shape}/length-class={class}"),
            format!("a {shape} of {size} elements written as MessagePack reads back as a different value"),
            json!({"size": size}),
        ),
        Err(e) => out.violation(
            "C16",
            format!("msgpack-sizes/rejected/{shape}/length-class={class}"),
            format!("a {shape} of {size} elements written as MessagePack cannot be read back: {e}"),
            json!({"size": size}),
        ),
    }
}

pub fn run_case(case: u64, out: &mut CaseOut) {
    let size = SIZES[(case as usize) % SIZES.len()];
    let shape = SHAPES[(case as usize / SIZES.len()) % SHAPES.len()];
    out.sig(&(shape, size));
    out.nontrivial = true;
    match shape {
        "vec-i32" => round_trip(&(0..size as i32).collect::<Vec<i32>>(), shape, size, out),
        "hashmap-i32-i32" => round_trip(&(0..size as i32).map(|i| (i, -i)).collect::<HashMap<i32, i32>>(), shape, size, out),
        "string" => round_trip(&"é".repeat(size / 2) .chars().chain(std::iter::repeat('x').take(size % 2)).collect::<String>(), shape, size, out),
        "blob" => round_trip(&Blob::from_vec((0..size).map(|i| i as u8).collect()), shape, size, out),
        "value-items" => round_trip(&Value::Record(vec![], (0..size as i32).map(Item::of).collect()), shape, size, out),
        "value-slots" => round_trip(&Value::Record(vec![], (0..size as i32).map(|i| Item::slot(i, i + 1)).collect()), shape, size, out),
        _ => {
            // attribute maps are capped: 300 attributes are already past the 8-bit class
            let n = size.min(300);
            round_trip(&Value::Record((0..n).map(|i| Attr::of((format!("a{i}"), i as i32))).collect(), vec![Item::of(1)]), shape, n, out)
        }
    }
    out.set_sample(json!({"shape": shape, "size": size}));
}
