//! Part `rocks-concurrent-ids`: the name -> identifier allocator of a persistent store under
//! *concurrent* callers, across close and reopen.
//!
//! In a server the node stores of the agents of one plane live on the worker threads of a
//! multi-thread runtime, and every agent registers the names of its items when it starts: `id_for`
//! calls for new names of different agents overlap. "The identifier assigned to a name never
//! changes or collides" must hold for those histories too, and for a persistent store also after
//! the directory was closed and opened again (the allocator state is read back from disk).
//!
//! One case = one scratch directory used over many short *sessions*. A session
//!  1. opens the directory and asks the identifier of every name registered so far (unchanged) and
//!     reads every item (still exactly the content written through its identifier),
//!  2. registers 0-2 new names sequentially (their identifiers must be new),
//!  3. releases 2-8 OS threads through a spin gate; every thread owns the node store(s) of its own
//!     agent(s), calls `id_for` for 1-6 *new* names back to back and writes a unique content through
//!     each identifier (some threads also re-ask the identifier of an old name),
//!  4. joins, requires all identifiers handed out so far to be pairwise distinct and reads every
//!     item of the session back,
//!  5. drops every handle (the database closes).
//!
//! Two different (agent, item) pairs with one identifier are probed like in the sequential parts:
//! a marker written through one pair must not be visible through the other.
//!
//! The interleaving of the threads is not controlled (the store has no hook for that): a case
//! samples it, which is why there are many short sessions and why the plan keeps the threads
//! aligned up to their *last* registrations - after a close only what the last writers left on disk
//! matters. Replaying a case re-samples the interleaving.
//!
//! Every agent URI is owned by exactly one thread (one agent = one task in the server), and all
//! names are slash-free under distinct URIs, so the equal-concatenation collision known from the
//! sequential parts cannot occur here.

use std::collections::BTreeMap;
use std::hash::{Hash, Hasher};
use std::sync::atomic::{AtomicBool, AtomicUsize, Ordering};
use std::sync::Arc;
use std::task::Poll;
use std::time::Instant;

use bytes::BytesMut;
use common::{json, CaseOut, Fnv, Json, Rng};
use swimos_api::error::StoreError;
use swimos_api::persistence::{NodePersistence, PlanePersistence, RangeConsumer, ServerPersistence};

use crate::runner::{classify_store_error, diff, poll_once, Observed, WakeCount};
use crate::script::Cell;

const P: &str = "C13";
const PLANE: &str = "plane";

type NodeOf<S> = <<S as ServerPersistence>::PlaneStore as PlanePersistence>::Node;
type IdOf<S> = <NodeOf<S> as NodePersistence>::LaneId;

// ------------------------------------------------------------------------------------------------
// Plan (a pure function of the case's PRNG)

#[derive(Debug, Hash)]
pub struct ThreadPlan {
    /// Names per agent owned by the thread.
    pub agents: Vec<usize>,
    /// Busy iterations between the gate and the first call (varies the alignment of the calls).
    pub pre_spin: u32,
    /// Write the content right after each `id_for` (else all `id_for` calls first).
    pub write_between: bool,
    /// Also ask the identifier of a name registered in an earlier session (selector).
    pub revisit: Option<u64>,
}

#[derive(Debug, Hash)]
pub struct SessionPlan {
    /// New names registered sequentially right after the reopen.
    pub fresh: usize,
    pub threads: Vec<ThreadPlan>,
}

#[derive(Debug, Hash)]
pub struct Plan {
    /// All items of the case are maps (else values): a colliding pair is then always of one kind,
    /// so the storage-sharing probe applies to it.
    pub map_items: bool,
    pub sessions: Vec<SessionPlan>,
}

pub fn gen_plan(rng: &mut Rng, n_sessions: usize) -> Plan {
    let map_items = rng.bool();
    let sessions = (0..n_sessions)
        .map(|_| {
            let fresh = *rng.pick(&[0usize, 1, 1, 2]);
            let n_threads = rng.range(2, 8) as usize;
            // Two styles. Lockstep (3 in 4): every thread registers the same number of names for one
            // agent, no delays; the store's group commit then keeps the threads aligned, so that
            // the *last* registrations of the session race as well (what is on disk at the close
            // is what the last writers left). Ragged: different numbers of names, agents, delays.
            let lockstep = rng.chance(3, 4);
            let per_thread = *rng.pick(&[1usize, 1, 2, 3, 4, 6]);
            let threads = (0..n_threads)
                .map(|_| {
                    if lockstep {
                        ThreadPlan { agents: vec![per_thread], pre_spin: 0, write_between: false, revisit: None }
                    } else {
                        ThreadPlan {
                            agents: (0..if rng.chance(1, 4) { 2 } else { 1 }).map(|_| *rng.pick(&[1usize, 1, 1, 2, 3])).collect(),
                            pre_spin: if rng.bool() { 0 } else { rng.range(0, 3000) as u32 },
                            write_between: rng.chance(1, 3),
                            revisit: if rng.chance(1, 4) { Some(rng.next_u64()) } else { None },
                        }
                    }
                })
                .collect();
            SessionPlan { fresh, threads }
        })
        .collect();
    Plan { map_items, sessions }
}

/// The unique content written through the identifier of the `serial`-th name of the case.
fn content_for(map_items: bool, serial: u32) -> Cell {
    let mut v = serial.to_le_bytes().to_vec();
    v.extend_from_slice(b"-content");
    if map_items {
        // The same few keys in every map, item-unique values: shared storage shows as a wrong
        // value or as an extra entry.
        let mut m = BTreeMap::new();
        m.insert(b"k".to_vec(), v.clone());
        match serial % 3 {
            0 => {}
            1 => {
                m.insert(Vec::new(), v.clone());
            }
            _ => {
                m.insert(vec![0xff; 9], v.clone());
            }
        }
        Cell::Map(m)
    } else {
        Cell::Value(Some(v))
    }
}

// ------------------------------------------------------------------------------------------------
// Store access

/// Why a case ends early.
enum Stop {
    Violation { sig: String, what: String, detail: Json },
    Inconclusive(String),
}

fn store_stop(op: &str, e: &StoreError, detail: Json) -> Stop {
    match classify_store_error(op, e) {
        Err(why) => Stop::Inconclusive(why),
        Ok((sig, what)) => Stop::Violation { sig, what, detail: json!({ "error": format!("{e}"), "where": detail }) },
    }
}

fn open_node<Pl: PlanePersistence>(plane: &Pl, uri: &str) -> Result<Pl::Node, Stop> {
    let mut fut = plane.node_store(uri);
    match poll_once(&mut fut, &Arc::new(WakeCount(AtomicUsize::new(0)))) {
        Poll::Ready(Ok(n)) => Ok(n),
        Poll::Ready(Err(e)) => Err(store_stop("node_store", &e, json!({ "uri": uri }))),
        Poll::Pending => Err(Stop::Violation {
            sig: "node_store/pending-while-no-handle-is-held".to_string(),
            what: "node_store did not resolve although no node store of this agent is alive".to_string(),
            detail: json!({ "uri": uri }),
        }),
    }
}

fn write_content<N: NodePersistence>(node: &mut N, id: N::LaneId, content: &Cell) -> Result<(), (&'static str, StoreError)> {
    match content {
        Cell::Value(Some(v)) => node.put_value(id, v).map_err(|e| ("put_value", e)),
        Cell::Value(None) => Ok(()),
        Cell::Map(m) => {
            for (k, v) in m {
                node.update_map(id, k, v).map_err(|e| ("update_map", e))?;
            }
            Ok(())
        }
    }
}

fn read_item<N: NodePersistence>(node: &N, id: N::LaneId, is_map: bool) -> Result<Observed, (&'static str, StoreError)> {
    if is_map {
        let mut con = node.read_map(id).map_err(|e| ("read_map", e))?;
        let mut entries = Vec::new();
        // Bounded: a consumer that never ends shows as thousands of extra entries.
        while entries.len() < 10_000 {
            match con.consume_next().map_err(|e| ("consume_next", e))? {
                Some((k, v)) => entries.push((k.to_vec(), v.to_vec())),
                None => break,
            }
        }
        Ok(Observed::Map(entries))
    } else {
        let mut buf = BytesMut::new();
        match node.get_value(id, &mut buf).map_err(|e| ("get_value", e))? {
            None => Ok(Observed::Value(None)),
            Some(_) => Ok(Observed::Value(Some(buf.to_vec()))),
        }
    }
}

// ------------------------------------------------------------------------------------------------
// Worker threads

/// All threads of a session start their calls together: a spin gate (a condition variable would
/// stagger the wake-ups by more than one `id_for` takes).
struct Gate {
    n: usize,
    arrived: AtomicUsize,
    abort: AtomicBool,
}

impl Gate {
    fn wait(&self) {
        self.arrived.fetch_add(1, Ordering::SeqCst);
        let mut spins = 0u32;
        while self.arrived.load(Ordering::Acquire) < self.n && !self.abort.load(Ordering::Acquire) {
            spins += 1;
            if spins < 20_000 {
                std::hint::spin_loop();
            } else {
                std::thread::yield_now();
            }
        }
    }
}

struct AgentWork<N> {
    uri: String,
    node: N,
    names: Vec<String>,
    contents: Vec<Cell>,
}

struct Work<N> {
    agents: Vec<AgentWork<N>>,
    pre_spin: u32,
    write_between: bool,
    /// (node store of the old agent, old name, index into the known names)
    revisit: Option<(N, String, usize)>,
}

struct Call<Id> {
    agent: usize,
    name: usize,
    id: Id,
    /// Nanoseconds since the session's epoch (coverage only: did calls overlap in time?).
    t0: u64,
    t1: u64,
}

struct Done<N: NodePersistence> {
    agents: Vec<AgentWork<N>>,
    calls: Vec<Call<N::LaneId>>,
    revisit: Option<(usize, Result<N::LaneId, StoreError>)>,
    /// (operation, agent, name, error)
    error: Option<(&'static str, usize, usize, StoreError)>,
}

fn worker<N: NodePersistence>(mut w: Work<N>, gate: Arc<Gate>, epoch: Instant) -> Done<N> {
    let mut calls: Vec<Call<N::LaneId>> = Vec::new();
    let mut error = None;
    let mut revisit_result = None;
    gate.wait();
    for _ in 0..w.pre_spin {
        std::hint::spin_loop();
    }
    if !gate.abort.load(Ordering::Acquire) {
        'calls: for (a, ag) in w.agents.iter_mut().enumerate() {
            for n in 0..ag.names.len() {
                let t0 = epoch.elapsed().as_nanos() as u64;
                let r = ag.node.id_for(&ag.names[n]);
                let t1 = epoch.elapsed().as_nanos() as u64;
                match r {
                    Ok(id) => {
                        calls.push(Call { agent: a, name: n, id, t0, t1 });
                        if w.write_between {
                            if let Err((op, e)) = write_content(&mut ag.node, id, &ag.contents[n]) {
                                error = Some((op, a, n, e));
                                break 'calls;
                            }
                        }
                    }
                    Err(e) => {
                        error = Some(("id_for", a, n, e));
                        break 'calls;
                    }
                }
                if let Some((node, name, k)) = w.revisit.take() {
                    revisit_result = Some((k, node.id_for(&name)));
                }
            }
        }
        if error.is_none() && !w.write_between {
            for c in &calls {
                let ag = &mut w.agents[c.agent];
                if let Err((op, e)) = write_content(&mut ag.node, c.id, &ag.contents[c.name]) {
                    error = Some((op, c.agent, c.name, e));
                    break;
                }
            }
        }
    }
    Done { agents: w.agents, calls, revisit: revisit_result, error }
}

// ------------------------------------------------------------------------------------------------
// The case

/// A name registered so far.
struct Known<Id> {
    uri: String,
    name: String,
    id: Id,
    content: Cell,
    session: usize,
    /// How it was registered (for the witness).
    origin: String,
}

impl<Id: std::fmt::Debug> Known<Id> {
    fn describe(&self) -> Json {
        json!({ "uri": self.uri, "item": self.name, "id": format!("{:?}", self.id), "registered": self.origin })
    }
}

struct Case<'p, S: ServerPersistence> {
    plan: &'p Plan,
    known: Vec<Known<IdOf<S>>>,
    serial: u32,
    events: u64,
    counters: BTreeMap<&'static str, u64>,
    /// Per finished session: thread indices in the order of the identifiers they were given
    /// (the observed schedule, folded into the case's distinctness hash).
    schedule: Vec<Vec<usize>>,
    sessions_with_overlap: u64,
    reopen_checks: u64,
}

impl<'p, S: ServerPersistence> Case<'p, S> {
    fn count(&mut self, k: &'static str, n: u64) {
        *self.counters.entry(k).or_insert(0) += n;
    }

    fn kind(&self) -> &'static str {
        if self.plan.map_items {
            "map"
        } else {
            "value"
        }
    }

    fn next_content(&mut self) -> Cell {
        self.serial += 1;
        content_for(self.plan.map_items, self.serial)
    }

    fn context(&self, session: usize) -> Json {
        let highest = self.known.iter().filter_map(|k| format!("{:?}", k.id).parse::<u64>().ok()).max();
        json!({
            "scenario": "open_rocks_store(scratch dir) used over many sessions; a session = open, verify all names, register 0-2 new names sequentially, then several threads register new names of their own agents concurrently, join, verify, close",
            "session": session,
            "names_registered_so_far": self.known.len(),
            "highest_numeric_id_handed_out_so_far": highest,
            "item_kind": self.kind(),
            "last_registrations": self.known.iter().rev().take(12).map(|k| k.describe()).collect::<Vec<_>>(),
        })
    }

    /// A new registration returned `id` for (uri, name). It must differ from the identifier of
    /// every other name. If it does not: confirm by probe that the two items share their storage.
    fn check_new_id(
        &mut self,
        plane: &S::PlaneStore,
        session: usize,
        uri: &str,
        name: &str,
        id: IdOf<S>,
        origin: &str,
        node: &mut NodeOf<S>,
    ) -> Result<(), Stop> {
        let Some(k) = self.known.iter().position(|k| k.id == id) else { return Ok(()) };
        let is_map = self.plan.map_items;
        const MARK_K: &[u8] = b"\x7fverif-alias-probe-key";
        const MARK_V: &[u8] = b"verif-alias-probe-value";
        let wrote = if is_map { node.update_map(id, MARK_K, MARK_V) } else { node.put_value(id, MARK_V) };
        let mut shared = false;
        if wrote.is_ok() {
            let other = open_node(plane, &self.known[k].uri)?;
            if let Ok(obs) = read_item(&other, self.known[k].id, is_map) {
                shared = match &obs {
                    Observed::Value(v) => v.as_deref() == Some(MARK_V),
                    Observed::Map(es) => es.iter().any(|(k, v)| k == MARK_K && v == MARK_V),
                };
            }
        }
        let scope = if self.known[k].uri == uri { "same-agent" } else { "cross-agent" };
        let old = &self.known[k];
        let when = if old.session == session { "registered in the same session" } else { "registered in an earlier session (the database was closed and reopened in between)" };
        let detail = json!({
            "this": { "uri": uri, "item": name, "id": format!("{id:?}"), "registered": origin },
            "other": old.describe(),
            "other_was": when,
            "storage_shared_confirmed_by_probe": shared,
            "context": self.context(session),
        });
        let (sig, what) = if shared {
            (
                format!("id-collision/{scope}/distinct-concatenation/{}", self.kind()),
                "two different (agent, item) pairs were assigned the same identifier and share their storage: a write through one is read back through the other",
            )
        } else {
            (
                format!("id-collision/{scope}/distinct-concatenation/{}/storage-not-shared", self.kind()),
                "two different (agent, item) pairs were assigned the same identifier (the probe did not show shared storage)",
            )
        };
        Err(Stop::Violation { sig, what: what.to_string(), detail })
    }

    /// Read one known item and compare with the content written through its identifier.
    fn check_content(&mut self, node: &NodeOf<S>, k: usize, session: usize, phase: &str) -> Result<(), Stop> {
        let it = &self.known[k];
        let obs = read_item(node, it.id, self.plan.map_items).map_err(|(op, e)| store_stop(op, &e, it.describe()))?;
        self.events += 1;
        if let Some((sig, info)) = diff(&it.content, &obs) {
            // Does the content belong to another name?
            let foreign = self.known.iter().enumerate().find(|(j, o)| {
                *j != k
                    && match (&o.content, &obs) {
                        (Cell::Value(Some(v)), Observed::Value(Some(ov))) => v == ov,
                        (Cell::Map(m), Observed::Map(es)) => es.iter().any(|(ek, ev)| m.get(ek) == Some(ev)),
                        _ => false,
                    }
            });
            let sig = if foreign.is_some() { format!("{sig}/content-of-another-item") } else { sig };
            return Err(Stop::Violation {
                sig,
                what: format!("{} answered differently from what was written through the identifier of this item ({phase})", if self.plan.map_items { "read_map" } else { "get_value" }),
                detail: json!({
                    "item": it.describe(),
                    "diff": info,
                    "content_matches_item": foreign.map(|(_, o)| o.describe()),
                    "context": self.context(session),
                }),
            });
        }
        Ok(())
    }

    /// Step 1: every name registered so far still has its identifier and its content.
    fn verify_known(&mut self, plane: &S::PlaneStore, session: usize) -> Result<(), Stop> {
        let mut k = 0;
        while k < self.known.len() {
            // Names of one agent are adjacent: one node store per agent.
            let uri = self.known[k].uri.clone();
            let node = open_node(plane, &uri)?;
            while k < self.known.len() && self.known[k].uri == uri {
                let it = &self.known[k];
                let now = node.id_for(&it.name).map_err(|e| store_stop("id_for", &e, it.describe()))?;
                self.events += 1;
                if now != it.id {
                    return Err(Stop::Violation {
                        sig: "id-changed/after-db-reopen".to_string(),
                        what: format!("id_for returned {now:?} for a name that had {:?} before", it.id),
                        detail: json!({ "item": it.describe(), "now": format!("{now:?}"), "context": self.context(session) }),
                    });
                }
                self.count("ids_unchanged_after_reopen", 1);
                self.check_content(&node, k, session, "after reopening the database")?;
                self.count("contents_unchanged_after_reopen", 1);
                self.reopen_checks += 1;
                k += 1;
            }
        }
        Ok(())
    }

    /// Step 2: new names registered sequentially, first thing after the reopen.
    fn register_fresh(&mut self, plane: &S::PlaneStore, session: usize, n: usize) -> Result<(), Stop> {
        if n == 0 {
            return Ok(());
        }
        let uri = format!("/s{session}/fresh");
        let mut node = open_node(plane, &uri)?;
        for m in 0..n {
            let name = format!("i{m}");
            let id = node.id_for(&name).map_err(|e| store_stop("id_for", &e, json!({ "uri": uri, "item": name })))?;
            self.events += 1;
            let origin = format!("session {session}, sequentially, right after opening the database");
            self.check_new_id(plane, session, &uri, &name, id, &origin, &mut node)?;
            let content = self.next_content();
            write_content(&mut node, id, &content).map_err(|(op, e)| store_stop(op, &e, json!({ "uri": uri, "item": name })))?;
            self.known.push(Known { uri: uri.clone(), name, id, content, session, origin });
            self.count("new_names_registered_sequentially_after_reopen", 1);
            let k = self.known.len() - 1;
            self.check_content(&node, k, session, "right after writing it")?;
        }
        Ok(())
    }

    /// Steps 3 and 4: the concurrent registrations.
    fn concurrent(&mut self, plane: &S::PlaneStore, session: usize, sp: &SessionPlan) -> Result<(), Stop> {
        let n_known_before = self.known.len();
        let mut works: Vec<Work<NodeOf<S>>> = Vec::new();
        for (t, tp) in sp.threads.iter().enumerate() {
            let mut agents = Vec::new();
            for (a, n_names) in tp.agents.iter().enumerate() {
                let uri = format!("/s{session}/t{t}/a{a}");
                let node = open_node(plane, &uri)?;
                let names: Vec<String> = (0..*n_names).map(|m| format!("i{m}")).collect();
                let contents = names.iter().map(|_| self.next_content()).collect();
                agents.push(AgentWork { uri, node, names, contents });
            }
            let revisit = match tp.revisit {
                Some(sel) if n_known_before > 0 => {
                    let k = (sel % n_known_before as u64) as usize;
                    Some((open_node(plane, &self.known[k].uri)?, self.known[k].name.clone(), k))
                }
                _ => None,
            };
            works.push(Work { agents, pre_spin: tp.pre_spin, write_between: tp.write_between, revisit });
        }
        let gate = Arc::new(Gate { n: works.len(), arrived: AtomicUsize::new(0), abort: AtomicBool::new(false) });
        let epoch = Instant::now();
        let mut handles = Vec::new();
        let mut spawn_failed = None;
        for (t, w) in works.into_iter().enumerate() {
            let gate2 = gate.clone();
            match std::thread::Builder::new().name(format!("store-conc-{t}")).spawn(move || worker(w, gate2, epoch)) {
                Ok(h) => handles.push(h),
                Err(e) => {
                    spawn_failed = Some(format!("cannot spawn a thread: {}", e.kind()));
                    gate.abort.store(true, Ordering::Release);
                    break;
                }
            }
        }
        let mut dones: Vec<Done<NodeOf<S>>> = Vec::new();
        let mut panicked = None;
        for h in handles {
            match h.join() {
                Ok(d) => dones.push(d),
                Err(payload) => panicked = Some(payload),
            }
        }
        if let Some(payload) = panicked {
            // A panic inside the store on a worker thread: let the case runner report it.
            std::panic::resume_unwind(payload);
        }
        if let Some(why) = spawn_failed {
            return Err(Stop::Inconclusive(why));
        }

        // Coverage: did the calls really overlap / interleave?
        let mut spans: Vec<(u64, u64, usize)> = Vec::new();
        for (t, d) in dones.iter().enumerate() {
            spans.extend(d.calls.iter().map(|c| (c.t0, c.t1, t)));
        }
        let overlapping = spans.iter().enumerate().any(|(x, a)| spans.iter().skip(x + 1).any(|b| a.2 != b.2 && a.0 < b.1 && b.0 < a.1));
        if overlapping {
            self.count("sessions_with_id_for_calls_overlapping_in_time", 1);
            self.sessions_with_overlap += 1;
        }

        // Errors of the store inside a thread.
        for (t, d) in dones.iter().enumerate() {
            if let Some((op, a, n, e)) = &d.error {
                let ag = &d.agents[*a];
                return Err(store_stop(op, e, json!({ "uri": ag.uri, "item": ag.names[*n], "thread": t, "threads": dones.len(), "context": self.context(session) })));
            }
        }

        // All identifiers handed out so far are pairwise distinct.
        let n_threads = dones.len();
        let mut order: Vec<(String, usize)> = Vec::new();
        for (t, d) in dones.iter_mut().enumerate() {
            for c in d.calls.iter() {
                let uri = d.agents[c.agent].uri.clone();
                let name = d.agents[c.agent].names[c.name].clone();
                let origin = format!("session {session}, concurrently, by thread {t} of {n_threads}");
                self.events += 1;
                self.count("new_names_registered_concurrently", 1);
                self.check_new_id(plane, session, &uri, &name, c.id, &origin, &mut d.agents[c.agent].node)?;
                let content = d.agents[c.agent].contents[c.name].clone();
                order.push((format!("{:?}", c.id), t));
                self.known.push(Known { uri, name, id: c.id, content, session, origin });
            }
        }
        // Thread indices in the order of their identifiers (numeric where the text is a number).
        order.sort_by(|a, b| match (a.0.parse::<u64>(), b.0.parse::<u64>()) {
            (Ok(x), Ok(y)) => x.cmp(&y),
            _ => a.0.cmp(&b.0),
        });
        let by_id: Vec<usize> = order.iter().map(|(_, t)| *t).collect();
        if by_id.windows(2).any(|w| w[0] > w[1]) {
            self.count("sessions_with_ids_not_in_thread_order", 1);
        }
        self.schedule.push(by_id);

        // The identifier of an old name asked concurrently with the registrations.
        for d in dones.iter_mut() {
            if let Some((k, r)) = d.revisit.take() {
                let it = &self.known[k];
                let now = r.map_err(|e| store_stop("id_for", &e, it.describe()))?;
                self.events += 1;
                if now != it.id {
                    return Err(Stop::Violation {
                        sig: "id-changed/while-other-names-are-registered-concurrently".to_string(),
                        what: format!("id_for returned {now:?} for a name that had {:?} before", it.id),
                        detail: json!({ "item": it.describe(), "now": format!("{now:?}"), "context": self.context(session) }),
                    });
                }
                self.count("old_ids_unchanged_when_asked_concurrently", 1);
            }
        }

        // Every item of the session holds exactly what was written through its identifier.
        let mut k = n_known_before;
        for d in dones.iter() {
            for c in d.calls.iter() {
                self.check_content(&d.agents[c.agent].node, k, session, "after the concurrent registrations of the session")?;
                self.count("contents_read_back_after_concurrent_registration", 1);
                k += 1;
            }
        }
        Ok(())
    }

    fn session<F: Fn() -> Result<S, StoreError>>(&mut self, open: &F, session: usize) -> Result<(), Stop> {
        let sp = &self.plan.sessions[session];
        let server = open().map_err(|e| store_stop(if session == 0 { "open" } else { "reopen" }, &e, json!({ "session": session })))?;
        let plane = server.open_plane(PLANE).map_err(|e| store_stop("open_plane", &e, json!({ "session": session })))?;
        self.verify_known(&plane, session)?;
        self.register_fresh(&plane, session, sp.fresh)?;
        self.concurrent(&plane, session, sp)?;
        // Step 5: every node store is gone by now; the plane and the server close the database.
        drop(plane);
        drop(server);
        self.count("sessions", 1);
        Ok(())
    }
}

/// What one case produced, in a form that crosses a process boundary (the cases of this part run
/// in child processes, see `main.rs`).
pub struct CaseResult {
    pub events: u64,
    pub counters: BTreeMap<String, u64>,
    /// Hash of the plan and of the observed thread order of the identifiers.
    pub distinct: u64,
    pub nontrivial: bool,
    pub sample: Json,
    /// (signature, what, detail)
    pub violation: Option<(String, String, Json)>,
    pub inconclusive: Option<String>,
}

impl CaseResult {
    pub fn to_json(&self) -> Json {
        json!({
            "events": self.events,
            "counters": self.counters,
            "distinct": self.distinct.to_string(),
            "nontrivial": self.nontrivial,
            "sample": self.sample,
            "violation": self.violation.as_ref().map(|(sig, what, detail)| json!({ "sig": sig, "what": what, "detail": detail })),
            "inconclusive": self.inconclusive,
        })
    }

    pub fn from_json(j: &Json) -> Option<CaseResult> {
        Some(CaseResult {
            events: j["events"].as_u64()?,
            counters: j["counters"].as_object()?.iter().map(|(k, v)| (k.clone(), v.as_u64().unwrap_or(0))).collect(),
            distinct: j["distinct"].as_str()?.parse().ok()?,
            nontrivial: j["nontrivial"].as_bool()?,
            sample: j["sample"].clone(),
            violation: match &j["violation"] {
                Json::Null => None,
                v => Some((v["sig"].as_str()?.to_string(), v["what"].as_str()?.to_string(), v["detail"].clone())),
            },
            inconclusive: j["inconclusive"].as_str().map(str::to_string),
        })
    }

    /// Move the result into the output of the case.
    pub fn report(self, case: u64, out: &mut CaseOut) {
        out.events += self.events;
        for (k, v) in &self.counters {
            out.add(k, *v);
        }
        out.sig(&self.distinct);
        out.nontrivial = self.nontrivial;
        if case < 3 {
            out.set_sample(self.sample);
        }
        if let Some((sig, what, detail)) = self.violation {
            out.violation(P, sig, what, detail);
        }
        if let Some(why) = self.inconclusive {
            out.inconclusive(why);
        }
    }
}

/// Run one case on the store that `open` opens (and reopens).
pub fn run_case<S, F>(open: F, plan: &Plan) -> CaseResult
where
    S: ServerPersistence,
    F: Fn() -> Result<S, StoreError>,
{
    let mut c: Case<'_, S> = Case {
        plan,
        known: Vec::new(),
        serial: 0,
        events: 0,
        counters: BTreeMap::new(),
        schedule: Vec::new(),
        sessions_with_overlap: 0,
        reopen_checks: 0,
    };
    let mut stopped = None;
    for s in 0..plan.sessions.len() {
        if let Err(stop) = c.session(&open, s) {
            stopped = Some(stop);
            break;
        }
    }
    // One more open at the end: the last session's registrations survive the close as well.
    if stopped.is_none() {
        let last = plan.sessions.len();
        let r = open()
            .map_err(|e| store_stop("reopen", &e, json!({ "session": last })))
            .and_then(|server| {
                let plane = server.open_plane(PLANE).map_err(|e| store_stop("open_plane", &e, json!({ "session": last })))?;
                c.verify_known(&plane, last)
            });
        stopped = r.err();
    }
    let mut h = Fnv::default();
    plan.hash(&mut h);
    c.schedule.hash(&mut h);
    let (violation, inconclusive) = match stopped {
        Some(Stop::Violation { sig, what, detail }) => (Some((sig, what, detail)), None),
        Some(Stop::Inconclusive(why)) => (None, Some(why)),
        None => (None, None),
    };
    let completed = c.counters.get("sessions").copied().unwrap_or(0) == plan.sessions.len() as u64;
    CaseResult {
        events: c.events,
        distinct: h.finish(),
        nontrivial: violation.is_some() || (completed && c.sessions_with_overlap > 0 && c.reopen_checks > 0),
        sample: json!({
            "item_kind": c.kind(),
            "sessions": plan.sessions.iter().take(4).map(|s| json!({
                "new_names_sequential": s.fresh,
                "threads": s.threads.iter().map(|t| json!({"names_per_agent": t.agents, "write_between": t.write_between, "asks_old_name": t.revisit.is_some()})).collect::<Vec<_>>(),
            })).collect::<Vec<_>>(),
            "ids_of_first_sessions_by_thread": c.schedule.iter().take(4).collect::<Vec<_>>(),
            "first_names": c.known.iter().take(6).map(|k| k.describe()).collect::<Vec<_>>(),
        }),
        counters: c.counters.iter().map(|(k, v)| (k.to_string(), *v)).collect(),
        violation,
        inconclusive,
    }
}
