//! Engine `store` (C13): the in-memory store and the RocksDB store, driven through
//! `swimos_api::persistence::{ServerPersistence, PlanePersistence, NodePersistence, RangeConsumer}`
//! and monitored against a reference `(agent URI, item name) -> value | map`.
//!
//! Parts:
//!  * `mem`          – `InMemoryPlanePersistence`: random histories over 2-4 agents x 2-5 items with
//!                     adversarial names/keys, including dropping and reopening node stores and the
//!                     Idle/InUse hand-over (request while in use; waiter cancelled; two waiters).
//!  * `rocks-reopen` – `open_rocks_store` on a scratch directory: the same histories with *reopen
//!                     points* (every handle dropped, directory reopened) at seeded positions, or
//!                     after every operation (thorough tier, every other case).
//!  * `rocks-kill`   – a writer child process (`store --writer <dir> <seed>`) executes the script
//!                     and acknowledges each step on stdout; the parent SIGKILLs it at a seeded
//!                     moment, reopens the directory and requires every acknowledged step to be
//!                     reflected (the single step in flight may or may not be), then keeps using the
//!                     recovered store under the model.
//!
//!  * `rocks-concurrent-ids` – several threads register new names of their own agents at the same
//!                     time, over many open/close sessions of one directory (concurrent.rs); every
//!                     case runs in a child process (`store --concurrent-case <dir> <seed> <tier>`),
//!                     `--concurrent-in-process 1` keeps the cases in this process.
//!
//!  * `mem-kinds`, `rocks-kinds` – *kind confusion*: histories in which value operations are also
//!                     issued through the identifier of an item used as a map and map operations
//!                     through the identifier of an item used as a value. A store may refuse such an
//!                     operation (`InvalidOperation`, the in-memory store) – then nothing may have
//!                     changed – or accept it (RocksDB keeps values and maps in separate column
//!                     families) – then it must be reflected by the later reads of that kind and the
//!                     item's data of the other kind must be untouched. Every item is audited
//!                     through both kinds of read. `rocks-kinds` has reopen points and tries to open
//!                     the directory a second time while it is open.
//!  * `rocks-transient` – `open_rocks_store(None, ..)` (store in a temporary directory): the same
//!                     model, next to a second temporary store holding markers under the same names.
//!  * `disabled`     – `StoreDisabled` (the store that stores nothing) under the weakened model
//!                     "a read never returns what was not written" (extras.rs).
//!
//! A share of the `rocks-reopen` histories are *stride histories*: live items whose identifiers are
//! an exact multiple of 256 apart (filler names registered in between), many `clear_map`s, every
//! item read after each clear.
//!
//! `--only <part>[,<part>]` restricts the run to some parts (used for the valgrind pass).

mod concurrent;
mod extras;
mod foreign;
mod runner;
mod script;

use std::hash::{Hash, Hasher};
use std::io::{BufRead, BufReader, Read, Write};
use std::path::PathBuf;
use std::process::{Command, Stdio};
use std::time::{Duration, Instant};

use common::{json, CaseOut, Fnv, Json, Rng, Session};
use runner::{Backend, Runner};
use script::{expand, gen_ops, gen_script, gen_script_stride, GenParams, Model, Op, Spec, Step};
use swimos_api::error::StoreError;
use swimos_api::persistence::ServerPersistence;
use swimos_rocks_store::{default_db_opts, open_rocks_store};
use swimos_server_app::verif_hooks::InMemoryPlanePersistence;

const P: &str = "C13";
const PLANE: &str = "plane";

// ------------------------------------------------------------------------------------------------
// Backends

#[derive(Default)]
struct MemBackend {
    plane: InMemoryPlanePersistence,
}

impl Backend for MemBackend {
    type Plane = InMemoryPlanePersistence;

    fn open(&mut self) -> Result<Self::Plane, StoreError> {
        // The plane persistence *is* the store: every clone shares the one state.
        Ok(self.plane.clone())
    }

    fn closed(&mut self) {}
}

struct RocksBackend<S, F> {
    open_fn: F,
    server: Option<S>,
    /// The directory `open_fn` opens (`None`: a new temporary directory per call).
    dir: Option<PathBuf>,
}

impl<S, F> Backend for RocksBackend<S, F>
where
    S: ServerPersistence,
    F: Fn() -> Result<S, StoreError>,
{
    type Plane = S::PlaneStore;

    fn open(&mut self) -> Result<Self::Plane, StoreError> {
        let server = (self.open_fn)()?;
        let plane = server.open_plane(PLANE)?;
        self.server = Some(server);
        Ok(plane)
    }

    fn closed(&mut self) {
        self.server = None;
    }

    fn second_open(&mut self) -> Option<Result<(), StoreError>> {
        if self.dir.is_none() || self.server.is_none() {
            return None;
        }
        Some((self.open_fn)().and_then(|server| server.open_plane(PLANE).map(|_plane| ())))
    }

    fn foreign_map_key(&mut self, key: &[u8], value: &[u8]) -> Option<Result<(), String>> {
        let dir = self.dir.as_ref()?;
        if self.server.is_some() {
            return Some(Err("the store is still open".to_string()));
        }
        Some(foreign::put_raw_map_key(dir, PLANE, key, value))
    }
}

fn mk_rocks<S: ServerPersistence, F: Fn() -> Result<S, StoreError>>(open_fn: F, dir: Option<PathBuf>) -> RocksBackend<S, F> {
    RocksBackend { open_fn, server: None, dir }
}

fn rocks_backend(dir: PathBuf) -> impl Backend {
    let d = dir.clone();
    mk_rocks(move || open_rocks_store(Some(d.clone()), default_db_opts()), Some(dir))
}

/// `open_rocks_store` without a path: a database in a temporary directory of its own, which lives
/// as long as the server store (one per `open`; there is nothing to reopen).
fn transient_backend() -> impl Backend {
    mk_rocks(|| open_rocks_store(None, default_db_opts()), None)
}

/// Scratch directory of one case, removed when the case ends (also on a violation or a panic).
struct Scratch(PathBuf);

impl Scratch {
    fn new(part: &str, case: u64) -> Scratch {
        let p = std::env::temp_dir().join(format!("verif-store-{}-{}-{}", std::process::id(), part, case));
        let _ = std::fs::remove_dir_all(&p);
        Scratch(p)
    }
}

impl Drop for Scratch {
    fn drop(&mut self) {
        let _ = std::fs::remove_dir_all(&self.0);
    }
}

// ------------------------------------------------------------------------------------------------
// Generation parameters of the parts

const BASE: GenParams = GenParams { equal_concat_pct: 12, min_ops: 30, max_ops: 140, reopen_weight: 0, handover: false, big_value_pct: 0, clear_extra: 0, audit_after_clear: false, cross_pct: 0, second_open_weight: 0 };
const MEM: GenParams = GenParams { handover: true, ..BASE };
const REOPEN: GenParams = GenParams { min_ops: 25, max_ops: 110, ..BASE };
const REOPEN_EVERY: GenParams = GenParams { min_ops: 15, max_ops: 45, ..BASE };
/// Stride histories (`gen_script_stride`): items whose identifiers are a multiple of 256 apart, all
/// holding data, many clears, everything read after each clear. No deliberate equal-concatenation
/// pair: the two names of such a pair share one identifier, which would shift the arrangement.
const STRIDE: GenParams = GenParams { equal_concat_pct: 0, min_ops: 20, max_ops: 70, clear_extra: 4, audit_after_clear: true, ..BASE };
const STRIDE_EVERY: GenParams = GenParams { min_ops: 8, max_ops: 25, ..STRIDE };
/// The writer child: no deliberate equal-concatenation pair (that defect would hide crash defects),
/// some database reopens inside the child, some large values (long-running writes).
const KILL: GenParams = GenParams { equal_concat_pct: 0, min_ops: 30, max_ops: 120, reopen_weight: 3, big_value_pct: 6, ..BASE };
const AFTER_KILL: GenParams = GenParams { equal_concat_pct: 0, min_ops: 15, max_ops: 40, reopen_weight: 2, ..BASE };

/// Kind-confusion histories (see the module documentation). No deliberate equal-concatenation pair:
/// that defect (D14) has its own parts.
const MEM_KINDS: GenParams = GenParams { equal_concat_pct: 0, handover: true, cross_pct: 18, ..BASE };
const ROCKS_KINDS: GenParams = GenParams { equal_concat_pct: 0, min_ops: 25, max_ops: 100, cross_pct: 15, second_open_weight: 2, ..BASE };
const TRANSIENT: GenParams = GenParams { equal_concat_pct: 0, min_ops: 30, max_ops: 120, cross_pct: 6, ..BASE };
const FOREIGN: GenParams = GenParams { equal_concat_pct: 0, min_ops: 12, max_ops: 30, ..BASE };
const DISABLED: GenParams = GenParams { equal_concat_pct: 0, min_ops: 30, max_ops: 120, cross_pct: 10, ..BASE };

fn fold_steps(out: &mut CaseOut, spec: &Spec, steps: &[Step]) {
    let mut h = Fnv::default();
    format!("{:?}", spec).hash(&mut h);
    for s in steps {
        s.name().hash(&mut h);
        s.target().hash(&mut h);
        let (s, cross) = s.data_op();
        if cross {
            "other-kind".hash(&mut h);
        }
        match s {
            Step::Put(_, _, v) => (v.len(), &v[..v.len().min(4)]).hash(&mut h),
            Step::Upd(_, _, k, v) => (k, v.len(), &v[..v.len().min(4)]).hash(&mut h),
            Step::Rem(_, _, k) => k.hash(&mut h),
            Step::Burn(n) => n.hash(&mut h),
            _ => {}
        }
    }
    out.sig(&h.finish());
}

/// Move what a runner observed into the case output.
fn report<B: Backend>(r: &mut Runner<'_, B>, out: &mut CaseOut, note: &str) {
    out.events += r.events;
    for (k, v) in &r.counters {
        out.add(k, *v);
    }
    for v in r.viols.drain(..) {
        let what = if note.is_empty() { v.what } else { format!("{} ({note})", v.what) };
        out.violation(P, v.sig, what, v.detail);
    }
    if let Some(why) = r.inconclusive.take() {
        out.inconclusive(why);
    }
}

fn run_steps<'s, B: Backend>(r: &mut Runner<'s, B>, steps: &'s [Step], out: &mut CaseOut) -> bool {
    for s in steps {
        match s {
            Step::ReopenDb => {
                out.count("reopen_points");
                if r.model.cells.iter().flatten().any(|c| *c != script::Cell::Value(None) && *c != script::Cell::Map(Default::default())) {
                    out.count("reopen_points_with_data_in_store");
                }
            }
            Step::Drop(_) => out.count("node_store_dropped"),
            Step::Open(_) => out.count("node_store_opened"),
            Step::IdFor(..) => out.count("id_for_calls"),
            Step::Clear(..) => out.count("clear_map_calls"),
            _ => {}
        }
        if !r.exec(s) {
            return false;
        }
    }
    true
}

fn sample_of(spec: &Spec, steps: &[Step], keys: &[Vec<u8>]) -> Json {
    json!({
        "spec": spec.describe(),
        "key_pool": keys.iter().take(12).map(|k| script::esc(k)).collect::<Vec<_>>(),
        "steps": steps.len(),
        "first_steps": steps.iter().take(8).map(|s| s.describe(spec)).collect::<Vec<_>>(),
    })
}

// ------------------------------------------------------------------------------------------------
// Part: in-memory

fn case_mem(case: u64, rng: &mut Rng, out: &mut CaseOut) {
    let sc = gen_script(rng.next_u64(), &MEM);
    let steps = expand(&sc.spec, &sc.ops);
    fold_steps(out, &sc.spec, &steps);
    let mut r = Runner::new(&sc.spec, MemBackend::default());
    r.context = json!("InMemoryPlanePersistence::default(), one plane");
    let done = run_steps(&mut r, &steps, out);
    let handed_over = steps.iter().any(|s| matches!(s, Step::Drop(_) | Step::Handover(..)));
    let read_data = r.counters.get("read_map_entries_ok").copied().unwrap_or(0) + r.counters.get("get_value_some_ok").copied().unwrap_or(0) > 0;
    out.nontrivial = (done && handed_over && read_data) || !r.viols.is_empty();
    if sc.spec.has_equal_concat_pair() {
        out.count("specs_with_equal_concatenation_pair");
    }
    if case < 3 {
        out.set_sample(sample_of(&sc.spec, &steps, &sc.keys));
    }
    report(&mut r, out, "");
}

// ------------------------------------------------------------------------------------------------
// Part: RocksDB with reopen points

fn case_rocks_reopen(case: u64, rng: &mut Rng, out: &mut CaseOut, thorough: bool) {
    let every = thorough && case % 2 == 0;
    // Three histories in eight are stride histories (in the thorough tier one of the three also
    // reopens after every operation).
    let stride = case % 4 == 1 || case % 8 == 2;
    let sc = match (stride, every) {
        (false, false) => gen_script(rng.next_u64(), &REOPEN),
        (false, true) => gen_script(rng.next_u64(), &REOPEN_EVERY),
        (true, false) => gen_script_stride(rng.next_u64(), &STRIDE),
        (true, true) => gen_script_stride(rng.next_u64(), &STRIDE_EVERY),
    };
    if stride {
        out.count("stride_histories");
    }
    // Insert the reopen points into the generated history.
    let mut ops: Vec<Op> = Vec::new();
    if every {
        // (Inside the scene-setting prologue of a stride history: after every fifth operation.)
        for (k, op) in sc.ops.iter().enumerate() {
            ops.push(op.clone());
            if k >= sc.prologue || k % 5 == 4 {
                ops.push(Op::Reopen);
            }
        }
        out.count("histories_with_reopen_after_every_operation");
    } else {
        let n = sc.ops.len();
        let mut at: Vec<usize> = (0..3).map(|_| rng.usize_below(n)).collect();
        if thorough {
            at.extend((0..n).filter(|_| rng.chance(1, 10)));
        }
        for (k, op) in sc.ops.iter().enumerate() {
            ops.push(op.clone());
            if at.contains(&k) {
                ops.push(Op::Reopen);
            }
        }
    }
    // The final state is always audited once more after a last close/reopen.
    ops.push(Op::Reopen);
    ops.push(Op::Audit);
    let steps = expand(&sc.spec, &ops);
    fold_steps(out, &sc.spec, &steps);
    let scratch = Scratch::new("reopen", case);
    let mut r = Runner::new(&sc.spec, rocks_backend(scratch.0.clone()));
    r.context = json!("open_rocks_store(Some(scratch dir), default_db_opts()), one plane; reopen = drop every node store, the plane store and the server store, then open the same directory");
    // Every sixth history starts beyond the one-byte identifiers (varint ids >= 128, second
    // little-endian byte of the key prefix in use from 256).
    if rng.chance(1, 6) {
        let n = *rng.pick(&[130usize, 260, 300]);
        r.burn_ids(n);
        out.count("histories_starting_beyond_one_byte_ids");
    }
    let done = run_steps(&mut r, &steps, out);
    r.check_burned();
    r.close_all();
    let with_data = out.counters.get("reopen_points_with_data_in_store").copied().unwrap_or(0) > 0;
    out.nontrivial = (done && with_data) || !r.viols.is_empty();
    if sc.spec.has_equal_concat_pair() {
        out.count("specs_with_equal_concatenation_pair");
    }
    if case < 3 {
        out.set_sample(sample_of(&sc.spec, &steps, &sc.keys));
    }
    report(&mut r, out, "");
}

// ------------------------------------------------------------------------------------------------
// Parts: kind confusion (in-memory; RocksDB with reopen points), RocksDB in a temporary directory

fn counter(r: &std::collections::BTreeMap<String, u64>, prefix: &str) -> u64 {
    r.iter().filter(|(k, _)| k.starts_with(prefix)).map(|(_, v)| *v).sum()
}

fn case_mem_kinds(case: u64, rng: &mut Rng, out: &mut CaseOut) {
    let sc = gen_script(rng.next_u64(), &MEM_KINDS);
    let steps = expand(&sc.spec, &sc.ops);
    fold_steps(out, &sc.spec, &steps);
    let mut r = Runner::new(&sc.spec, MemBackend::default());
    r.kinds_mode = true;
    r.context = json!("InMemoryPlanePersistence::default(), one plane; value operations also through identifiers of map items and map operations through identifiers of value items");
    let done = run_steps(&mut r, &steps, out);
    let confused = counter(&r.counters, "refused_InvalidOperation/") + counter(&r.counters, "other_kind_accepted/");
    let read_data = r.counters.get("read_map_entries_ok").copied().unwrap_or(0) + r.counters.get("get_value_some_ok").copied().unwrap_or(0) > 0;
    out.nontrivial = (done && confused > 0 && read_data) || !r.viols.is_empty();
    if case < 3 {
        out.set_sample(sample_of(&sc.spec, &steps, &sc.keys));
    }
    report(&mut r, out, "");
}

fn case_rocks_kinds(case: u64, rng: &mut Rng, out: &mut CaseOut, thorough: bool) {
    let sc = gen_script(rng.next_u64(), &ROCKS_KINDS);
    let n = sc.ops.len();
    let mut at: Vec<usize> = (0..3).map(|_| rng.usize_below(n)).collect();
    if thorough {
        at.extend((0..n).filter(|_| rng.chance(1, 10)));
    }
    let mut ops: Vec<Op> = Vec::new();
    for (k, op) in sc.ops.iter().enumerate() {
        ops.push(op.clone());
        if at.contains(&k) {
            ops.push(Op::Reopen);
        }
    }
    ops.push(Op::Reopen);
    ops.push(Op::AuditBoth);
    let steps = expand(&sc.spec, &ops);
    fold_steps(out, &sc.spec, &steps);
    let scratch = Scratch::new("kinds", case);
    let mut r = Runner::new(&sc.spec, rocks_backend(scratch.0.clone()));
    r.kinds_mode = true;
    r.context = json!("open_rocks_store(Some(scratch dir), default_db_opts()), one plane; value operations also through identifiers of map items and map operations through identifiers of value items; reopen = drop every handle, then open the same directory");
    if rng.chance(1, 6) {
        r.burn_ids(*rng.pick(&[130usize, 260]));
        out.count("histories_starting_beyond_one_byte_ids");
    }
    let done = run_steps(&mut r, &steps, out);
    r.close_all();
    let with_data = out.counters.get("reopen_points_with_data_in_store").copied().unwrap_or(0) > 0;
    let confused = counter(&r.counters, "refused_InvalidOperation/") + counter(&r.counters, "other_kind_accepted/");
    out.nontrivial = (done && with_data && confused > 0) || !r.viols.is_empty();
    if case < 3 {
        out.set_sample(sample_of(&sc.spec, &steps, &sc.keys));
    }
    report(&mut r, out, "");
}

fn case_rocks_transient(case: u64, rng: &mut Rng, out: &mut CaseOut) {
    let sc = gen_script(rng.next_u64(), &TRANSIENT);
    let steps = expand(&sc.spec, &sc.ops);
    fold_steps(out, &sc.spec, &steps);
    // A second temporary store, opened first and read last: the same plane, agent and item names,
    // holding markers of its own.
    let side = match open_rocks_store(None, default_db_opts()) {
        Ok(server) => extras::SideStore::open(server, PLANE, &sc.spec),
        Err(e) => Err(("open_rocks_store", e)),
    };
    let side = match side {
        Ok(s) => s,
        Err((op, e)) => {
            return match runner::classify_store_error(op, &e) {
                Err(why) => out.inconclusive(why),
                Ok((sig, what)) => {
                    out.nontrivial = true;
                    out.violation(P, format!("transient/{sig}"), format!("second temporary store: {what}"), json!({"spec": sc.spec.describe()}))
                }
            };
        }
    };
    let mut r = Runner::new(&sc.spec, transient_backend());
    r.kinds_mode = true;
    r.context = json!("open_rocks_store(None, default_db_opts()): database in a temporary directory, one plane, never reopened; a second such store is open at the same time");
    let done = run_steps(&mut r, &steps, out);
    if done {
        match side.verify() {
            Ok(n) => {
                out.events += n;
                out.count("second_temporary_store_holds_exactly_its_own_markers");
            }
            Err(extras::SideError::Store(op, e)) => match runner::classify_store_error(op, &e) {
                Err(why) => out.inconclusive(why),
                Ok((sig, what)) => out.violation(P, format!("transient/{sig}"), format!("second temporary store: {what}"), json!({"spec": sc.spec.describe()})),
            },
            Err(extras::SideError::Differs(what)) => out.violation(
                P,
                "transient/second-store-content-differs",
                "a second store opened by open_rocks_store(None, ..) does not hold exactly what was written into it while another temporary store was written under the same names",
                json!({"spec": sc.spec.describe(), "difference": what}),
            ),
        }
    }
    drop(side);
    r.close_all();
    let read_data = r.counters.get("read_map_entries_ok").copied().unwrap_or(0) + r.counters.get("get_value_some_ok").copied().unwrap_or(0) > 0;
    out.nontrivial = (done && read_data) || !r.viols.is_empty() || !out.violations.is_empty();
    if case < 3 {
        out.set_sample(sample_of(&sc.spec, &steps, &sc.keys));
    }
    report(&mut r, out, "");
}

/// A malformed key under the prefix of one map item, written by a foreign writer while the store
/// is closed. No history over the persistence traits produces such a key, so the statement only
/// decides the surroundings: every other item answers by the model, the read of the item that was
/// hit either fails (`InvalidKey`, counted) or returns exactly the item's entries, an accepted
/// `clear_map` of the item makes it readable again, identifiers are unchanged, nothing panics.
fn case_rocks_foreign(case: u64, rng: &mut Rng, out: &mut CaseOut) {
    let mut sc = gen_script(rng.next_u64(), &FOREIGN);
    let all: Vec<(usize, usize)> = (0..sc.spec.agents.len()).flat_map(|a| (0..sc.spec.agents[a].items.len()).map(move |i| (a, i))).collect();
    let (a, i) = *rng.pick(&all);
    if !sc.spec.agents[a].items[i].map {
        // The item that is hit must be a map; regenerate the operations for the changed spec.
        sc.spec.agents[a].items[i].map = true;
        sc.ops = gen_ops(rng, &sc.spec, &sc.keys, &FOREIGN, 0);
        sc.ops.push(Op::Audit);
    }
    let variant = rng.below(4) as u8;
    out.sig(&(a, i, variant));
    let mut ops = sc.ops.clone();
    if rng.chance(2, 3) {
        // Mostly: entries around the malformed key.
        for s in 0..rng.range(1, 3) as u32 {
            ops.push(Op::Upd(a, i, rng.pick(&sc.keys).clone(), (2_000_000 + s).to_le_bytes().to_vec()));
        }
    }
    ops.push(Op::Foreign(a, i, variant));
    ops.push(Op::Audit);
    ops.extend(gen_ops(rng, &sc.spec, &sc.keys, &FOREIGN, 1_000_000));
    ops.push(Op::Audit);
    ops.push(Op::Clear(a, i));
    ops.push(Op::Audit);
    ops.extend(gen_ops(rng, &sc.spec, &sc.keys, &FOREIGN, 3_000_000));
    ops.push(Op::Reopen);
    ops.push(Op::Audit);
    let steps = expand(&sc.spec, &ops);
    fold_steps(out, &sc.spec, &steps);
    let scratch = Scratch::new("foreign", case);
    let mut r = Runner::new(&sc.spec, rocks_backend(scratch.0.clone()));
    r.context = json!("open_rocks_store(Some(scratch dir), default_db_opts()), one plane; while the store is closed a foreign writer (the rocksdb crate directly) puts one key shorter than a well-formed map key under the key prefix of one map item into the column family map_lanes");
    let done = run_steps(&mut r, &steps, out);
    r.close_all();
    let judged = counter(&r.counters, "foreign_short_key/consume_next_answered") + counter(&r.counters, "foreign_short_key/read_map_");
    out.nontrivial = (done && judged > 0 && r.counters.contains_key("foreign_short_key/clear_map_accepted")) || !r.viols.is_empty();
    if case < 3 {
        out.set_sample(sample_of(&sc.spec, &steps, &sc.keys));
    }
    report(&mut r, out, "");
}

fn case_disabled(case: u64, rng: &mut Rng, out: &mut CaseOut) {
    let sc = gen_script(rng.next_u64(), &DISABLED);
    let steps = expand(&sc.spec, &sc.ops);
    fold_steps(out, &sc.spec, &steps);
    extras::run_disabled(&sc.spec, &steps, out);
    if case < 3 {
        out.set_sample(sample_of(&sc.spec, &steps, &sc.keys));
    }
}

// ------------------------------------------------------------------------------------------------
// Part: RocksDB, names registered concurrently, across reopen (see concurrent.rs)

/// Everything about a case is derived from `seed`, in the parent and in the child alike.
fn concurrent_case(dir: PathBuf, seed: u64, thorough: bool) -> concurrent::CaseResult {
    let mut rng = Rng::new(seed);
    let n_sessions = if thorough { rng.range(12, 24) } else { rng.range(8, 14) } as usize;
    let plan = concurrent::gen_plan(&mut rng, n_sessions);
    concurrent::run_case(move || open_rocks_store(Some(dir.clone()), default_db_opts()), &plan)
}

/// `store --concurrent-case <dir> <seed> <quick|thorough>`: run one case, print the result as one
/// line of JSON. Cases run in child processes because opening and closing RocksDB databases does
/// not scale over the threads of one process (about 110 open/close cycles per second in total,
/// whatever the number of threads; separate processes do scale).
fn concurrent_child_main(dir: &str, seed: &str, tier: &str) -> ! {
    let seed: u64 = seed.parse().unwrap_or_else(|_| std::process::exit(2));
    let res = concurrent_case(PathBuf::from(dir), seed, tier == "thorough");
    let line = format!("r {}\n", res.to_json());
    let mut o = std::io::stdout().lock();
    let _ = o.write_all(line.as_bytes());
    let _ = o.flush();
    std::process::exit(0)
}

fn case_rocks_concurrent(case: u64, rng: &mut Rng, out: &mut CaseOut, thorough: bool, in_process: bool) {
    let seed = rng.next_u64();
    let scratch = Scratch::new("conc", case);
    if in_process {
        return concurrent_case(scratch.0.clone(), seed, thorough).report(case, out);
    }
    let exe = match std::env::current_exe() {
        Ok(e) => e,
        Err(e) => return out.inconclusive(format!("current_exe: {e}")),
    };
    let child = Command::new(exe)
        .arg("--concurrent-case")
        .arg(&scratch.0)
        .arg(seed.to_string())
        .arg(if thorough { "thorough" } else { "quick" })
        .stdin(Stdio::null())
        .stdout(Stdio::piped())
        .stderr(Stdio::piped())
        .output();
    let output = match child {
        Ok(o) => o,
        Err(e) => return out.inconclusive(format!("cannot run the child process of the case: {}", e.kind())),
    };
    let stdout = String::from_utf8_lossy(&output.stdout);
    let result = stdout
        .lines()
        .find_map(|l| l.strip_prefix("r "))
        .and_then(|l| serde_json::from_str::<Json>(l).ok())
        .and_then(|j| concurrent::CaseResult::from_json(&j));
    match result {
        Some(res) => res.report(case, out),
        None => {
            // No result: the child died (a panic or an abort inside the store).
            let stderr_text = String::from_utf8_lossy(&output.stderr);
            let first = stderr_text.lines().find(|l| !l.trim().is_empty()).unwrap_or("").to_string();
            out.violation(
                P,
                format!("concurrent-child-died/{}", common::sanitize_sig(&first)),
                format!("the process running the case terminated without a result ({})", output.status),
                json!({"stderr": stderr_text.chars().take(2000).collect::<String>(), "case_seed": seed}),
            );
            out.nontrivial = true;
        }
    }
}

// ------------------------------------------------------------------------------------------------
// Part: RocksDB, SIGKILL of a writer child

/// Everything both the parent and the writer child derive from the script seed.
struct KillScript {
    spec: Spec,
    keys: Vec<Vec<u8>>,
    steps: Vec<Step>,
}

fn kill_script(seed: u64) -> KillScript {
    let sc = gen_script(seed, &KILL);
    let steps = expand(&sc.spec, &sc.ops);
    KillScript { spec: sc.spec, keys: sc.keys, steps }
}

/// The writer child: `store --writer <dir> <script-seed>`. Protocol on stdout (one `write` per
/// line, flushed): `ready`, then per step `s <n>` before the call and `a <n> [<id>]` after it
/// returned, `v <json>` for a violation seen by the child's own monitor, `done` at the end.
fn writer_main(dir: &str, seed: &str) -> ! {
    let seed: u64 = seed.parse().unwrap_or_else(|_| std::process::exit(2));
    let ks = kill_script(seed);
    let mut r = Runner::new(&ks.spec, rocks_backend(PathBuf::from(dir)));
    r.context = json!("writer child (store --writer <scratch dir> <script seed>)");
    let stdout = std::io::stdout();
    let say = |line: String| {
        let mut o = stdout.lock();
        let _ = o.write_all(line.as_bytes());
        let _ = o.flush();
    };
    if r.open_db() {
        say("ready\n".to_string());
        for (n, s) in ks.steps.iter().enumerate() {
            say(format!("s {n}\n"));
            let ok = r.exec(s);
            if !ok {
                break;
            }
            match s {
                Step::IdFor(..) => say(format!("a {n} {}\n", r.last_id_text.clone().unwrap_or_default())),
                _ => say(format!("a {n}\n")),
            }
        }
    }
    for v in &r.viols {
        say(format!("v {}\n", json!({"sig": v.sig, "what": v.what, "detail": v.detail})));
    }
    if let Some(why) = &r.inconclusive {
        say(format!("i {why}\n"));
    }
    r.close_all();
    say("done\n".to_string());
    std::process::exit(0)
}

fn spin(d: Duration) {
    let t = Instant::now();
    while t.elapsed() < d {
        std::hint::spin_loop();
    }
}

fn case_rocks_kill(case: u64, rng: &mut Rng, out: &mut CaseOut) {
    let seed = rng.next_u64();
    let ks = kill_script(seed);
    fold_steps(out, &ks.spec, &ks.steps);
    let n_steps = ks.steps.len();

    // The fault plan (seeded): where the kill is triggered.
    let during_open = rng.chance(1, 20);
    let target = rng.usize_below(n_steps);
    let on_start = rng.chance(3, 5);
    let delay = Duration::from_nanos(rng.range(0, 150_000));
    let open_delay = Duration::from_micros(rng.range(0, 30_000));
    out.sig(&(during_open, target, on_start));

    // Steps of the parent after the kill: open everything, ask every identifier again; then a
    // continuation history on the recovered store.
    let mut verify: Vec<Step> = Vec::new();
    for a in 0..ks.spec.agents.len() {
        verify.push(Step::Open(a));
        for i in 0..ks.spec.agents[a].items.len() {
            verify.push(Step::IdFor(a, i));
        }
    }
    let mut cont_ops = vec![Op::Reopen];
    cont_ops.extend(gen_ops(&mut Rng::new(seed ^ 0x5151_5151), &ks.spec, &ks.keys, &AFTER_KILL, 1_000_000));
    cont_ops.push(Op::Reopen);
    cont_ops.push(Op::Audit);
    let cont = expand(&ks.spec, &cont_ops);

    let scratch = Scratch::new("kill", case);
    let exe = match std::env::current_exe() {
        Ok(e) => e,
        Err(e) => return out.inconclusive(format!("current_exe: {e}")),
    };
    let mut child = match Command::new(exe)
        .arg("--writer")
        .arg(&scratch.0)
        .arg(seed.to_string())
        .stdin(Stdio::null())
        .stdout(Stdio::piped())
        .stderr(Stdio::piped())
        .spawn()
    {
        Ok(c) => c,
        Err(e) => return out.inconclusive(format!("cannot spawn the writer child: {}", e.kind())),
    };
    let mut lines = BufReader::new(child.stdout.take().expect("piped stdout"));
    let mut last_started: Option<usize> = None;
    let mut last_acked: Option<usize> = None;
    let mut acked_ids: Vec<(usize, String)> = Vec::new();
    let mut child_viols: Vec<Json> = Vec::new();
    let mut child_inconclusive: Option<String> = None;
    let mut ready = false;
    let mut done = false;
    let mut killed = false;
    if during_open {
        spin(open_delay);
        let _ = child.kill();
        killed = true;
    }
    let mut line = String::new();
    loop {
        line.clear();
        match lines.read_line(&mut line) {
            Ok(0) | Err(_) => break,
            Ok(_) => {}
        }
        if !line.ends_with('\n') {
            break; // torn last line: never happens for single small writes, ignored if it does
        }
        let mut it = line.trim_end().splitn(3, ' ');
        let tag = it.next().unwrap_or("");
        match tag {
            "ready" => ready = true,
            "done" => done = true,
            "s" => last_started = it.next().and_then(|n| n.parse().ok()),
            "a" => {
                last_acked = it.next().and_then(|n| n.parse().ok());
                if let (Some(n), Some(id)) = (last_acked, it.next()) {
                    acked_ids.push((n, id.to_string()));
                }
            }
            "v" => {
                let rest = &line.trim_end()[2..];
                child_viols.push(serde_json::from_str(rest).unwrap_or(Json::String(rest.to_string())));
            }
            "i" => child_inconclusive = Some(line.trim_end()[2..].to_string()),
            _ => {}
        }
        if !killed {
            let hit = if on_start { tag == "s" && last_started == Some(target) } else { tag == "a" && last_acked == Some(target) };
            if hit {
                spin(delay);
                let _ = child.kill();
                killed = true;
            }
        }
    }
    let status = child.wait();
    let mut stderr_text = String::new();
    if let Some(mut e) = child.stderr.take() {
        let _ = e.read_to_string(&mut stderr_text);
    }
    out.events += last_acked.map_or(0, |n| n as u64 + 1);

    // The child's own monitor saw something: report it; the kill experiment is void.
    if !child_viols.is_empty() {
        for v in child_viols {
            out.violation(
                P,
                v["sig"].as_str().unwrap_or("writer-child/unparsed-violation").to_string(),
                format!("{} (observed inside the writer child)", v["what"].as_str().unwrap_or("")),
                v["detail"].clone(),
            );
        }
        out.nontrivial = true;
        return;
    }
    if let Some(why) = child_inconclusive {
        return out.inconclusive(format!("writer child: {why}"));
    }
    if done {
        // Cannot happen with target < n_steps unless the kill lost the race with the child's
        // last steps; the directory is then simply a cleanly closed database.
        out.count("child_finished_before_the_kill");
    } else if !killed {
        // The child died on its own (panic / abort inside the store).
        let code = match &status {
            Ok(s) => format!("{s}"),
            Err(e) => format!("{e}"),
        };
        let first = stderr_text.lines().find(|l| !l.trim().is_empty()).unwrap_or("").to_string();
        out.violation(
            P,
            format!("writer-child-died/{}", common::sanitize_sig(&first)),
            format!("the writer child terminated by itself ({code}) while executing the script"),
            json!({"stderr": stderr_text.chars().take(2000).collect::<String>(), "last_started": last_started, "last_acked": last_acked,
                   "spec": ks.spec.describe(),
                   "step_in_flight": last_started.map(|n| ks.steps[n].describe(&ks.spec))}),
        );
        out.nontrivial = true;
        return;
    }

    // Classify where the kill landed.
    let in_flight: Option<usize> = match (last_started, last_acked) {
        (Some(s), Some(a)) if s > a => Some(s),
        (Some(s), None) => Some(s),
        _ => None,
    };
    if !ready {
        out.count("kills_during_database_open");
    } else if done {
    } else if in_flight.is_some() {
        out.count("kills_with_an_operation_in_flight");
    } else {
        out.count("kills_between_operations");
    }
    if !done {
        out.count("kill_points");
    }
    if let Some(n) = in_flight {
        out.count(match &ks.steps[n] {
            Step::ReopenDb => "in_flight_kind_reopen_db",
            Step::IdFor(..) => "in_flight_kind_id_for",
            Step::Clear(..) => "in_flight_kind_clear_map",
            s if s.is_mutation() => "in_flight_kind_write",
            _ => "in_flight_kind_read_or_handle",
        });
    }

    // The reference after the kill: every acknowledged step applied; the step in flight is
    // allowed to be applied or not (never half: each step is one call on the store).
    let mut before = Model::new(&ks.spec);
    if let Some(a) = last_acked {
        for s in &ks.steps[..=a] {
            before.apply(s);
        }
    }
    let mut after = before.clone();
    if let Some(n) = in_flight {
        after.apply(&ks.steps[n]);
    }

    let mut r = Runner::new(&ks.spec, rocks_backend(scratch.0.clone()));
    let acked_writes: Vec<String> = last_acked
        .map(|a| {
            ks.steps[..=a]
                .iter()
                .enumerate()
                .filter(|(_, s)| s.is_mutation() || matches!(s, Step::ReopenDb))
                .map(|(n, s)| format!("#{n} {}", s.describe(&ks.spec)))
                .collect()
        })
        .unwrap_or_default();
    let tail = acked_writes.len().saturating_sub(20);
    r.context = json!({
        "what": "writer child executed the script on open_rocks_store(scratch dir), was SIGKILLed, and the directory was reopened in the parent",
        "script_seed": seed,
        "steps_in_script": n_steps,
        "last_acknowledged_step": last_acked,
        "step_in_flight": in_flight.map(|n| format!("#{n} {}", ks.steps[n].describe(&ks.spec))),
        "last_acknowledged_writes_of_the_child": &acked_writes[tail..],
    });
    for (n, id) in acked_ids {
        if let Step::IdFor(a, i) = &ks.steps[n] {
            r.expected_id_text[*a][*i] = Some(id);
        }
    }
    r.model = before.clone();
    if !run_steps(&mut r, &verify, out) {
        out.nontrivial = true;
        return report(&mut r, out, "first open after the kill");
    }
    for a in 0..ks.spec.agents.len() {
        for i in 0..ks.spec.agents[a].items.len() {
            let Ok(obs) = r.observe(a, i) else {
                out.nontrivial = true;
                return report(&mut r, out, "first read after the kill");
            };
            r.events += 1;
            let touched = in_flight.map_or(false, |n| ks.steps[n].is_mutation() && ks.steps[n].target() == Some((a, Some(i))));
            let d_before = runner::diff(&before.cells[a][i], &obs);
            if !touched {
                if let Some((sig, info)) = d_before {
                    r.violation(
                        format!("after-kill/{sig}"),
                        "after SIGKILL and reopen an item differs from what the acknowledged operations imply (the operation in flight, if any, was on another item)",
                        Some((a, Some(i))),
                        info,
                    );
                    out.nontrivial = true;
                    return report(&mut r, out, "");
                }
                continue;
            }
            let d_after = runner::diff(&after.cells[a][i], &obs);
            match (d_before, d_after) {
                (None, None) => out.count("in_flight_write_without_visible_effect"),
                (None, Some(_)) => out.count("in_flight_write_not_applied"),
                (Some(_), None) => {
                    out.count("in_flight_write_applied");
                    r.model.cells[a][i] = after.cells[a][i].clone();
                }
                (Some((sig, info)), Some((_, info_after))) => {
                    r.violation(
                        format!("after-kill/{sig}"),
                        "after SIGKILL and reopen the item written by the operation in flight equals neither the state before nor the state after that operation",
                        Some((a, Some(i))),
                        json!({"versus_before": info, "versus_after": info_after}),
                    );
                    out.nontrivial = true;
                    return report(&mut r, out, "");
                }
            }
        }
    }
    out.count("recovered_states_equal_to_model");
    // Keep using the recovered store.
    let finished = run_steps(&mut r, &cont, out);
    r.close_all();
    out.nontrivial = (finished && last_acked.is_some()) || !r.viols.is_empty();
    if case < 3 {
        out.set_sample(json!({"spec": ks.spec.describe(), "steps": n_steps, "last_acked": last_acked, "in_flight": in_flight.map(|n| ks.steps[n].describe(&ks.spec))}));
    }
    report(&mut r, out, "continuing on the store recovered after the kill");
}

// ------------------------------------------------------------------------------------------------

fn main() {
    // The writer child is the same binary; it must not create a Session (no report, no parsing).
    let argv: Vec<String> = std::env::args().collect();
    if argv.get(1).map(String::as_str) == Some("--writer") {
        if argv.len() != 4 {
            eprintln!("usage: store --writer <dir> <script-seed>");
            std::process::exit(2);
        }
        writer_main(&argv[2], &argv[3]);
    }
    if argv.get(1).map(String::as_str) == Some("--concurrent-case") {
        if argv.len() != 5 {
            eprintln!("usage: store --concurrent-case <dir> <seed> <quick|thorough>");
            std::process::exit(2);
        }
        concurrent_child_main(&argv[2], &argv[3], &argv[4]);
    }

    let mut s = Session::new("store");
    let only: Option<Vec<String>> = s.args.extra.get("only").map(|o| o.split(',').map(str::to_string).collect());
    let want = |n: &str| only.as_ref().map_or(true, |o| o.iter().any(|x| x == n));
    let thorough = s.args.thorough();

    if want("mem") {
        let n = s.args.budget(4_000, 200_000);
        s.part(
            "mem",
            "one seeded history per case on InMemoryPlanePersistence (2-4 agents x 2-5 items, adversarial names/keys, node stores dropped/reopened, Idle/InUse hand-over); every answer compared with the model, id_for stable and injective per agent; non-trivial when the history completed, contained a node-store drop or hand-over and at least one read returned stored data; distinct by hash of spec+steps",
            false,
            n,
            case_mem,
        );
    }
    if want("rocks-reopen") {
        let n = s.args.budget(300, 2_000);
        s.part(
            "rocks-reopen",
            "one seeded history per case on open_rocks_store(scratch dir) with reopen points (quick: 3 seeded + final; thorough: after every operation in every other case, else ~10% + 3 + final); every answer compared with the model before and after each reopen, ids stable across reopen; non-trivial when the history completed and at least one reopen happened with data in the store; distinct by hash of spec+steps",
            false,
            n,
            |c, rng, out| case_rocks_reopen(c, rng, out, thorough),
        );
    }
    if want("mem-kinds") {
        let n = s.args.budget(2_000, 100_000);
        s.part(
            "mem-kinds",
            "one seeded history per case on InMemoryPlanePersistence in which about one operation in six is of the other kind than the item is used with (put_value/get_value/delete_value through the identifier of a map item, update_map/remove_map/clear_map/read_map through the identifier of a value item), each followed by reads of the item (one time in three of every item) through both get_value and read_map; an InvalidOperation answer is accepted only while the item holds (or, after remove_map emptied it, may hold) data of the other kind, and after a refused write both representations of the item are read at once and must be unchanged; an accepted write must be reflected by the later reads of its kind and must not change the item's data of the other kind (read at once whenever such data exists or the write was of the other kind); plus everything the part mem checks; non-trivial when the history completed, at least one such operation was refused or accepted and a read returned stored data; distinct by hash of spec+steps",
            false,
            n,
            case_mem_kinds,
        );
    }
    if want("rocks-kinds") {
        let n = s.args.budget(56, 800);
        s.part(
            "rocks-kinds",
            "as mem-kinds on open_rocks_store(scratch dir) with reopen points (3 seeded + final; thorough: ~10% more), both representations of every item compared with the model before and after each reopen; about one step in fifty tries to open the directory a second time while it is open (refused or not, the open store must go on answering by the model); non-trivial when the history completed, a reopen happened with data in the store and at least one operation of the other kind was accepted or refused; distinct by hash of spec+steps",
            false,
            n,
            |c, rng, out| case_rocks_kinds(c, rng, out, thorough),
        );
    }
    if want("rocks-transient") {
        let n = s.args.budget(40, 600);
        s.part(
            "rocks-transient",
            "one seeded history per case (a few operations of the other kind included) on open_rocks_store(None, ..) - a database in a temporary directory - under the same model, while a second store opened the same way holds markers under the same plane, agent and item names; at the end the second store must hold exactly its markers; non-trivial when the history completed and a read returned stored data; distinct by hash of spec+steps",
            false,
            n,
            case_rocks_transient,
        );
    }
    if want("rocks-foreign-key") {
        let n = s.args.budget(24, 400);
        s.part(
            "rocks-foreign-key",
            "one seeded history per case on open_rocks_store(scratch dir); while the store is closed a foreign writer puts one malformed key (9, 10, 13 or 17 bytes: shorter than the fixed part of a map key) under the key prefix of one map item into the map column family; after the reopen every other item must answer by the model, read_map of the item that was hit must fail with InvalidKey (counted) or return exactly the item's entries, and after an accepted clear_map of that item it must answer by the model again (also across a last reopen); identifiers unchanged; non-trivial when the history completed, a read of the item was judged while the key was there and the clear_map was accepted; distinct by hash of spec+steps+item+key shape",
            false,
            n,
            case_rocks_foreign,
        );
    }
    if want("disabled") {
        let n = s.args.budget(400, 20_000);
        s.part(
            "disabled",
            "one seeded history per case on swimos_api::persistence::StoreDisabled through ServerPersistence/PlanePersistence/NodePersistence/RangeConsumer; the statement of C13 is about the two real stores, so only its weakening that holds for a store that stores nothing is checked: every call succeeds, get_value leaves the caller's buffer intact and returns nothing or the model's value, read_map returns no entry that the model does not hold; non-trivial when all seven data operations and id_for ran; distinct by hash of spec+steps",
            false,
            n,
            case_disabled,
        );
    }
    if want("rocks-concurrent-ids") {
        // `--concurrent-in-process 1`: run the cases inside this process (debugger, sanitizers).
        let in_process = s.args.extra_u64("concurrent-in-process").unwrap_or(0) != 0;
        let n = s.args.budget(160, 2_500);
        // Fewer cases at a time than cores: every case runs up to 8 threads of its own, and the
        // races this part is after are tightest when those threads really run in parallel
        // (measured: most collisions per second of a seeded allocator defect at ~3/8 of the cores).
        let all_threads = s.args.threads;
        s.args.threads = ((all_threads * 3 + 7) / 8).max(1);
        s.part(
            "rocks-concurrent-ids",
            "one scratch directory per case (run in a child process) used over 8-14 (thorough 12-24) sessions of open_rocks_store; a session verifies identifier and content of every name registered so far, registers 0-2 new names sequentially, then 2-8 OS threads released through a spin gate register new names for agents of their own (3 sessions in 4: the same number 1-6 of names per thread, back to back; else 1-3 names for 1-2 agents, seeded delays, some threads re-ask an old name), writing a unique content through each identifier, and closes the database; all identifiers ever handed out must be pairwise distinct (equal ones are probed for shared storage), unchanged after every reopen, every item must hold exactly its own content; non-trivial when all sessions completed, at least one session had id_for calls of different threads overlapping in time and names were verified after a reopen; distinct by hash of the plan and of the observed thread order of the identifiers (the interleaving itself is not reproducible)",
            false,
            n,
            |c, rng, out| case_rocks_concurrent(c, rng, out, thorough, in_process),
        );
        s.args.threads = all_threads;
    }
    if want("rocks-kill") {
        let n = s.args.budget(64, 1_200);
        s.part(
            "rocks-kill",
            "one writer child per case executing a seeded history on open_rocks_store(scratch dir), SIGKILLed at a seeded trigger (step start / step ack + 0-150us, or during open); after reopen every acknowledged step must be reflected, the step in flight may or may not be, acknowledged ids unchanged; then a continuation history runs under the model; non-trivial when at least one step was acknowledged before the kill and the continuation completed; distinct by hash of spec+steps+fault plan (the physical kill instant is not reproducible)",
            false,
            n,
            case_rocks_kill,
        );
    }
    s.finish()
}
