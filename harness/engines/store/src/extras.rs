//! Small drivers next to the model runner:
//!  * `SideStore` – a second store that holds markers under the same plane, agent and item names as
//!    the store under the model (part `rocks-transient`: two databases opened by
//!    `open_rocks_store(None, ..)` are two databases).
//!  * `run_disabled` – `StoreDisabled`, the store that stores nothing, under the weakened model.

use std::sync::atomic::AtomicUsize;
use std::sync::Arc;
use std::task::Poll;

use bytes::BytesMut;
use common::{json, CaseOut};
use swimos_api::error::StoreError;
use swimos_api::persistence::{NodePersistence, PlanePersistence, RangeConsumer, ServerPersistence, StoreDisabled};

use crate::runner::{poll_once, WakeCount};
use crate::script::{esc, esc_str, Cell, Model, Spec, Step};

type NodeOfServer<S> = <<S as ServerPersistence>::PlaneStore as PlanePersistence>::Node;
type IdOfServer<S> = <NodeOfServer<S> as NodePersistence>::LaneId;

pub enum SideError {
    Store(&'static str, StoreError),
    Differs(String),
}

const SIDE_VALUE: &[u8] = b"verif-side-store-value";
const SIDE_KEY: &[u8] = b"\x01side-key";
const SIDE_ENTRY: &[u8] = b"verif-side-store-entry";

/// One node store per agent of the spec; every item holds a marker of its kind.
pub struct SideStore<S: ServerPersistence> {
    // Field order = drop order: node stores, then the server store (which owns the directory).
    nodes: Vec<(NodeOfServer<S>, Vec<(IdOfServer<S>, bool)>)>,
    _plane: S::PlaneStore,
    _server: S,
}

impl<S: ServerPersistence> SideStore<S> {
    pub fn open(server: S, plane_name: &str, spec: &Spec) -> Result<Self, (&'static str, StoreError)> {
        let plane = server.open_plane(plane_name).map_err(|e| ("open_plane", e))?;
        let mut nodes = Vec::new();
        for agent in &spec.agents {
            let mut fut = plane.node_store(&agent.uri);
            let mut node = match poll_once(&mut fut, &Arc::new(WakeCount(AtomicUsize::new(0)))) {
                Poll::Ready(Ok(n)) => n,
                Poll::Ready(Err(e)) => return Err(("node_store", e)),
                Poll::Pending => return Err(("node_store", StoreError::InitialisationFailure("pending".to_string()))),
            };
            let mut ids = Vec::new();
            for item in &agent.items {
                let id = node.id_for(&item.name).map_err(|e| ("id_for", e))?;
                if item.map {
                    node.update_map(id, SIDE_KEY, SIDE_ENTRY).map_err(|e| ("update_map", e))?;
                } else {
                    node.put_value(id, SIDE_VALUE).map_err(|e| ("put_value", e))?;
                }
                ids.push((id, item.map));
            }
            nodes.push((node, ids));
        }
        Ok(SideStore { nodes, _plane: plane, _server: server })
    }

    /// Every item holds exactly its marker and nothing of the other kind. Returns the number of reads.
    pub fn verify(&self) -> Result<u64, SideError> {
        let mut reads = 0;
        for (a, (node, ids)) in self.nodes.iter().enumerate() {
            for (i, (id, map)) in ids.iter().enumerate() {
                let mut buf = BytesMut::new();
                let value = node.get_value(*id, &mut buf).map_err(|e| SideError::Store("get_value", e))?.map(|_| buf.to_vec());
                let mut entries = Vec::new();
                let mut con = node.read_map(*id).map_err(|e| SideError::Store("read_map", e))?;
                while let Some((k, v)) = con.consume_next().map_err(|e| SideError::Store("consume_next", e))? {
                    entries.push((k.to_vec(), v.to_vec()));
                    if entries.len() > 1000 {
                        break;
                    }
                }
                reads += 2;
                let (want_value, want_entries): (Option<Vec<u8>>, Vec<(Vec<u8>, Vec<u8>)>) =
                    if *map { (None, vec![(SIDE_KEY.to_vec(), SIDE_ENTRY.to_vec())]) } else { (Some(SIDE_VALUE.to_vec()), Vec::new()) };
                if value != want_value || entries != want_entries {
                    return Err(SideError::Differs(format!(
                        "agent #{a} item #{i} ({}): get_value {:?}, read_map {:?}",
                        if *map { "map" } else { "value" },
                        value.as_deref().map(esc),
                        entries.iter().take(4).map(|(k, v)| format!("{} = {}", esc(k), esc(v))).collect::<Vec<_>>()
                    )));
                }
            }
        }
        Ok(reads)
    }
}

/// `StoreDisabled` is documented as "a dummy store implementation for when no persistence is
/// required". The statement of C13 speaks of the in-memory and the RocksDB store only, so what is
/// judged here is the part of it that also holds for a store that stores nothing:
///  * every call succeeds (the agent runtime treats a store error as fatal for the agent);
///  * a read never returns anything that was not written to that item: `get_value` answers `None`
///    or the model's value, `read_map` only entries of the model;
///  * `get_value` leaves the existing content of the caller's buffer intact.
pub fn run_disabled(spec: &Spec, steps: &[Step], out: &mut CaseOut) {
    const P: &str = "C13";
    let server = StoreDisabled;
    let plane = match server.open_plane("plane") {
        Ok(p) => p,
        Err(e) => return out.violation(P, "disabled/error/open_plane", format!("StoreDisabled::open_plane failed: {e}"), json!(null)),
    };
    let mut nodes: Vec<Option<StoreDisabled>> = vec![None; spec.agents.len()];
    let mut model = Model::new(spec);
    let mut seen: std::collections::BTreeSet<&'static str> = Default::default();
    let fail = |out: &mut CaseOut, op: &str, step: &Step, e: StoreError| {
        out.nontrivial = true;
        out.violation(P, format!("disabled/error/{op}"), format!("{op} of StoreDisabled failed: {e}"), json!({"step": step.describe(spec)}));
    };
    for step in steps {
        out.events += 1;
        let (op, _cross) = step.data_op();
        let node_of = |nodes: &mut Vec<Option<StoreDisabled>>, a: usize| -> StoreDisabled { nodes[a].unwrap_or(StoreDisabled) };
        match op {
            Step::Open(a) => {
                let mut fut = plane.node_store(&spec.agents[*a].uri);
                match poll_once(&mut fut, &Arc::new(WakeCount(AtomicUsize::new(0)))) {
                    Poll::Ready(Ok(n)) => nodes[*a] = Some(n),
                    Poll::Ready(Err(e)) => return fail(out, "node_store", step, e),
                    Poll::Pending => {
                        out.nontrivial = true;
                        return out.violation(P, "disabled/node_store-pending", "node_store of StoreDisabled did not resolve at once", json!(null));
                    }
                }
                out.count("node_store");
            }
            Step::Drop(a) => nodes[*a] = None,
            Step::IdFor(a, i) => {
                if let Err(e) = node_of(&mut nodes, *a).id_for(&spec.agents[*a].items[*i].name) {
                    return fail(out, "id_for", step, e);
                }
                seen.insert("id_for");
            }
            Step::Put(a, _, v) => {
                if let Err(e) = node_of(&mut nodes, *a).put_value((), v) {
                    return fail(out, "put_value", step, e);
                }
                model.apply(step);
                seen.insert("put_value");
            }
            Step::Del(a, _) => {
                if let Err(e) = node_of(&mut nodes, *a).delete_value(()) {
                    return fail(out, "delete_value", step, e);
                }
                model.apply(step);
                seen.insert("delete_value");
            }
            Step::Upd(a, _, k, v) => {
                if let Err(e) = node_of(&mut nodes, *a).update_map((), k, v) {
                    return fail(out, "update_map", step, e);
                }
                model.apply(step);
                seen.insert("update_map");
            }
            Step::Rem(a, _, k) => {
                if let Err(e) = node_of(&mut nodes, *a).remove_map((), k) {
                    return fail(out, "remove_map", step, e);
                }
                model.apply(step);
                seen.insert("remove_map");
            }
            Step::Clear(a, _) => {
                if let Err(e) = node_of(&mut nodes, *a).clear_map(()) {
                    return fail(out, "clear_map", step, e);
                }
                model.apply(step);
                seen.insert("clear_map");
            }
            Step::Get(a, i) => {
                let junk: &[u8] = if out.events % 2 == 0 { b"\xAA\xBB\xCC\xDD" } else { b"" };
                let mut buf = BytesMut::new();
                buf.extend_from_slice(junk);
                let answer = match node_of(&mut nodes, *a).get_value((), &mut buf) {
                    Ok(x) => x,
                    Err(e) => return fail(out, "get_value", step, e),
                };
                seen.insert("get_value");
                let intact = buf.len() >= junk.len() && &buf[..junk.len()] == junk;
                let appended = if intact { buf[junk.len()..].to_vec() } else { Vec::new() };
                let legal = match answer {
                    None => intact && appended.is_empty(),
                    Some(n) => intact && appended.len() == n && matches!(model.repr(*a, *i, false), Cell::Value(Some(v)) if *v == appended),
                };
                if !legal {
                    out.nontrivial = true;
                    return out.violation(
                        P,
                        "disabled/get_value-returned-what-was-not-written",
                        "get_value of StoreDisabled changed the caller's buffer or returned a value that was not written to the item",
                        json!({"step": step.describe(spec), "answer": answer, "buffer": esc(&buf), "item": esc_str(&spec.agents[*a].items[*i].name)}),
                    );
                }
                out.count(if answer.is_none() { "get_value_none" } else { "get_value_some" });
            }
            Step::Read(a, i) => {
                let node = node_of(&mut nodes, *a);
                let mut con = match node.read_map(()) {
                    Ok(c) => c,
                    Err(e) => return fail(out, "read_map", step, e),
                };
                seen.insert("read_map");
                let mut n = 0;
                loop {
                    match con.consume_next() {
                        Ok(None) => break,
                        Ok(Some((k, v))) => {
                            n += 1;
                            let known = matches!(model.repr(*a, *i, true), Cell::Map(m) if m.get(k).map(|x| x.as_slice()) == Some(v));
                            if !known || n > 10_000 {
                                out.nontrivial = true;
                                return out.violation(
                                    P,
                                    "disabled/read_map-returned-what-was-not-written",
                                    "the range consumer of StoreDisabled produced an entry that was not written to the item (or does not end)",
                                    json!({"step": step.describe(spec), "entry": [esc(k), esc(v)]}),
                                );
                            }
                        }
                        Err(e) => return fail(out, "consume_next", step, e),
                    }
                }
                out.count(if n == 0 { "read_map_empty" } else { "read_map_entries" });
            }
            // Hand-over, database reopen, filler names and second opens are not generated for this part.
            _ => {}
        }
    }
    out.add("data_operations_of_distinct_kinds_run", seen.len() as u64);
    out.nontrivial = seen.len() == 8;
}
