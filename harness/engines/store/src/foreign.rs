//! The foreign writer of the part `rocks-foreign-key`: opens the RocksDB database of a plane
//! directly (not through swimos_rocks_store) while the store is closed and puts one raw key into
//! the map column family.
//!
//! Opening the database read-write replays its write-ahead log and flushes it, which merges the
//! pending increments of the identifier counter (key `counter` of the default column family): the
//! column family must therefore be opened with a merge operator equal to the store's
//! (`server/keystore.rs`, `incrementing_merge_operator`: unsigned LEB128 numbers, existing value
//! plus the sum of the operands). The identifier checks of the runner (stable across this reopen,
//! never shared) would show a deviation.

use std::path::Path;

use rocksdb::{ColumnFamilyDescriptor, MergeOperands, Options, SliceTransform, DB};

fn decode_var(bytes: &[u8]) -> Option<u64> {
    let mut n: u64 = 0;
    for (k, b) in bytes.iter().enumerate() {
        if k >= 10 {
            return None;
        }
        n |= u64::from(b & 0x7f).checked_shl(7 * k as u32)?;
        if b & 0x80 == 0 {
            return if k + 1 == bytes.len() { Some(n) } else { None };
        }
    }
    None
}

fn encode_var(mut n: u64) -> Vec<u8> {
    let mut out = Vec::new();
    while n >= 0x80 {
        out.push((n as u8 & 0x7f) | 0x80);
        n >>= 7;
    }
    out.push(n as u8);
    out
}

fn counter_merge(_key: &[u8], existing: Option<&[u8]>, operands: &MergeOperands) -> Option<Vec<u8>> {
    let mut value = match existing {
        Some(bytes) => decode_var(bytes)?,
        None => 0,
    };
    for op in operands.iter() {
        value = value.checked_add(decode_var(op)?)?;
    }
    Some(encode_var(value))
}

/// Put `key = value` into the column family `map_lanes` of the plane database under `base`.
pub fn put_raw_map_key(base: &Path, plane: &str, key: &[u8], value: &[u8]) -> Result<(), String> {
    debug_assert_eq!(decode_var(&encode_var(300)), Some(300));
    let path = base.join("store").join("planes").join(plane);
    let mut lane = Options::default();
    lane.set_merge_operator_associative("counter", counter_merge);
    let mut map = Options::default();
    map.set_prefix_extractor(SliceTransform::create_fixed_prefix(8));
    map.set_memtable_prefix_bloom_ratio(0.2);
    let cfs = vec![
        ColumnFamilyDescriptor::new("default", lane),
        ColumnFamilyDescriptor::new("value_lanes", Options::default()),
        ColumnFamilyDescriptor::new("map_lanes", map),
    ];
    let db = DB::open_cf_descriptors(&Options::default(), &path, cfs).map_err(|e| format!("open: {e}"))?;
    let cf = db.cf_handle("map_lanes").ok_or_else(|| "no column family map_lanes".to_string())?;
    db.put_cf(cf, key, value).map_err(|e| format!("put: {e}"))?;
    drop(db);
    Ok(())
}
