//! Workload of the `store` engine: agents/items with adversarial names, operation scripts, their
//! deterministic expansion into *steps* (one step = exactly one call on the persistence traits, or
//! one close/reopen), and the reference model.
//!
//! Everything here is a pure function of a seed, because the SIGKILL part regenerates the very same
//! script inside the writer child process.

use std::collections::{BTreeMap, HashSet};

use common::{json, Json, Rng};

#[derive(Clone, Debug)]
pub struct Item {
    pub name: String,
    pub map: bool,
}

#[derive(Clone, Debug)]
pub struct Agent {
    pub uri: String,
    pub items: Vec<Item>,
}

#[derive(Clone, Debug)]
pub struct Spec {
    pub agents: Vec<Agent>,
}

impl Spec {
    /// The string both names are joined into by a `"{uri}/{name}"` scheme. Two distinct
    /// (agent, item) pairs with the same join are the "equal concatenation" class of defect D14.
    pub fn concat(&self, a: usize, i: usize) -> String {
        format!("{}/{}", self.agents[a].uri, self.agents[a].items[i].name)
    }

    pub fn kind(&self, a: usize, i: usize) -> &'static str {
        if self.agents[a].items[i].map {
            "map"
        } else {
            "value"
        }
    }

    pub fn describe(&self) -> Json {
        Json::Array(
            self.agents
                .iter()
                .map(|ag| {
                    json!({
                        "uri": esc_str(&ag.uri),
                        "items": ag.items.iter().map(|it| format!("{}:{}", esc_str(&it.name), if it.map {"map"} else {"value"})).collect::<Vec<_>>(),
                    })
                })
                .collect(),
        )
    }

    pub fn has_equal_concat_pair(&self) -> bool {
        let mut seen = HashSet::new();
        for a in 0..self.agents.len() {
            for i in 0..self.agents[a].items.len() {
                if !seen.insert(self.concat(a, i)) {
                    return true;
                }
            }
        }
        false
    }
}

/// How the in-memory store is asked for an agent that is still in use.
#[derive(Clone, Copy, Debug, PartialEq, Eq)]
pub enum Handover {
    /// Request while held, holder drops, the waiter receives the state.
    Wait,
    /// Request while held, the waiter gives up (future dropped), then the holder drops.
    Cancel,
    /// Two requests while held: the second replaces the first (which fails), holder drops.
    TwoWaiters,
}

/// High-level operations, as generated.
#[derive(Clone, Debug)]
pub enum Op {
    IdFor(usize, usize),
    Put(usize, usize, Vec<u8>),
    Get(usize, usize),
    Del(usize, usize),
    Upd(usize, usize, Vec<u8>, Vec<u8>),
    Rem(usize, usize, Vec<u8>),
    Clear(usize, usize),
    Read(usize, usize),
    DropNode(usize),
    Handover(usize, Handover),
    Reopen,
    Audit,
    /// Register this many filler names under an agent that is not part of the spec, so that the
    /// identifiers allocated before and after lie a chosen distance apart.
    Burn(usize),
    /// *Kind confusion*: the wrapped data operation is of the kind the item is **not** declared
    /// with (`put_value`/`get_value`/`delete_value` through the identifier of a map item,
    /// `update_map`/`remove_map`/`clear_map`/`read_map` through the identifier of a value item).
    Cross(Box<Op>),
    /// Read every item through both kinds of read (`get_value` and `read_map`).
    AuditBoth,
    /// Read one item through both kinds of read.
    AuditItem(usize, usize),
    /// Try to open the database a second time while it is open (RocksDB parts only).
    SecondOpen,
    /// Close the database, let a foreign writer put a malformed (too short) key under the prefix of
    /// this map item into the map column family, reopen (part `rocks-foreign-key`).
    Foreign(usize, usize, u8),
}

/// One call on the store (or one close/reopen of the database).
#[derive(Clone, Debug)]
pub enum Step {
    Open(usize),
    Drop(usize),
    Handover(usize, Handover),
    ReopenDb,
    IdFor(usize, usize),
    Put(usize, usize, Vec<u8>),
    Get(usize, usize),
    Del(usize, usize),
    Upd(usize, usize, Vec<u8>, Vec<u8>),
    Rem(usize, usize, Vec<u8>),
    Clear(usize, usize),
    Read(usize, usize),
    /// `id_for` of this many fresh filler names (see `Op::Burn`); not a single call, but it never
    /// touches the content of an item of the spec.
    Burn(usize),
    /// The wrapped data step is issued on an item declared with the other kind (see `Op::Cross`).
    Cross(Box<Step>),
    /// A second `open_rocks_store(..).open_plane(..)` on the directory that is already open.
    SecondOpen,
    /// See `Op::Foreign`; the last field selects the shape of the key (`foreign_key`).
    Foreign(usize, usize, u8),
}

/// The malformed keys of the part `rocks-foreign-key`: all begin with the 9 bytes every key of the
/// map item `id` begins with (`[MAP_TAG][id, 8 bytes little-endian]`) and are shorter than the 18
/// bytes of the fixed part of a well-formed key (`.. [KEY][length, 8 bytes]`).
pub fn foreign_key(id: u64, variant: u8) -> Vec<u8> {
    let mut k = vec![1u8];
    k.extend_from_slice(&id.to_le_bytes());
    match variant % 4 {
        0 => {}                                                   // the bare prefix (what a range read seeks)
        1 => k.push(1),                                           // + the KEY tag
        2 => k.extend_from_slice(&[1, 5, 0, 0, 0, 0, 0, 0]),      // + 7 of the 8 length bytes (sorts between real keys)
        _ => k.extend_from_slice(&[1, 0xff, 0xff, 0xff]),         // + a cut-off, absurd length
    }
    k
}

impl Step {
    pub fn name(&self) -> &'static str {
        match self {
            Step::Open(_) => "node_store",
            Step::Drop(_) => "drop_node",
            Step::Handover(_, Handover::Wait) => "handover_wait",
            Step::Handover(_, Handover::Cancel) => "handover_cancel",
            Step::Handover(_, Handover::TwoWaiters) => "handover_two_waiters",
            Step::ReopenDb => "reopen_db",
            Step::IdFor(..) => "id_for",
            Step::Put(..) => "put_value",
            Step::Get(..) => "get_value",
            Step::Del(..) => "delete_value",
            Step::Upd(..) => "update_map",
            Step::Rem(..) => "remove_map",
            Step::Clear(..) => "clear_map",
            Step::Read(..) => "read_map",
            Step::Burn(_) => "burn_ids",
            Step::Cross(inner) => inner.name(),
            Step::SecondOpen => "second_open",
            Step::Foreign(..) => "foreign_short_key",
        }
    }

    /// The data operation itself and whether it is of the other kind than the item's declaration.
    pub fn data_op(&self) -> (&Step, bool) {
        match self {
            Step::Cross(inner) => (inner.as_ref(), true),
            s => (s, false),
        }
    }

    /// Is this one of the map operations (`update_map`/`remove_map`/`clear_map`/`read_map`)?
    pub fn is_map_op(&self) -> bool {
        matches!(self.data_op().0, Step::Upd(..) | Step::Rem(..) | Step::Clear(..) | Step::Read(..))
    }

    pub fn target(&self) -> Option<(usize, Option<usize>)> {
        match self {
            Step::Open(a) | Step::Drop(a) | Step::Handover(a, _) => Some((*a, None)),
            Step::ReopenDb | Step::Burn(_) | Step::SecondOpen => None,
            Step::Cross(inner) => inner.target(),
            Step::IdFor(a, i)
            | Step::Put(a, i, _)
            | Step::Get(a, i)
            | Step::Del(a, i)
            | Step::Upd(a, i, _, _)
            | Step::Rem(a, i, _)
            | Step::Clear(a, i)
            | Step::Foreign(a, i, _)
            | Step::Read(a, i) => Some((*a, Some(*i))),
        }
    }

    pub fn is_mutation(&self) -> bool {
        matches!(self.data_op().0, Step::Put(..) | Step::Del(..) | Step::Upd(..) | Step::Rem(..) | Step::Clear(..))
    }

    /// Human-readable form used in violation details (the scratch directory is gone by then).
    pub fn describe(&self, spec: &Spec) -> String {
        let at = |a: &usize, i: &usize| format!("[{}]{}", esc_str(&spec.agents[*a].uri), esc_str(&spec.agents[*a].items[*i].name));
        match self {
            Step::Open(a) => format!("node_store({})", esc_str(&spec.agents[*a].uri)),
            Step::Drop(a) => format!("drop node store of {}", esc_str(&spec.agents[*a].uri)),
            Step::Handover(a, h) => format!("hand-over {:?} of {}", h, esc_str(&spec.agents[*a].uri)),
            Step::ReopenDb => "close all handles, reopen database".to_string(),
            Step::IdFor(a, i) => format!("id_for {}", at(a, i)),
            Step::Put(a, i, v) => format!("put_value {} = {}", at(a, i), esc(v)),
            Step::Get(a, i) => format!("get_value {}", at(a, i)),
            Step::Del(a, i) => format!("delete_value {}", at(a, i)),
            Step::Upd(a, i, k, v) => format!("update_map {} key {} = {}", at(a, i), esc(k), esc(v)),
            Step::Rem(a, i, k) => format!("remove_map {} key {}", at(a, i), esc(k)),
            Step::Clear(a, i) => format!("clear_map {}", at(a, i)),
            Step::Read(a, i) => format!("read_map {}", at(a, i)),
            Step::Burn(n) => format!("id_for of {n} fresh filler names under the agent \"/verif-filler\""),
            Step::Cross(inner) => format!("{} (the item is otherwise used as a {})", inner.describe(spec), match inner.target() {
                Some((a, Some(i))) => spec.kind(a, i),
                _ => "?",
            }),
            Step::SecondOpen => "open the same database directory a second time while it is open".to_string(),
            Step::Foreign(a, i, v) => format!("close the database; a foreign writer puts a malformed key (shape {}) under the key prefix of {} into the map column family; reopen", v % 4, at(a, i)),
        }
    }
}

pub fn esc(b: &[u8]) -> String {
    let mut s = String::from("\"");
    let shown = b.len().min(40);
    for c in &b[..shown] {
        match *c {
            b'"' => s.push_str("\\\""),
            b'\\' => s.push_str("\\\\"),
            0x20..=0x7e => s.push(*c as char),
            o => s.push_str(&format!("\\x{o:02x}")),
        }
    }
    s.push('"');
    if b.len() > shown {
        s.push_str(&format!("..(len {})", b.len()));
    }
    s
}

pub fn esc_str(s: &str) -> String {
    if s.len() > 48 {
        format!("{}..(len {})", esc(&s.as_bytes()[..32]), s.len())
    } else {
        esc(s.as_bytes())
    }
}

// ------------------------------------------------------------------------------------------------
// Reference model

#[derive(Clone, Debug, PartialEq, Eq)]
pub enum Cell {
    Value(Option<Vec<u8>>),
    Map(BTreeMap<Vec<u8>, Vec<u8>>),
}

/// Whether an item may hold data of the kind *other* than the one of an operation (decides whether
/// a store is entitled to refuse the operation with `InvalidOperation`).
#[derive(Clone, Copy, Debug, PartialEq, Eq)]
pub enum Presence {
    /// Nothing of the other kind: never written, or removed by `delete_value` / `clear_map`.
    Absent,
    /// A map that received entries and lost all of them through `remove_map`: a store may still
    /// regard it as an (empty) map or as nothing; the statement does not decide.
    MaybeEmptyMap,
    /// A value / at least one map entry of the other kind is stored.
    Data,
}

/// The reference: (agent, item) -> value | map. Agents and items are addressed by index; the
/// generator guarantees that distinct indices are distinct (URI, name) pairs.
///
/// `cells` is the representation of the item's declared kind. `cross` is the representation of the
/// *other* kind (a map for a value item, a value for a map item): it only ever changes through
/// kind-confusion steps (`Step::Cross`) **that the store accepted**. A store that keeps the two
/// kinds apart (RocksDB: separate column families) accepts them all, and then both representations
/// must behave as independent storage; a store that refuses them (the in-memory store:
/// `InvalidOperation`) must leave everything as it was.
#[derive(Clone, Debug, PartialEq, Eq)]
pub struct Model {
    pub cells: Vec<Vec<Cell>>,
    pub cross: Vec<Vec<Cell>>,
    /// The map representation received an entry since it was last cleared (see `Presence`).
    pub map_touched: Vec<Vec<bool>>,
}

fn apply_cell(cell: &mut Cell, touched: &mut bool, op: &Step) {
    match (op, cell) {
        (Step::Put(_, _, v), c @ Cell::Value(_)) => *c = Cell::Value(Some(v.clone())),
        (Step::Del(..), c @ Cell::Value(_)) => *c = Cell::Value(None),
        (Step::Upd(_, _, k, v), Cell::Map(m)) => {
            m.insert(k.clone(), v.clone());
            *touched = true;
        }
        (Step::Rem(_, _, k), Cell::Map(m)) => {
            m.remove(k);
        }
        (Step::Clear(..), Cell::Map(m)) => {
            m.clear();
            *touched = false;
        }
        _ => {}
    }
}

impl Model {
    pub fn new(spec: &Spec) -> Model {
        let cell = |map: bool| if map { Cell::Map(BTreeMap::new()) } else { Cell::Value(None) };
        Model {
            cells: spec.agents.iter().map(|a| a.items.iter().map(|it| cell(it.map)).collect()).collect(),
            cross: spec.agents.iter().map(|a| a.items.iter().map(|it| cell(!it.map)).collect()).collect(),
            map_touched: spec.agents.iter().map(|a| vec![false; a.items.len()]).collect(),
        }
    }

    /// Apply a step that the store accepted.
    pub fn apply(&mut self, step: &Step) {
        let (op, cross) = step.data_op();
        if let Some((a, Some(i))) = op.target() {
            let cell = if cross { &mut self.cross[a][i] } else { &mut self.cells[a][i] };
            apply_cell(cell, &mut self.map_touched[a][i], op);
        }
    }

    /// The representation of one kind of an item (whichever of `cells` / `cross` has that kind).
    pub fn repr(&self, a: usize, i: usize, map: bool) -> &Cell {
        match (&self.cells[a][i], map) {
            (Cell::Map(_), true) | (Cell::Value(_), false) => &self.cells[a][i],
            _ => &self.cross[a][i],
        }
    }

    /// What the item holds of the kind other than the one of a map (`op_is_map`) / value operation.
    pub fn other_presence(&self, a: usize, i: usize, op_is_map: bool) -> Presence {
        match self.repr(a, i, !op_is_map) {
            Cell::Value(Some(_)) => Presence::Data,
            Cell::Value(None) => Presence::Absent,
            Cell::Map(m) if !m.is_empty() => Presence::Data,
            Cell::Map(_) if self.map_touched[a][i] => Presence::MaybeEmptyMap,
            Cell::Map(_) => Presence::Absent,
        }
    }
}

// ------------------------------------------------------------------------------------------------
// Generation

#[derive(Clone, Copy, Debug)]
pub struct GenParams {
    /// Chance (percent) that the spec contains two (agent, item) pairs of the same kind whose
    /// `uri/name` concatenations are equal (the D14 class).
    pub equal_concat_pct: u64,
    pub min_ops: u64,
    pub max_ops: u64,
    /// Weight of `Op::Reopen` (0 = never generated; the reopen part inserts its own).
    pub reopen_weight: u64,
    /// In-memory Idle/InUse hand-over operations.
    pub handover: bool,
    /// Chance (percent) that a written value is large (64 KiB - 1 MiB): long operations so that a
    /// SIGKILL can land in the middle of a WAL append.
    pub big_value_pct: u64,
    /// Extra weight of `clear_map` among the map operations (0 = the basic mix, 1 in 20).
    pub clear_extra: u64,
    /// Follow every `clear_map` by a read of *every* item, so that a clear that reaches beyond its
    /// own item is seen at once (and the witness is short).
    pub audit_after_clear: bool,
    /// Chance (percent) that an operation is a *kind-confusion* operation (`Op::Cross`), followed
    /// by a read of that item through both kinds of read (one time in three: of every item).
    /// Audits of such histories read every item through both kinds of read. 0 = never (the
    /// generated stream is then exactly the one of the histories without this field).
    pub cross_pct: u64,
    /// Weight of `Op::SecondOpen` (RocksDB parts with a directory of their own only).
    pub second_open_weight: u64,
}

const URIS: &[&str] = &[
    "/a", "/a/b", "/a/", "", "/", "/a/b/c", "a", "/a\u{0}", "/\u{ff}", "/lane", "lane", "counter", "/a//b", "/unit/é", "/A",
];

const NAMES: &[&str] = &[
    "", "a", "b", "c", "a/b", "b/c", "/", "a/", "/a", "x\u{0}", "x\u{0}y", "\u{ff}", "value", "map", "counter", "lane", "ab", "abc",
    "a b", "é", "/b", "b/", "//", "lane/a", "\u{10ffff}",
];

/// Pairs (uri1, name1, uri2, name2) with uri1 != uri2 and equal `uri/name` concatenation.
const EQUAL_CONCAT: &[(&str, &str, &str, &str)] = &[
    ("/a", "b/c", "/a/b", "c"),
    ("", "a/x", "/a", "x"),
    ("/a", "/b", "/a/", "b"),
    ("/a", "b/", "/a/b", ""),
    ("/", "a", "", "/a"),
    ("/a/b", "c/d", "/a/b/c", "d"),
];

const KEY_LENS: &[usize] = &[0, 0, 1, 2, 7, 8, 9, 10, 15, 16, 17, 18, 19, 26, 64];

fn gen_key(rng: &mut Rng) -> Vec<u8> {
    let len = *rng.pick(KEY_LENS);
    match rng.below(8) {
        0 => vec![0x00; len],
        1 => vec![0xff; len],
        2 => b"abcdefghijklmnopqrstuvwxyzabcdefghijklmnopqrstuvwxyzabcdefghijklmnopqrstuvwxyz"[..len].to_vec(),
        // Bytes that look like the tags / bounds of the on-disk key layout.
        3 => vec![0x01; len],
        4 => vec![0x02; len],
        // Something that looks like an encoded length followed by a key.
        5 => {
            let mut k = (len as u64).to_le_bytes().to_vec();
            k.resize(len.max(1), 0x01);
            k.truncate(len);
            k
        }
        _ => (0..len).map(|_| *rng.pick(&[0u8, 1, 2, 0xff, b'a', b'/'])).collect(),
    }
}

fn gen_value(rng: &mut Rng, serial: u32, p: &GenParams) -> Vec<u8> {
    if rng.chance(1, 12) {
        // The empty value is a value (get_value must answer Some(0), a map entry must exist).
        return Vec::new();
    }
    let len = if p.big_value_pct > 0 && rng.chance(p.big_value_pct, 100) {
        rng.range(64 << 10, 1 << 20) as usize
    } else {
        match rng.below(10) {
            0 => rng.range(1000, 6000) as usize,
            1 | 2 => rng.range(4, 9) as usize,
            _ => rng.range(4, 40) as usize,
        }
    };
    // Every written value is unique (serial number first), so a stale or foreign answer cannot
    // be mistaken for the right one.
    let mut v = serial.to_le_bytes().to_vec();
    let fill = *rng.pick(&[0x00u8, 0xff, b'v', 0x01]);
    v.resize(len.max(4), fill);
    v
}

pub struct Script {
    pub spec: Spec,
    pub ops: Vec<Op>,
    /// The key pool the map operations draw from (reported with violations).
    pub keys: Vec<Vec<u8>>,
    /// Number of leading operations that only set the scene (stride histories: registration order,
    /// filler names, initial data); 0 for plain histories.
    pub prologue: usize,
}

pub fn gen_spec(rng: &mut Rng, p: &GenParams) -> Spec {
    let n_agents = rng.range(2, 4) as usize;
    let mut agents: Vec<Agent> = Vec::new();
    let want_equal = p.equal_concat_pct > 0 && rng.chance(p.equal_concat_pct, 100);
    if want_equal {
        let (u1, n1, u2, n2) = *rng.pick(EQUAL_CONCAT);
        let map = rng.bool();
        agents.push(Agent { uri: u1.to_string(), items: vec![Item { name: n1.to_string(), map }] });
        agents.push(Agent { uri: u2.to_string(), items: vec![Item { name: n2.to_string(), map }] });
    }
    while agents.len() < n_agents {
        let uri = *rng.pick(URIS);
        if agents.iter().all(|a| a.uri != uri) {
            agents.push(Agent { uri: uri.to_string(), items: Vec::new() });
        }
    }
    // All concatenations present so far; further items never add an equal concatenation, so the
    // only such pair of a spec is the deliberate one.
    let mut concats: HashSet<String> = HashSet::new();
    for a in &agents {
        for it in &a.items {
            concats.insert(format!("{}/{}", a.uri, it.name));
        }
    }
    let long_name: String = "n".repeat(300);
    for a in agents.iter_mut() {
        let n_items = rng.range(2, 5) as usize;
        let mut tries = 0;
        while a.items.len() < n_items && tries < 200 {
            tries += 1;
            let name = if rng.chance(1, 25) { long_name.as_str() } else { *rng.pick(NAMES) };
            let c = format!("{}/{}", a.uri, name);
            if a.items.iter().any(|it| it.name == name) || concats.contains(&c) {
                continue;
            }
            concats.insert(c);
            a.items.push(Item { name: name.to_string(), map: rng.chance(3, 5) });
        }
    }
    rng.shuffle(&mut agents);
    Spec { agents }
}

pub fn gen_keys(rng: &mut Rng) -> Vec<Vec<u8>> {
    // Key pool: a few generated keys plus their neighbours (prefix, extensions), so that keys that
    // are prefixes of each other and keys differing only in length are in play together.
    let mut keys: Vec<Vec<u8>> = Vec::new();
    for _ in 0..rng.range(3, 6) {
        let k = gen_key(rng);
        if !k.is_empty() {
            keys.push(k[..k.len() - 1].to_vec());
        }
        let mut e0 = k.clone();
        e0.push(0x00);
        let mut e1 = k.clone();
        e1.push(0xff);
        keys.push(k);
        if rng.bool() {
            keys.push(e0);
        }
        if rng.bool() {
            keys.push(e1);
        }
    }
    keys.sort();
    keys.dedup();
    keys
}

/// Generate operations over an existing spec. `serial` numbers the written values (all distinct).
pub fn gen_ops(rng: &mut Rng, spec: &Spec, keys: &[Vec<u8>], p: &GenParams, mut serial: u32) -> Vec<Op> {
    let n_ops = rng.range(p.min_ops, p.max_ops);
    let mut ops = Vec::new();
    let all_items: Vec<(usize, usize)> =
        (0..spec.agents.len()).flat_map(|a| (0..spec.agents[a].items.len()).map(move |i| (a, i))).collect();
    let audit = || if p.cross_pct > 0 { Op::AuditBoth } else { Op::Audit };
    for _ in 0..n_ops {
        let (a, i) = *rng.pick(&all_items);
        let map = spec.agents[a].items[i].map;
        if p.cross_pct > 0 && rng.chance(p.cross_pct, 100) {
            // The operation of the other kind: value operations on a map item, map operations on
            // a value item.
            let inner = if map {
                match rng.below(10) {
                    0..=4 => {
                        serial += 1;
                        Op::Put(a, i, gen_value(rng, serial, p))
                    }
                    5 | 6 => Op::Del(a, i),
                    _ => Op::Get(a, i),
                }
            } else {
                match rng.below(20) {
                    0..=8 => {
                        serial += 1;
                        Op::Upd(a, i, rng.pick(keys).clone(), gen_value(rng, serial, p))
                    }
                    9..=12 => Op::Rem(a, i, rng.pick(keys).clone()),
                    13..=15 => Op::Clear(a, i),
                    _ => Op::Read(a, i),
                }
            };
            ops.push(Op::Cross(Box::new(inner)));
            ops.push(if rng.chance(1, 3) { Op::AuditBoth } else { Op::AuditItem(a, i) });
            continue;
        }
        if p.second_open_weight > 0 && rng.chance(p.second_open_weight, 100) {
            ops.push(Op::SecondOpen);
            continue;
        }
        let w = rng.below(100 + p.reopen_weight);
        let op = if w >= 100 {
            Op::Reopen
        } else if w < 5 {
            Op::IdFor(a, i)
        } else if w < 9 {
            Op::DropNode(a)
        } else if w < 13 && p.handover {
            Op::Handover(a, *rng.pick(&[Handover::Wait, Handover::Wait, Handover::Cancel, Handover::TwoWaiters]))
        } else if w < 15 {
            audit()
        } else if map {
            match rng.below(20 + p.clear_extra) {
                0..=10 => {
                    serial += 1;
                    Op::Upd(a, i, rng.pick(keys).clone(), gen_value(rng, serial, p))
                }
                11..=14 => Op::Rem(a, i, rng.pick(keys).clone()),
                15 => Op::Clear(a, i),
                16..=19 => Op::Read(a, i),
                _ => Op::Clear(a, i),
            }
        } else {
            match rng.below(10) {
                0..=4 => {
                    serial += 1;
                    Op::Put(a, i, gen_value(rng, serial, p))
                }
                5 => Op::Del(a, i),
                _ => Op::Get(a, i),
            }
        };
        let cleared = matches!(op, Op::Clear(..));
        ops.push(op);
        if cleared && p.audit_after_clear {
            ops.push(audit());
        }
    }
    ops
}

pub fn gen_script(seed: u64, p: &GenParams) -> Script {
    let mut rng = Rng::new(seed);
    let rng = &mut rng;
    let spec = gen_spec(rng, p);
    let keys = gen_keys(rng);
    let mut ops = gen_ops(rng, &spec, &keys, p, 0);
    ops.push(if p.cross_pct > 0 { Op::AuditBoth } else { Op::Audit });
    Script { spec, ops, keys, prologue: 0 }
}

/// Offsets (number of filler names registered first) of the stride histories: the identifiers of
/// the first group then have low bytes around 0x00, 0x7f/0x80 and 0xff, and cross 255 -> 256.
const STRIDE_OFFSETS: &[usize] = &[0, 0, 0, 1, 100, 126, 127, 250, 252, 253, 254, 255, 256, 300];

/// A history in which *live items have identifiers an exact multiple of 256 apart* (for a store
/// that numbers the names of a plane consecutively, as the RocksDB store does): the items of the
/// spec are split into 2-3 groups, the names of one group are registered back to back, and filler
/// names are registered between the groups so that the k-th item of every group has the identifier
/// of the k-th item of the first group + 256 (or + 512, + 768). Map items come first in each group,
/// so that maps meet maps. Identifiers are written into the keys little-endian, so such items
/// differ only in the second byte of the key prefix: any range or prefix computed on the first
/// byte alone (a clear, a range read) reaches the other item. Every item then receives data, and
/// the seeded history that follows has many `clear_map`s, each followed by a read of everything.
pub fn gen_script_stride(seed: u64, p: &GenParams) -> Script {
    let mut rng = Rng::new(seed);
    let rng = &mut rng;
    let mut spec = gen_spec(rng, p);
    let keys = gen_keys(rng);
    let mut all: Vec<(usize, usize)> =
        (0..spec.agents.len()).flat_map(|a| (0..spec.agents[a].items.len()).map(move |i| (a, i))).collect();
    rng.shuffle(&mut all);
    // At least one map item per group.
    let n_groups = if all.len() >= 6 && rng.bool() { 3 } else { 2 };
    let mut n_maps = all.iter().filter(|(a, i)| spec.agents[*a].items[*i].map).count();
    for (a, i) in all.iter() {
        if n_maps >= n_groups {
            break;
        }
        if !spec.agents[*a].items[*i].map {
            spec.agents[*a].items[*i].map = true;
            n_maps += 1;
        }
    }
    let mut groups: Vec<Vec<(usize, usize)>> = vec![Vec::new(); n_groups];
    let (maps, values): (Vec<_>, Vec<_>) = all.iter().copied().partition(|(a, i)| spec.agents[*a].items[*i].map);
    for (k, it) in maps.iter().chain(values.iter()).enumerate() {
        groups[k % n_groups].push(*it);
    }
    // Registration order.
    let mut ops = vec![Op::Burn(*rng.pick(STRIDE_OFFSETS))];
    for (g, group) in groups.iter().enumerate() {
        for (a, i) in group {
            ops.push(Op::IdFor(*a, *i));
        }
        if g + 1 < n_groups {
            let stride = 256 * *rng.pick(&[1usize, 1, 1, 2]);
            ops.push(Op::Burn(stride - group.len()));
        }
    }
    // Data in every map item and in most value items.
    let mut serial = 0u32;
    for (a, i) in all.iter().copied() {
        if spec.agents[a].items[i].map {
            for _ in 0..rng.range(1, 3) {
                serial += 1;
                ops.push(Op::Upd(a, i, rng.pick(&keys).clone(), gen_value(rng, serial, p)));
            }
        } else if rng.chance(2, 3) {
            serial += 1;
            ops.push(Op::Put(a, i, gen_value(rng, serial, p)));
        }
    }
    ops.push(Op::Audit);
    let prologue = ops.len();
    ops.extend(gen_ops(rng, &spec, &keys, p, serial));
    ops.push(Op::Audit);
    Script { spec, ops, keys, prologue }
}

/// Deterministic expansion of operations into steps: node stores are opened and identifiers are
/// (re-)requested lazily, exactly when the next data operation needs them. Because the expansion
/// only depends on the operations, the parent of a writer child computes the very same list.
pub fn expand(spec: &Spec, ops: &[Op]) -> Vec<Step> {
    let mut open = vec![false; spec.agents.len()];
    let mut have: Vec<Vec<bool>> = spec.agents.iter().map(|a| vec![false; a.items.len()]).collect();
    let mut steps = Vec::new();
    fn need(a: usize, i: usize, open: &mut [bool], have: &mut [Vec<bool>], steps: &mut Vec<Step>) {
        if !open[a] {
            open[a] = true;
            steps.push(Step::Open(a));
        }
        if !have[a][i] {
            have[a][i] = true;
            steps.push(Step::IdFor(a, i));
        }
    }
    for op in ops {
        match op {
            Op::IdFor(a, i) => {
                if !open[*a] {
                    open[*a] = true;
                    steps.push(Step::Open(*a));
                }
                have[*a][*i] = true;
                steps.push(Step::IdFor(*a, *i));
            }
            Op::Put(a, i, v) => {
                need(*a, *i, &mut open, &mut have, &mut steps);
                steps.push(Step::Put(*a, *i, v.clone()));
            }
            Op::Get(a, i) => {
                need(*a, *i, &mut open, &mut have, &mut steps);
                steps.push(Step::Get(*a, *i));
            }
            Op::Del(a, i) => {
                need(*a, *i, &mut open, &mut have, &mut steps);
                steps.push(Step::Del(*a, *i));
            }
            Op::Upd(a, i, k, v) => {
                need(*a, *i, &mut open, &mut have, &mut steps);
                steps.push(Step::Upd(*a, *i, k.clone(), v.clone()));
            }
            Op::Rem(a, i, k) => {
                need(*a, *i, &mut open, &mut have, &mut steps);
                steps.push(Step::Rem(*a, *i, k.clone()));
            }
            Op::Clear(a, i) => {
                need(*a, *i, &mut open, &mut have, &mut steps);
                steps.push(Step::Clear(*a, *i));
            }
            Op::Read(a, i) => {
                need(*a, *i, &mut open, &mut have, &mut steps);
                steps.push(Step::Read(*a, *i));
            }
            Op::DropNode(a) => {
                if open[*a] {
                    open[*a] = false;
                    have[*a].iter_mut().for_each(|h| *h = false);
                    steps.push(Step::Drop(*a));
                }
            }
            Op::Handover(a, h) => {
                if !open[*a] {
                    steps.push(Step::Open(*a));
                }
                steps.push(Step::Handover(*a, *h));
                // Wait / TwoWaiters leave a fresh handle; Cancel leaves the agent idle.
                open[*a] = *h != Handover::Cancel;
                have[*a].iter_mut().for_each(|x| *x = false);
            }
            Op::Reopen => {
                open.iter_mut().for_each(|o| *o = false);
                have.iter_mut().for_each(|h| h.iter_mut().for_each(|x| *x = false));
                steps.push(Step::ReopenDb);
            }
            Op::Burn(n) => steps.push(Step::Burn(*n)),
            Op::SecondOpen => steps.push(Step::SecondOpen),
            Op::Foreign(a, i, v) => {
                need(*a, *i, &mut open, &mut have, &mut steps); // the identifier must be known
                open.iter_mut().for_each(|o| *o = false);
                have.iter_mut().for_each(|h| h.iter_mut().for_each(|x| *x = false));
                steps.push(Step::Foreign(*a, *i, *v));
            }
            Op::Cross(inner) => {
                let step = match inner.as_ref() {
                    Op::Put(a, i, v) => Step::Put(*a, *i, v.clone()),
                    Op::Get(a, i) => Step::Get(*a, *i),
                    Op::Del(a, i) => Step::Del(*a, *i),
                    Op::Upd(a, i, k, v) => Step::Upd(*a, *i, k.clone(), v.clone()),
                    Op::Rem(a, i, k) => Step::Rem(*a, *i, k.clone()),
                    Op::Clear(a, i) => Step::Clear(*a, *i),
                    Op::Read(a, i) => Step::Read(*a, *i),
                    _ => continue, // only data operations are ever wrapped
                };
                if let Some((a, Some(i))) = step.target() {
                    need(a, i, &mut open, &mut have, &mut steps);
                    steps.push(Step::Cross(Box::new(step)));
                }
            }
            Op::AuditBoth | Op::AuditItem(..) => {
                let only = match op {
                    Op::AuditItem(a, i) => Some((*a, *i)),
                    _ => None,
                };
                for a in 0..spec.agents.len() {
                    for i in 0..spec.agents[a].items.len() {
                        if only.map_or(false, |o| o != (a, i)) {
                            continue;
                        }
                        need(a, i, &mut open, &mut have, &mut steps);
                        let (own, other) = if spec.agents[a].items[i].map { (Step::Read(a, i), Step::Get(a, i)) } else { (Step::Get(a, i), Step::Read(a, i)) };
                        steps.push(own);
                        steps.push(Step::Cross(Box::new(other)));
                    }
                }
            }
            Op::Audit => {
                for a in 0..spec.agents.len() {
                    for i in 0..spec.agents[a].items.len() {
                        need(a, i, &mut open, &mut have, &mut steps);
                        steps.push(if spec.agents[a].items[i].map { Step::Read(a, i) } else { Step::Get(a, i) });
                    }
                }
            }
        }
    }
    steps
}
