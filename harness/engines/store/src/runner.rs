//! Executes steps on a real store through the `swimos_api::persistence` traits and monitors every
//! answer against the reference model. Generic over the store, so that the in-memory store, the
//! RocksDB store in-process and the RocksDB store inside the writer child run the same code.

use std::collections::BTreeMap;
use std::sync::atomic::{AtomicUsize, Ordering};
use std::sync::Arc;
use std::task::{Context, Poll};

use bytes::BytesMut;
use common::{json, sanitize_sig, Json};
use futures::future::BoxFuture;
use futures::task::ArcWake;
use swimos_api::error::StoreError;
use swimos_api::persistence::{NodePersistence, PlanePersistence, RangeConsumer};

use crate::script::{esc, esc_str, Cell, Handover, Model, Presence, Spec, Step};

/// A store that can be opened (and, for RocksDB, closed and opened again on the same directory).
pub trait Backend {
    type Plane: PlanePersistence;
    fn open(&mut self) -> Result<Self::Plane, StoreError>;
    /// Called once the runner has dropped every node store and the plane store.
    fn closed(&mut self);
    /// Try to open the store a second time while it is open and drop the result at once.
    /// `None`: the backend has no notion of it.
    fn second_open(&mut self) -> Option<Result<(), StoreError>> {
        None
    }
    /// While the store is closed: write one raw key into the map column family of the database,
    /// not through the store. `None`: the backend cannot; `Some(Err(_))`: the harness failed to.
    fn foreign_map_key(&mut self, _key: &[u8], _value: &[u8]) -> Option<Result<(), String>> {
        None
    }
}

pub type NodeOf<B> = <<B as Backend>::Plane as PlanePersistence>::Node;
pub type IdOf<B> = <NodeOf<B> as NodePersistence>::LaneId;

#[derive(Clone, Debug)]
pub struct Viol {
    pub sig: String,
    pub what: String,
    pub detail: Json,
}

/// What a read of one item returned.
#[derive(Clone, Debug, PartialEq, Eq)]
pub enum Observed {
    Value(Option<Vec<u8>>),
    /// Entries in the order the store produced them.
    Map(Vec<(Vec<u8>, Vec<u8>)>),
}

pub struct WakeCount(pub AtomicUsize);

impl ArcWake for WakeCount {
    fn wake_by_ref(arc_self: &Arc<Self>) {
        arc_self.0.fetch_add(1, Ordering::SeqCst);
    }
}

/// Poll a future once, without any executor (a store bug must not be able to hang the harness).
pub fn poll_once<T>(fut: &mut BoxFuture<'static, T>, wakes: &Arc<WakeCount>) -> Poll<T> {
    let waker = futures::task::waker(wakes.clone());
    let mut cx = Context::from_waker(&waker);
    fut.as_mut().poll(&mut cx)
}

/// Upper bound on the entries consumed from one `read_map` beyond what the model holds: a
/// consumer that never ends is reported instead of looping forever.
const READ_SLACK: usize = 10_000;

/// Compare an observation with a model cell; `None` = equal.
pub fn diff(cell: &Cell, obs: &Observed) -> Option<(String, Json)> {
    match (cell, obs) {
        (Cell::Value(m), Observed::Value(o)) => {
            if m == o {
                None
            } else {
                let class = match (m, o) {
                    (None, Some(_)) => "expected-none/got-value",
                    (Some(_), None) => "expected-value/got-none",
                    _ => "expected-value/got-other-value",
                };
                Some((
                    format!("get_value-mismatch/{class}"),
                    json!({ "model": m.as_ref().map(|v| esc(v)), "store": o.as_ref().map(|v| esc(v)) }),
                ))
            }
        }
        (Cell::Map(m), Observed::Map(entries)) => {
            let mut seen: BTreeMap<&[u8], &[u8]> = BTreeMap::new();
            let mut classes: Vec<&'static str> = Vec::new();
            let mut examples: Vec<String> = Vec::new();
            let mut note = |c: &'static str, ex: String| {
                if !classes.contains(&c) {
                    classes.push(c);
                }
                if examples.len() < 8 {
                    examples.push(format!("{c}: {ex}"));
                }
            };
            for (k, v) in entries {
                if seen.insert(k.as_slice(), v.as_slice()).is_some() {
                    note("duplicate-key", esc(k));
                }
                match m.get(k) {
                    None => note("extra-entry", format!("{} = {}", esc(k), esc(v))),
                    Some(mv) if mv != v => note("wrong-value", format!("{}: model {} store {}", esc(k), esc(mv), esc(v))),
                    _ => {}
                }
            }
            for k in m.keys() {
                if !seen.contains_key(k.as_slice()) {
                    note("missing-entry", format!("{} (key length {})", esc(k), k.len()));
                }
            }
            if classes.is_empty() {
                None
            } else {
                classes.sort();
                Some((
                    format!("read_map-mismatch/{}", classes.join("+")),
                    json!({ "model_entries": m.len(), "store_entries": entries.len(), "examples": examples }),
                ))
            }
        }
        _ => Some(("harness/kind-mismatch".to_string(), Json::Null)),
    }
}


/// An `Err` from a call that the traits document as succeeding: `Ok((signature, what))` of the
/// violation. Resource exhaustion of the machine is not the store's fault: `Err(why)` (inconclusive).
pub fn classify_store_error(op: &str, e: &StoreError) -> Result<(String, String), String> {
    let text = format!("{e}");
    if ["No space left", "Too many open files", "Cannot allocate memory"].iter().any(|m| text.contains(m)) {
        return Err(format!("environment error during {op}: {}", sanitize_sig(&text)));
    }
    let variant = format!("{e:?}");
    let variant: String = variant.chars().take_while(|c| c.is_ascii_alphanumeric()).collect();
    Ok((format!("store-error/{op}/{variant}"), format!("{op} failed on a valid request: {text}")))
}

pub struct Runner<'s, B: Backend> {
    pub spec: &'s Spec,
    backend: B,
    plane: Option<B::Plane>,
    nodes: Vec<Option<NodeOf<B>>>,
    /// Identifiers obtained through the *current* handle of each agent.
    ids: Vec<Vec<Option<IdOf<B>>>>,
    /// First identifier ever returned for each (agent, item): the stability reference.
    first_ids: Vec<Vec<Option<IdOf<B>>>>,
    /// (database epoch, node epoch) at which the reference was last confirmed.
    id_seen_at: Vec<Vec<(u32, u32)>>,
    /// Identifiers acknowledged by a writer child, as `Debug` text (the stability reference
    /// across a process kill).
    pub expected_id_text: Vec<Vec<Option<String>>>,
    db_epoch: u32,
    node_epoch: Vec<u32>,
    pub model: Model,
    pub viols: Vec<Viol>,
    pub inconclusive: Option<String>,
    pub events: u64,
    pub counters: BTreeMap<String, u64>,
    history: Vec<&'s Step>,
    /// `Debug` text of the identifier returned by the most recent `id_for`.
    pub last_id_text: Option<String>,
    /// Free text describing the scenario, included in every violation detail.
    pub context: Json,
    /// Identifiers allocated by `burn_ids` (filler names that push the allocator past 127 / 255).
    burned: Vec<(String, IdOf<B>)>,
    /// Set by the parts whose histories contain kind-confusion steps: after a write that was
    /// accepted although the item holds data of the other kind (or that was of the other kind than
    /// the item is used with), and after every refused write, the runner reads the representation(s)
    /// that must not have changed at once (`probe`), so that a difference is attributed to that
    /// very operation (`kinds/<accepted|refused>-<operation>/...`).
    pub kinds_mode: bool,
    /// Per item and representation (`[value, map]`): the first operation whose probe of that
    /// representation was itself refused by the store (the in-memory store refuses to read an
    /// item as a map while it holds a value and vice versa), so that the representation has not
    /// been seen since. The next read of it that succeeds and differs is attributed to it.
    unverified: Vec<Vec<[Option<String>; 2]>>,
    /// A malformed key written by a foreign writer lies under the key prefix of this map item and
    /// no `clear_map` of the item has been accepted since.
    foreign_pending: Vec<Vec<bool>>,
}

impl<'s, B: Backend> Runner<'s, B> {
    pub fn new(spec: &'s Spec, backend: B) -> Self {
        let per_item = |spec: &Spec| -> Vec<Vec<()>> { spec.agents.iter().map(|a| vec![(); a.items.len()]).collect() };
        let shape = per_item(spec);
        Runner {
            spec,
            backend,
            plane: None,
            nodes: spec.agents.iter().map(|_| None).collect(),
            ids: shape.iter().map(|v| v.iter().map(|_| None).collect()).collect(),
            first_ids: shape.iter().map(|v| v.iter().map(|_| None).collect()).collect(),
            id_seen_at: shape.iter().map(|v| v.iter().map(|_| (0, 0)).collect()).collect(),
            expected_id_text: shape.iter().map(|v| v.iter().map(|_| None).collect()).collect(),
            db_epoch: 0,
            node_epoch: vec![0; spec.agents.len()],
            model: Model::new(spec),
            viols: Vec::new(),
            inconclusive: None,
            events: 0,
            counters: BTreeMap::new(),
            history: Vec::new(),
            last_id_text: None,
            context: Json::Null,
            burned: Vec::new(),
            kinds_mode: false,
            unverified: shape.iter().map(|v| v.iter().map(|_| [None, None]).collect()).collect(),
            foreign_pending: shape.iter().map(|v| vec![false; v.len()]).collect(),
        }
    }

    pub fn count(&mut self, k: &str) {
        match self.counters.get_mut(k) {
            Some(n) => *n += 1,
            None => {
                self.counters.insert(k.to_string(), 1);
            }
        }
    }

    pub fn stopped(&self) -> bool {
        !self.viols.is_empty() || self.inconclusive.is_some()
    }

    /// Detail attached to a violation: the agents/items, the steps that touched the item (and any
    /// item sharing its identifier), and the tail of the history. The scratch directory is
    /// deleted after the case, so this text is the witness.
    fn detail(&self, about: Option<(usize, Option<usize>)>, extra: Json) -> Json {
        let related: Vec<String> = match about {
            Some((a, i)) => self
                .history
                .iter()
                .enumerate()
                .filter(|(_, s)| match s.target() {
                    None => true,
                    Some((sa, si)) => sa == a && (si.is_none() || i.is_none() || si == i),
                })
                .map(|(n, s)| format!("#{n} {}", s.describe(self.spec)))
                .collect(),
            None => Vec::new(),
        };
        let skip = related.len().saturating_sub(25);
        let tail: Vec<String> = self
            .history
            .iter()
            .enumerate()
            .skip(self.history.len().saturating_sub(12))
            .map(|(n, s)| format!("#{n} {}", s.describe(self.spec)))
            .collect();
        // The identifier of every item that has one (a witness of interference between items is
        // only readable with them: e.g. identifiers 4 and 260 differ by a multiple of 256).
        let mut identifiers: Vec<String> = Vec::new();
        for a in 0..self.spec.agents.len() {
            for i in 0..self.spec.agents[a].items.len() {
                if let Some(id) = self.first_ids[a][i] {
                    identifiers.push(format!("[{}]{} ({}) = {id:?}", esc_str(&self.spec.agents[a].uri), esc_str(&self.spec.agents[a].items[i].name), self.spec.kind(a, i)));
                }
            }
        }
        json!({
            "scenario": self.context,
            "spec": self.spec.describe(),
            "identifiers": identifiers,
            "steps_on_this_item_or_agent": related[skip..],
            "last_steps": tail,
            "steps_executed": self.history.len(),
            "observed": extra,
        })
    }

    pub fn violation(&mut self, sig: impl Into<String>, what: impl Into<String>, about: Option<(usize, Option<usize>)>, extra: Json) {
        let detail = self.detail(about, extra);
        self.viols.push(Viol { sig: sig.into(), what: what.into(), detail });
    }

    /// An `Err` from a call that the traits document as succeeding.
    fn store_error(&mut self, op: &str, e: &StoreError, about: Option<(usize, Option<usize>)>) {
        match classify_store_error(op, e) {
            Err(why) => self.inconclusive = Some(why),
            Ok((sig, what)) => self.violation(sig, what, about, json!({ "error": format!("{e}") })),
        }
    }

    fn ensure_plane(&mut self) -> bool {
        if self.plane.is_some() {
            return true;
        }
        match self.backend.open() {
            Ok(p) => {
                self.plane = Some(p);
                true
            }
            Err(e) => {
                let op = if self.db_epoch == 0 { "open" } else { "reopen" };
                self.store_error(op, &e, None);
                false
            }
        }
    }

    /// Drop every handle (node stores first, then the plane, then whatever the backend holds).
    pub fn close_all(&mut self) {
        for n in self.nodes.iter_mut() {
            *n = None;
        }
        for v in self.ids.iter_mut() {
            v.iter_mut().for_each(|x| *x = None);
        }
        self.plane = None;
        self.backend.closed();
    }

    fn open_node(&mut self, a: usize) {
        if !self.ensure_plane() {
            return;
        }
        let uri = &self.spec.agents[a].uri;
        let mut fut = self.plane.as_ref().unwrap().node_store(uri);
        let wakes = Arc::new(WakeCount(AtomicUsize::new(0)));
        match poll_once(&mut fut, &wakes) {
            Poll::Ready(Ok(n)) => {
                self.nodes[a] = Some(n);
                self.node_epoch[a] += 1;
            }
            Poll::Ready(Err(e)) => self.store_error("node_store", &e, Some((a, None))),
            Poll::Pending => self.violation(
                "node_store/pending-while-no-handle-is-held",
                "node_store did not resolve although no node store of this agent is alive",
                Some((a, None)),
                Json::Null,
            ),
        }
    }

    fn id_of(&mut self, a: usize, i: usize) -> Option<IdOf<B>> {
        match self.ids[a][i] {
            Some(id) => Some(id),
            None => {
                // The expansion always issues IdFor first; reaching this is a harness bug.
                self.inconclusive = Some("harness: data step without identifier".to_string());
                None
            }
        }
    }

    fn do_id_for(&mut self, a: usize, i: usize) {
        let Some(node) = self.nodes[a].as_ref() else {
            self.inconclusive = Some("harness: id_for without node store".to_string());
            return;
        };
        let name = &self.spec.agents[a].items[i].name;
        let id = match node.id_for(name) {
            Ok(id) => id,
            Err(e) => return self.store_error("id_for", &e, Some((a, Some(i)))),
        };
        let text = format!("{id:?}");
        self.last_id_text = Some(text.clone());
        // (1) Stability: the identifier of a name never changes.
        if let Some(first) = self.first_ids[a][i] {
            if first != id {
                let (db, ne) = self.id_seen_at[a][i];
                let when = if db != self.db_epoch {
                    "after-db-reopen"
                } else if ne != self.node_epoch[a] {
                    "after-node-store-reopen"
                } else {
                    "same-handle"
                };
                return self.violation(
                    format!("id-changed/{when}"),
                    format!("id_for returned {text} for a name that had {first:?} before"),
                    Some((a, Some(i))),
                    json!({ "before": format!("{first:?}"), "now": text }),
                );
            }
            self.count("id_for_repeated_same_id");
        } else {
            self.first_ids[a][i] = Some(id);
        }
        if let Some(expected) = &self.expected_id_text[a][i] {
            if *expected != text {
                let expected = expected.clone();
                return self.violation(
                    "id-changed/after-process-kill",
                    format!("id_for returned {text} for a name whose id_for was acknowledged with {expected} before the kill"),
                    Some((a, Some(i))),
                    json!({ "before": expected, "now": text }),
                );
            }
            self.count("id_stable_across_kill");
        }
        self.id_seen_at[a][i] = (self.db_epoch, self.node_epoch[a]);
        self.ids[a][i] = Some(id);
        // (2) Injective per agent: two names of one agent never share an identifier.
        for j in 0..self.spec.agents[a].items.len() {
            if j != i && self.first_ids[a][j] == Some(id) {
                return self.violation(
                    "id-collision/same-agent",
                    format!("two item names of one agent were assigned the same identifier {text}"),
                    Some((a, None)),
                    json!({ "names": [esc_str(name), esc_str(&self.spec.agents[a].items[j].name)], "id": text }),
                );
            }
        }
        // (3) Equal identifiers under *different* agents are legitimate for a store whose
        // identifiers are scoped per agent (the in-memory store). They are only counted here;
        // whether the two items share storage is decided by `confirm_alias` on a mismatch.
        for b in 0..self.spec.agents.len() {
            if b != a && self.first_ids[b].iter().any(|x| *x == Some(id)) {
                self.count("equal_id_under_another_agent");
                break;
            }
        }
    }

    /// Read one item through the read of its declared kind. `Err(())`: a violation / inconclusive
    /// was recorded.
    pub fn observe(&mut self, a: usize, i: usize) -> Result<Observed, ()> {
        let as_map = self.spec.agents[a].items[i].map;
        match self.read_raw(a, i, as_map) {
            Ok(obs) => Ok(obs),
            Err(None) => Err(()),
            Err(Some((op, e))) => {
                self.store_error(op, &e, Some((a, Some(i))));
                Err(())
            }
        }
    }

    /// Read one item as a map (`read_map` + the range consumer) or as a value (`get_value`).
    /// `Err(Some((operation, error)))`: the store answered with an error (not yet judged);
    /// `Err(None)`: a violation / inconclusive was recorded.
    fn read_raw(&mut self, a: usize, i: usize, as_map: bool) -> Result<Observed, Option<(&'static str, StoreError)>> {
        let id = self.id_of(a, i).ok_or(None)?;
        let expected_len = match self.model.repr(a, i, true) {
            Cell::Map(m) => m.len(),
            _ => 0,
        };
        let node = self.nodes[a].as_ref().ok_or(None)?;
        if as_map {
            let res: Result<Result<Vec<(Vec<u8>, Vec<u8>)>, StoreError>, StoreError> = match node.read_map(id) {
                Ok(mut con) => {
                    let mut out = Vec::new();
                    let mut inner = Ok(());
                    loop {
                        match con.consume_next() {
                            Ok(Some((k, v))) => {
                                out.push((k.to_vec(), v.to_vec()));
                                if out.len() > expected_len + READ_SLACK {
                                    break;
                                }
                            }
                            Ok(None) => break,
                            Err(e) => {
                                inner = Err(e);
                                break;
                            }
                        }
                    }
                    Ok(inner.map(|_| out))
                }
                Err(e) => Err(e),
            };
            match res {
                Ok(Ok(entries)) => {
                    if entries.len() > expected_len + READ_SLACK {
                        self.violation(
                            "read_map/consumer-does-not-end",
                            "the range consumer produced far more entries than were ever written",
                            Some((a, Some(i))),
                            json!({ "consumed": entries.len(), "model_entries": expected_len }),
                        );
                        return Err(None);
                    }
                    Ok(Observed::Map(entries))
                }
                Ok(Err(e)) => Err(Some(("consume_next", e))),
                Err(e) => Err(Some(("read_map", e))),
            }
        } else {
            // "leaving any existing content intact": every other read starts from a non-empty
            // buffer (3, 37 or 300 bytes; the longest one is beyond the inline capacity of a
            // `BytesMut` and, one time in two, leaves no spare capacity at all).
            let junk: Vec<u8> = if self.events % 2 == 0 {
                let n = [3usize, 37, 300][(self.events / 2 % 3) as usize];
                (0..n).map(|k| [0xAAu8, 0xBB, 0xCC][k % 3]).collect()
            } else {
                Vec::new()
            };
            let mut buf = if self.events % 4 == 0 { BytesMut::with_capacity(junk.len()) } else { BytesMut::new() };
            buf.extend_from_slice(&junk);
            match node.get_value(id, &mut buf) {
                Ok(None) => {
                    // Nothing stored: nothing may have been written into the caller's buffer.
                    if buf[..] != junk[..] {
                        self.violation(
                            "get_value/buffer-changed-although-none-returned",
                            "get_value returned None but did not leave the content of the buffer as it was",
                            Some((a, Some(i))),
                            json!({ "buffer_before": esc(&junk), "buffer_after": esc(&buf) }),
                        );
                        return Err(None);
                    }
                    if !junk.is_empty() {
                        self.count("get_value_none_nonempty_buffer_untouched");
                    }
                    Ok(Observed::Value(None))
                }
                Ok(Some(n)) => {
                    if buf.len() < junk.len() || buf[..junk.len()] != junk[..] {
                        self.violation(
                            "get_value/buffer-content-clobbered",
                            "get_value did not leave the existing content of the buffer intact",
                            Some((a, Some(i))),
                            json!({ "buffer": esc(&buf) }),
                        );
                        return Err(None);
                    }
                    if buf.len() - junk.len() != n {
                        self.violation(
                            "get_value/returned-count-differs-from-bytes-appended",
                            format!("get_value returned Some({n}) but appended {} bytes", buf.len() - junk.len()),
                            Some((a, Some(i))),
                            Json::Null,
                        );
                        return Err(None);
                    }
                    if !junk.is_empty() {
                        self.count("get_value_appended_to_nonempty_buffer_count_ok");
                    }
                    Ok(Observed::Value(Some(buf[junk.len()..].to_vec())))
                }
                Err(e) => Err(Some(("get_value", e))),
            }
        }
    }

    /// A read disagreed with the model. Before reporting a plain mismatch, find out whether the
    /// item shares its storage with a *different* (agent, item) pair: write a marker through the
    /// other pair and look for it through this one (the history is already broken at this point,
    /// so the extra write costs nothing). Shared storage is reported under its own signature.
    fn confirm_alias(&mut self, a: usize, i: usize) -> bool {
        let Some(id) = self.first_ids[a][i] else { return false };
        let is_map = self.spec.agents[a].items[i].map;
        let mut candidates = Vec::new();
        for b in 0..self.spec.agents.len() {
            for j in 0..self.spec.agents[b].items.len() {
                if (b, j) != (a, i) && self.first_ids[b][j] == Some(id) && self.spec.agents[b].items[j].map == is_map {
                    candidates.push((b, j));
                }
            }
        }
        for (b, j) in candidates {
            if self.nodes[b].is_none() {
                self.open_node(b);
            }
            let Some(other_id) = self.first_ids[b][j] else { continue };
            const MARK_K: &[u8] = b"\x7fverif-alias-probe-key";
            const MARK_V: &[u8] = b"verif-alias-probe-value";
            let Some(other) = self.nodes[b].as_mut() else { continue };
            let wrote = if is_map { other.update_map(other_id, MARK_K, MARK_V) } else { other.put_value(other_id, MARK_V) };
            if wrote.is_err() {
                continue;
            }
            let Ok(obs) = self.observe(a, i) else { return true };
            let visible = match &obs {
                Observed::Value(v) => v.as_deref() == Some(MARK_V),
                Observed::Map(es) => es.iter().any(|(k, v)| k == MARK_K && v == MARK_V),
            };
            if visible {
                let scope = if a == b { "same-agent" } else { "cross-agent" };
                let concat = if self.spec.concat(a, i) == self.spec.concat(b, j) { "equal-concatenation" } else { "distinct-concatenation" };
                let kind = self.spec.kind(a, i);
                let other_steps: Vec<String> = self
                    .history
                    .iter()
                    .enumerate()
                    .filter(|(_, s)| s.target() == Some((b, Some(j))) && s.is_mutation())
                    .map(|(n, s)| format!("#{n} {}", s.describe(self.spec)))
                    .collect();
                let pair = json!({
                    "writes_through_the_other_pair": other_steps[other_steps.len().saturating_sub(10)..],
                    "this": {"uri": esc_str(&self.spec.agents[a].uri), "item": esc_str(&self.spec.agents[a].items[i].name)},
                    "other": {"uri": esc_str(&self.spec.agents[b].uri), "item": esc_str(&self.spec.agents[b].items[j].name)},
                    "shared_id": format!("{id:?}"),
                    "uri_slash_name": [esc_str(&self.spec.concat(a, i)), esc_str(&self.spec.concat(b, j))],
                });
                self.violation(
                    format!("id-collision/{scope}/{concat}/{kind}"),
                    "two different (agent, item) pairs were assigned the same identifier and share their storage: a write through one is read back through the other",
                    Some((a, Some(i))),
                    pair,
                );
                return true;
            }
        }
        false
    }

    /// A store may answer `InvalidOperation` to an operation of one kind on an item that holds (or
    /// may hold) data of the other kind; nothing may change by it. Returns whether the error is
    /// such a refusal (then it has been counted and, for a write, both representations probed).
    fn legitimate_refusal(&mut self, op: &Step, e: &StoreError, a: usize, i: usize, cross: bool) -> bool {
        if !matches!(e, StoreError::InvalidOperation) {
            return false;
        }
        let presence = self.model.other_presence(a, i, op.is_map_op());
        if presence == Presence::Absent {
            return false;
        }
        let name = op.name();
        self.count(&format!("refused_InvalidOperation/{name}"));
        if presence == Presence::MaybeEmptyMap {
            self.count("refused_because_of_a_map_emptied_by_remove_map");
        }
        if !cross {
            self.count("refused_operation_of_the_declared_kind_after_the_other_kind_was_accepted");
        }
        if op.is_mutation() {
            // A refused write must leave both representations as they were.
            let tag = format!("refused-{name}");
            self.probe(a, i, false, &tag);
            self.probe(a, i, true, &tag);
        }
        true
    }

    /// Read one representation of an item right after an operation that must not have changed it.
    fn probe(&mut self, a: usize, i: usize, as_map: bool, tag: &str) {
        if self.stopped() {
            return;
        }
        self.events += 1;
        match self.read_raw(a, i, as_map) {
            Err(None) => {}
            Err(Some((call, e))) => {
                // The read itself may be refused (the item holds data of the other kind).
                let refused = call != "consume_next" && matches!(e, StoreError::InvalidOperation) && self.model.other_presence(a, i, as_map) != Presence::Absent;
                if refused {
                    self.count("probe_read_refused_InvalidOperation");
                    let slot = &mut self.unverified[a][i][as_map as usize];
                    if slot.is_none() {
                        *slot = Some(tag.to_string());
                    }
                } else {
                    self.store_error(call, &e, Some((a, Some(i))));
                }
            }
            Ok(obs) => match diff(self.model.repr(a, i, as_map), &obs) {
                None => {
                    self.unverified[a][i][as_map as usize] = None;
                    self.count(if tag.starts_with("refused") { "probe_after_refused_write_unchanged" } else { "probe_after_accepted_write_other_kind_unchanged" })
                }
                Some((sig, info)) => {
                    let earlier = self.unverified[a][i][as_map as usize].take();
                    let tag = earlier.as_deref().unwrap_or(tag);
                    let what = if tag.starts_with("refused") {
                        "a write that the store refused (InvalidOperation) changed what the item holds"
                    } else {
                        "an accepted write of one kind changed what the item holds under the other kind (the write was not refused, so value and map storage of the identifier must be independent)"
                    };
                    self.violation(format!("kinds/{tag}/{sig}"), what, Some((a, Some(i))), json!({ "diff": info, "read_as": if as_map { "map" } else { "value" } }));
                }
            },
        }
    }

    fn check_read(&mut self, step: &Step, a: usize, i: usize) {
        let (op, cross) = step.data_op();
        let as_map = op.is_map_op();
        let obs = match self.read_raw(a, i, as_map) {
            Ok(obs) => obs,
            Err(None) => return,
            Err(Some((call, e))) => {
                if call != "consume_next" && self.legitimate_refusal(op, &e, a, i, cross) {
                    return;
                }
                if as_map && self.foreign_pending[a][i] && matches!(e, StoreError::InvalidKey) {
                    // What the statement does not decide: the read of a map under whose prefix a
                    // malformed key lies may fail (it must not invent entries, panic or run on).
                    self.count(&format!("foreign_short_key/{call}_answered_InvalidKey"));
                    return;
                }
                return self.store_error(call, &e, Some((a, Some(i))));
            }
        };
        let difference = diff(self.model.repr(a, i, as_map), &obs);
        if as_map && self.foreign_pending[a][i] {
            match difference {
                None => self.count("foreign_short_key/read_map_left_it_out"),
                Some((sig, info)) => self.violation(
                    format!("foreign-key/{sig}"),
                    "read_map of a map item under whose key prefix a malformed key lies neither failed nor returned exactly the entries written to the item",
                    Some((a, Some(i))),
                    json!({ "diff": info }),
                ),
            }
            return;
        }
        if let Some((sig, info)) = difference {
            if let Some(tag) = self.unverified[a][i][as_map as usize].take() {
                return self.violation(
                    format!("kinds/{tag}/{sig}"),
                    "the first read of this representation of the item that the store answered since that write differs from the model (the store refused the reads in between)",
                    Some((a, Some(i))),
                    json!({ "diff": info, "read_as": if as_map { "map" } else { "value" } }),
                );
            }
            if cross {
                return self.violation(
                    format!("kinds/cross-read/{sig}"),
                    "a read of the kind other than the item's usual one differs from what the accepted operations of that kind on this item imply",
                    Some((a, Some(i))),
                    json!({ "diff": info, "read_as": if as_map { "map" } else { "value" } }),
                );
            }
            if self.confirm_alias(a, i) {
                return;
            }
            // Does the answer belong to another item? (isolation breach without a shared id)
            let foreign = self.foreign_owner(a, i, &obs);
            let sig = if foreign.is_some() { format!("{sig}/content-of-another-item") } else { sig };
            let what = format!("{} answered differently from what the preceding writes to this item imply", if sig.starts_with("read") { "read_map" } else { "get_value" });
            self.violation(sig, what, Some((a, Some(i))), json!({ "diff": info, "content_matches_item": foreign }));
        } else {
            self.unverified[a][i][as_map as usize] = None;
            let class = match obs {
                Observed::Value(None) => "get_value_none_ok",
                Observed::Value(Some(ref v)) if v.is_empty() => "get_value_empty_value_ok",
                Observed::Value(Some(_)) => "get_value_some_ok",
                Observed::Map(ref es) if es.is_empty() => "read_map_empty_ok",
                Observed::Map(_) => "read_map_entries_ok",
            };
            if cross {
                self.count(&format!("other_kind_{class}"));
                if self.model.other_presence(a, i, as_map) == Presence::Data {
                    self.count("other_kind_read_answered_while_the_declared_kind_holds_data");
                }
            } else {
                self.count(class);
            }
        }
    }

    fn foreign_owner(&self, a: usize, i: usize, obs: &Observed) -> Option<String> {
        for b in 0..self.spec.agents.len() {
            for j in 0..self.spec.agents[b].items.len() {
                if (b, j) == (a, i) {
                    continue;
                }
                let hit = match (&self.model.cells[b][j], obs) {
                    (Cell::Value(Some(mv)), Observed::Value(Some(ov))) => mv == ov,
                    (Cell::Map(m), Observed::Map(es)) => es.iter().any(|(k, v)| {
                        m.get(k) == Some(v) && !matches!(&self.model.cells[a][i], Cell::Map(own) if own.get(k) == Some(v))
                    }),
                    _ => false,
                };
                if hit {
                    return Some(format!("[{}]{}", esc_str(&self.spec.agents[b].uri), esc_str(&self.spec.agents[b].items[j].name)));
                }
            }
        }
        None
    }

    /// The identifier as a number, for stores whose identifiers print as one (coverage only).
    fn id_num(&self, a: usize, i: usize) -> Option<u64> {
        self.first_ids[a][i].and_then(|id| format!("{id:?}").parse().ok())
    }

    /// Coverage counter: a `clear_map` executed while another, non-empty map has an identifier
    /// an exact multiple of 256 away (the two key prefixes differ only beyond their first byte).
    fn note_clear(&mut self, a: usize, i: usize) {
        let Some(me) = self.id_num(a, i) else { return };
        let mut hit = false;
        for b in 0..self.spec.agents.len() {
            for j in 0..self.spec.agents[b].items.len() {
                if (b, j) != (a, i) && matches!(&self.model.cells[b][j], Cell::Map(m) if !m.is_empty()) {
                    if let Some(other) = self.id_num(b, j) {
                        hit |= other != me && other.abs_diff(me) % 256 == 0;
                    }
                }
            }
        }
        if hit {
            self.count("clear_map_while_nonempty_map_has_id_multiple_of_256_away");
        }
    }

    fn mutate(&mut self, step: &'s Step, a: usize, i: usize) {
        let (op, cross) = step.data_op();
        let Some(id) = self.id_of(a, i) else { return };
        if matches!(op, Step::Clear(..)) && !cross {
            self.note_clear(a, i);
        }
        let Some(node) = self.nodes[a].as_mut() else {
            self.inconclusive = Some("harness: mutation without node store".to_string());
            return;
        };
        let r = match op {
            Step::Put(_, _, v) => node.put_value(id, v),
            Step::Del(_, _) => node.delete_value(id),
            Step::Upd(_, _, k, v) => node.update_map(id, k, v),
            Step::Rem(_, _, k) => node.remove_map(id, k),
            Step::Clear(_, _) => node.clear_map(id),
            _ => Ok(()),
        };
        match r {
            Ok(()) => {
                let mut probe_other = false;
                if self.kinds_mode {
                    let presence = self.model.other_presence(a, i, op.is_map_op());
                    if cross {
                        self.count(&format!("other_kind_accepted/{}", op.name()));
                    }
                    match presence {
                        Presence::Data => self.count("write_accepted_while_the_other_kind_holds_data"),
                        Presence::MaybeEmptyMap => self.count("write_accepted_while_a_map_emptied_by_remove_map_may_exist"),
                        Presence::Absent => {}
                    }
                    // The representation of the other kind must not change by it.
                    probe_other = cross || presence != Presence::Absent;
                }
                if matches!(op, Step::Clear(..)) && self.foreign_pending[a][i] {
                    // An accepted clear_map leaves nothing under the item's prefix.
                    self.foreign_pending[a][i] = false;
                    self.count("foreign_short_key/clear_map_accepted");
                }
                self.model.apply(step);
                if probe_other {
                    self.probe(a, i, !op.is_map_op(), &format!("accepted-{}", op.name()));
                }
            }
            Err(e) => {
                if !self.legitimate_refusal(op, &e, a, i, cross) {
                    self.store_error(op.name(), &e, Some((a, Some(i))))
                }
            }
        }
    }

    fn foreign(&mut self, a: usize, i: usize, variant: u8) {
        let Some(id) = self.id_num(a, i) else {
            self.inconclusive = Some("harness: foreign key for an item without a numeric identifier".to_string());
            return;
        };
        self.close_all();
        let key = crate::script::foreign_key(id, variant);
        match self.backend.foreign_map_key(&key, b"verif-foreign-value") {
            None => self.inconclusive = Some("harness: backend without foreign writer".to_string()),
            Some(Err(why)) => self.inconclusive = Some(format!("harness: foreign writer failed: {}", sanitize_sig(&why))),
            Some(Ok(())) => {
                self.foreign_pending[a][i] = true;
                self.count("foreign_short_key/written");
            }
        }
        self.db_epoch += 1;
        self.ensure_plane();
    }

    /// A second open of the directory that is open. The statement does not say whether it must
    /// fail (RocksDB refuses it through its lock file); the store that is open must not notice.
    fn second_open(&mut self) {
        if self.plane.is_none() && !self.ensure_plane() {
            return;
        }
        match self.backend.second_open() {
            None => {}
            Some(Ok(())) => self.count("second_open_while_open_succeeded"),
            Some(Err(e)) => match classify_store_error("second_open", &e) {
                Err(why) => self.inconclusive = Some(why),
                Ok(_) => {
                    let variant: String = format!("{e:?}").chars().take_while(|c| c.is_ascii_alphanumeric()).collect();
                    self.count(&format!("second_open_while_open_refused/{variant}"));
                }
            },
        }
    }

    fn handover(&mut self, a: usize, mode: Handover) {
        if self.nodes[a].is_none() || self.plane.is_none() {
            self.inconclusive = Some("harness: hand-over without a holder".to_string());
            return;
        }
        let uri = self.spec.agents[a].uri.clone();
        let wakes1 = Arc::new(WakeCount(AtomicUsize::new(0)));
        let mut fut1 = self.plane.as_ref().unwrap().node_store(&uri);
        match poll_once(&mut fut1, &wakes1) {
            Poll::Pending => {}
            Poll::Ready(Ok(second)) => {
                // A store may hand out a second live handle (nothing in the traits forbids it);
                // the state it shows is still checked by the reads that follow.
                self.count("second_handle_while_in_use");
                self.nodes[a] = Some(second);
                self.node_epoch[a] += 1;
                return;
            }
            Poll::Ready(Err(e)) => return self.store_error("node_store-while-in-use", &e, Some((a, None))),
        }
        match mode {
            Handover::Wait => {
                self.nodes[a] = None; // the holder goes away: Drop hands the state over
                if wakes1.0.load(Ordering::SeqCst) == 0 {
                    return self.violation(
                        "handover/waiter-not-woken",
                        "the pending node_store future was not woken when the holder was dropped",
                        Some((a, None)),
                        Json::Null,
                    );
                }
                match poll_once(&mut fut1, &wakes1) {
                    Poll::Ready(Ok(n)) => {
                        self.nodes[a] = Some(n);
                        self.node_epoch[a] += 1;
                        self.count("handover_wait_ok");
                    }
                    Poll::Ready(Err(e)) => self.store_error("node_store-after-holder-dropped", &e, Some((a, None))),
                    Poll::Pending => self.violation(
                        "handover/still-pending-after-holder-dropped",
                        "node_store requested while the agent was in use did not resolve after the holder was dropped",
                        Some((a, None)),
                        Json::Null,
                    ),
                }
            }
            Handover::Cancel => {
                drop(fut1); // the waiter gives up
                self.nodes[a] = None; // the state must go back to the plane (next Open checks it)
                self.count("handover_cancel");
            }
            Handover::TwoWaiters => {
                let wakes2 = Arc::new(WakeCount(AtomicUsize::new(0)));
                let mut fut2 = self.plane.as_ref().unwrap().node_store(&uri);
                let r2_early = poll_once(&mut fut2, &wakes2);
                self.nodes[a] = None;
                let r1 = poll_once(&mut fut1, &wakes1);
                let r2 = match r2_early {
                    Poll::Pending => poll_once(&mut fut2, &wakes2),
                    ready => ready,
                };
                let mut got: Vec<NodeOf<B>> = Vec::new();
                for r in [r1, r2] {
                    if let Poll::Ready(Ok(n)) = r {
                        got.push(n);
                    }
                }
                // What the implementation promises: the state is never held twice and never lost.
                if got.len() > 1 {
                    return self.violation(
                        "handover/two-holders",
                        "two node_store requests for one agent both resolved to a node store",
                        Some((a, None)),
                        Json::Null,
                    );
                }
                match got.pop() {
                    Some(n) => {
                        self.nodes[a] = Some(n);
                        self.node_epoch[a] += 1;
                        self.count("handover_two_waiters_one_served");
                    }
                    None => {
                        self.count("handover_two_waiters_none_served");
                        drop(fut1);
                        drop(fut2);
                        self.open_node(a);
                    }
                }
            }
        }
        for x in self.ids[a].iter_mut() {
            *x = None;
        }
    }

    /// Execute one step and check the store's answer. Returns false once the case must stop (the
    /// first violation ends a case: the store and the model have diverged).
    pub fn exec(&mut self, step: &'s Step) -> bool {
        if self.stopped() {
            return false;
        }
        self.history.push(step);
        self.events += 1;
        match step {
            Step::Open(a) => self.open_node(*a),
            Step::Drop(a) => {
                self.nodes[*a] = None;
                self.ids[*a].iter_mut().for_each(|x| *x = None);
            }
            Step::Handover(a, h) => self.handover(*a, *h),
            Step::ReopenDb => {
                self.close_all();
                self.db_epoch += 1;
                self.ensure_plane();
            }
            Step::IdFor(a, i) => self.do_id_for(*a, *i),
            Step::Burn(n) => {
                self.burn_ids(*n);
                self.count("filler_names_registered_inside_history");
            }
            Step::Get(a, i) | Step::Read(a, i) => self.check_read(step, *a, *i),
            Step::Put(a, i, _) | Step::Del(a, i) | Step::Upd(a, i, _, _) | Step::Rem(a, i, _) | Step::Clear(a, i) => {
                self.mutate(step, *a, *i)
            }
            Step::Cross(inner) => match (inner.is_mutation(), inner.target()) {
                (true, Some((a, Some(i)))) => self.mutate(step, a, i),
                (false, Some((a, Some(i)))) => self.check_read(step, a, i),
                _ => {}
            },
            Step::SecondOpen => self.second_open(),
            Step::Foreign(a, i, variant) => self.foreign(*a, *i, *variant),
        }
        !self.stopped()
    }

    const FILLER_URI: &'static str = "/verif-filler";

    fn filler_node(&mut self) -> Option<NodeOf<B>> {
        if !self.ensure_plane() {
            return None;
        }
        let mut fut = self.plane.as_ref().unwrap().node_store(Self::FILLER_URI);
        match poll_once(&mut fut, &Arc::new(WakeCount(AtomicUsize::new(0)))) {
            Poll::Ready(Ok(n)) => Some(n),
            Poll::Ready(Err(e)) => {
                self.store_error("node_store", &e, None);
                None
            }
            Poll::Pending => {
                self.violation("node_store/pending-while-no-handle-is-held", "node_store of an unused agent did not resolve", None, Json::Null);
                None
            }
        }
    }

    /// Allocate identifiers for `n` filler names under an agent of their own (none of the
    /// spec's agents), so that the identifiers the history uses lie beyond one-byte encodings.
    /// The filler identifiers must be pairwise distinct.
    pub fn burn_ids(&mut self, n: usize) {
        let Some(node) = self.filler_node() else { return };
        let from = self.burned.len();
        for k in from..from + n {
            let name = format!("f{k}");
            match node.id_for(&name) {
                Ok(id) => {
                    self.events += 1;
                    if let Some((other, _)) = self.burned.iter().find(|(_, x)| *x == id) {
                        let other = other.clone();
                        return self.violation(
                            "id-collision/same-agent",
                            format!("two item names of one agent were assigned the same identifier {id:?}"),
                            None,
                            json!({ "names": [name, other], "id": format!("{id:?}"), "agent": Self::FILLER_URI }),
                        );
                    }
                    self.burned.push((name, id));
                }
                Err(e) => return self.store_error("id_for", &e, None),
            }
        }
    }

    /// The filler identifiers are unchanged (called after the last reopen).
    pub fn check_burned(&mut self) {
        if self.burned.is_empty() || self.stopped() {
            return;
        }
        let Some(node) = self.filler_node() else { return };
        for k in 0..self.burned.len() {
            let (name, id) = self.burned[k].clone();
            match node.id_for(&name) {
                Ok(now) if now == id => {
                    self.events += 1;
                    self.count("filler_id_stable");
                }
                Ok(now) => {
                    return self.violation(
                        "id-changed/after-db-reopen",
                        format!("id_for returned {now:?} for a name that had {id:?} before"),
                        None,
                        json!({ "agent": Self::FILLER_URI, "name": name, "before": format!("{id:?}"), "now": format!("{now:?}") }),
                    )
                }
                Err(e) => return self.store_error("id_for", &e, None),
            }
        }
    }

    /// Open the database without executing a step (writer child start-up, post-kill recovery).
    pub fn open_db(&mut self) -> bool {
        self.ensure_plane()
    }
}
