//! Engine `remote` (C11): WARP envelopes cross the socket unchanged and reach only their addressee.
//!
//! Parts (select with `--only a,b`; a name also selects the parts it prefixes, e.g.
//! `--only multi-reader` runs `multi-reader` and `multi-reader-threads`):
//!  * `pure-pool`, `pure-random` – real `ReconEncoder` output read back by the real
//!    `peel_envelope_header_str`: same kind, node, lane, body.
//!  * `socket`      – a `RemoteTask` on each end of a `tokio::io::duplex` under ratchet web sockets:
//!    agents on one side, downlinks and one-way commanders on the other.
//!  * `socket-raw`  – one `RemoteTask` against a raw ratchet peer that writes valid, respelt and
//!    mutated envelopes.
//!  * `socket-edge` – one `RemoteTask` against the raw peer on the paths where an envelope has no
//!    addressee (unknown node / lane, client-only task) or the connection goes away under live
//!    traffic (peer Close, transport EOF, failing writes, close time-out), and with an attached
//!    channel that writes a corrupt frame.
//!  * `multi-reader`, `multi-reader-threads` – `MultiReader` at poll level with counting wakers,
//!    and woken from foreign OS threads (TSan / Miri workloads).

mod mreader;
mod names;
mod pure;
mod rawpeer;
mod socket;

use common::Session;

pub const P: &str = "C11";

fn main() {
    let mut s = Session::new("remote");
    if s.prop() != P {
        s.note(format!("engine remote serves only {P}; nothing run for '{}'", s.prop()));
        s.finish();
    }
    let only: Option<Vec<String>> = s.args.extra.get("only").map(|o| o.split(',').map(str::to_string).collect());
    let want = |name: &str| only.as_ref().map_or(true, |os| os.iter().any(|o| name == o || name.starts_with(&format!("{o}-"))));
    let scale = s.args.scale;

    let names = names::name_pool();
    let mut bodies = names::body_pool();
    bodies.extend(names::body_pool_leading_space());

    if want("pure-pool") {
        let n = names.len() as u64;
        let cases = if scale < 1.0 { s.args.budget(n, n).min(n) } else { n };
        let rule = format!(
            "one case per node string of a pool of {} names (empty, true/false, identifiers with '-', quotes, backslashes, escapes-lookalikes, \
             control, C1, non-BMP, %xx, spaces, slashes, header syntax characters): every lane of the same pool x every input ReconEncoder \
             accepts (link, sync, unlink, command, linked, synced, unlinked with and without body, event, NoSuchAgent with and without lane) x \
             {} bodies (empty, attribute-first, plain, quoted, multi-line, 5 kB, leading white space); encode with the real encoder, read back \
             with peel_envelope_header_str: same kind, node, lane, body (modulo leading white space), no fabricated rate/prio; distinct by node",
            names.len(),
            bodies.len()
        );
        s.part("pure-pool", &rule, cases == n, cases, |i, _rng, out| pure::pool_case(i as usize, &names, &bodies, out));
    }

    if want("pure-random") {
        let cases = s.args.budget(300_000, 10_000_000);
        s.part(
            "pure-random",
            "seeded random node and lane (concatenations of atoms: letters, '-', digits, '/', space, quote, backslash, controls, non-BMP, %xx, header \
             syntax, the words true/false/node/lane; identifier- and URI-shaped strings; pool members) x random encoder input x pool or tagged \
             body: same round-trip oracle as pure-pool; non-trivial when at least one name is not a bare identifier; distinct by hash of the inputs",
            false,
            cases,
            |_i, rng, out| pure::random_case(rng, &names, &bodies, out),
        );
    }

    let selftest = s.args.extra.get("selftest").cloned();
    if want("socket") {
        let cases = s.args.budget(15_000, 400_000);
        s.part("socket", socket::RULE_DUPLEX, false, cases, |_i, rng, out| socket::duplex_case(rng, &names, selftest.as_deref(), out));
    }

    if want("socket-raw") {
        let cases = s.args.budget(15_000, 400_000);
        s.part("socket-raw", socket::RULE_RAW, false, cases, |_i, rng, out| socket::raw_case(rng, &names, out));
    }

    if want("socket-edge") {
        let cases = s.args.budget(8_000, 200_000);
        s.part("socket-edge", socket::RULE_EDGE, false, cases, |_i, rng, out| socket::edge_case(rng, &names, out));
    }

    if want("multi-reader") {
        let cases = s.args.budget(5_000, 200_000);
        // Miri / sanitizer passes: fewer streams and items per case (still across the 64 boundary).
        let small = scale < 0.01;
        s.part("multi-reader", mreader::RULE_POLL, false, cases, |_i, rng, out| mreader::poll_case(rng, small, selftest.as_deref() == Some("silent-feed"), out));
    }

    if want("multi-reader-threads") {
        let cases = s.args.budget(2_000, 50_000);
        let small = scale < 0.01;
        s.part("multi-reader-threads", mreader::RULE_THREADS, false, cases, |_i, rng, out| mreader::threads_case(rng, small, out));
    }

    s.finish()
}
