//! Socket parts: real `RemoteTask`s over `tokio::io::duplex` wrapped by ratchet web sockets.
//!
//! `duplex_case`: a `RemoteTask` on each end. Side 0 hosts agents (the harness answers `FindNode`
//! with byte channels it owns), side 1 hosts downlinks (`AttachClient::AttachDownlink`) and one-way
//! commanders; in a third of the cases both sides host both. `raw_case`: one `RemoteTask` (agents,
//! downlinks, commanders) against a raw ratchet peer driven by the harness, which writes valid
//! envelopes in several spellings, envelopes that are invalid by construction and random mutations
//! (classified by the real reader), and reads what the task writes. `edge::edge_case` (part
//! `socket-edge`, file `socket/edge.rs`): the raw flavour on the paths where an envelope has no
//! addressee or the connection goes away under live traffic; it shares the world generator, the
//! actors, `settle` and the oracle (`evaluate_with`) with the other two.
//!
//! Everything runs on a paused current-thread runtime; quiescence is "no arrival during a 50 ms
//! virtual sleep" (all pacing delays of the harness are at most 20 ms). Every message carries a
//! unique body (`source << 32 | n` in one of several Recon shapes) unless its kind has no body;
//! messages without a unique body are matched by count.
//!
//! A paused clock only advances when nothing is runnable, so a system under test that stays
//! runnable for ever (two tasks answering each other's frames without end) would starve every
//! timer of the harness. Two logical step budgets end such a case and classify it (`Abort`): the
//! resolver's count of `FindNode` requests against the request envelopes written, and the
//! per-task poll budget of `Guard`. Wall-clock time is never consulted.

use std::collections::{HashMap, HashSet};
use std::future::Future;
use std::num::NonZeroUsize;
use std::pin::Pin;
use std::sync::{Arc, Mutex};
use std::task::{Context, Poll};
use std::time::Duration;

use bytes::{Bytes, BytesMut};
use common::jitter::Jitter;
use common::{json, ticket, CaseOut, Json, Rng};
use futures::{SinkExt, StreamExt};
use ratchet::{NoExt, Role, WebSocket, WebSocketConfig};
use swimos_api::address::RelativeAddress;
use swimos_messages::protocol::{
    BytesRequestMessage, BytesResponseMessage, Notification, Operation, RawRequestMessageDecoder, RawRequestMessageEncoder,
    RawResponseMessageDecoder, RawResponseMessageEncoder, RequestMessage, ResponseMessage,
};
use swimos_messages::remote_protocol::{AgentResolutionError, AttachClient, FindNode, NoSuchAgent, NodeConnectionRequest};
use swimos_remote::RemoteTask;
use swimos_utilities::byte_channel::{byte_channel, ByteReader};
use swimos_utilities::encoding::BytesStr;
use swimos_utilities::trigger;
use tokio::io::{duplex, DuplexStream};
use tokio::sync::{mpsc, oneshot};
use tokio_util::codec::{FramedRead, FramedWrite};
use uuid::Uuid;

use crate::names::{body_class, name_class, random_name, tagged_body};
use crate::pure::{self, Enc};
use crate::rawpeer;
use crate::P;

mod edge;
pub use edge::{edge_case, RULE_EDGE};

pub const RULE_DUPLEX: &str = "two RemoteTasks joined by tokio::io::duplex (buffer 64 B - 64 kB) under ratchet web sockets, each future behind a seeded Jitter, on a \
    paused current-thread runtime: side 0 hosts 1-6 agents (FindNode answered with harness-owned byte channels of capacity 16 B - 4 kB; up to \
    3 scripted instances per node, instances drop their reader after a seeded number of frames), side 1 hosts 1-6 downlinks (AttachDownlink, \
    late attaches, shared (node, lane) pairs, readers dropped at seeded points) and 0-2 one-way commanders; a third of the cases host both on \
    both sides; unknown nodes are answered NoSuchAgent; registration buffers 1-8. Node and lane names come from the pure parts' generators. \
    Each source writes 0-25 uniquely tagged link/sync/unlink/command or linked/synced/unlinked/event messages, mostly to its own address, \
    some to other and to unsubscribed addresses, with yields and virtual sleeps; readers pace with yields and stalls of at most 20 ms. \
    Oracle on the frames decoded from the byte channels: address equals the endpoint's (node for agents, node+lane for downlinks); the frame \
    is one that was sent, with kind, node, lane and body unchanged and origin = the task's id; per (source, endpoint) arrivals in send order, \
    no duplicates; a message is lost only if its endpoint detached after the send (agents) or was not attached throughout (downlinks); \
    every non-command request to an unknown node yields one @unlinked @nodeNotFound at the subscribed downlinks; nothing arrives that was \
    not sent; a frame whose body is the body of a written frame followed by a complete envelope is two envelopes written as one frame; \
    FindNode carries an address that was written, and a side is never asked for more nodes than request envelopes were written to it (the \
    case ends there: tasks acting on envelopes nobody wrote can feed each other for ever); the system never wedges (virtual time advances \
    only when nothing is runnable, so: no send, arrival or script end during 2 x 50 ms + 6 s while a source is still blocked, or a probe \
    AttachDownlink unconfirmed after 30 s, means for ever) and never spins (a task polled more than 1000 x (scripted messages + endpoints + \
    50) times at one virtual instant is dropped and reported; the unchanged tree stays below 1% of that). Non-trivial when at least two sources delivered to at least two endpoints and some writer hit back-pressure \
    (Pending); distinct by hash of the global (endpoint, frame) arrival order";

pub const RULE_RAW: &str = "one RemoteTask (1-4 agents, 1-4 downlinks, 0-1 commanders, as in part socket) against a raw peer owned by the harness that speaks RFC 6455 \
    through its own framer (independent read and write directions). The peer writes 5-40 frames: valid envelopes for the agents and \
    downlinks in several spellings (the real ReconEncoder's; always-quoted names; lane before node; spaces, ';' and new-line separators; \
    \\uXXXX escapes; rate/prio slots), one in six split into 2-3 fragments, @auth/@deauth, pings, and in half of the cases one frame that is \
    not a valid envelope (truncated header, unknown tag, missing or extra slot, value items, bad escape, lone surrogate escape, bad rate, \
    empty node or lane value, no header, no '@', unterminated string, empty frame, binary frame, invalid UTF-8, or a random one-character \
    mutation that the real reader rejects) followed by further valid frames; random mutations that the real reader accepts are treated as \
    the valid envelope it decodes. The peer also reads and decodes (peel_envelope_header_str) every text frame the task writes. Oracle: as \
    in part socket for both directions (the peer is an endpoint for everything the task's agents and downlinks write); nothing derived \
    from the invalid frame or from @auth/@deauth reaches any agent or downlink; the task does not panic, does not wedge and does not spin \
    (same step budgets as part socket). Non-trivial \
    when frames were delivered in both directions and, if an invalid frame was injected, the task ended; distinct by hash of the global \
    arrival order";

const ID0: Uuid = Uuid::from_u128(0x5e5e_0000);
const ID1: Uuid = Uuid::from_u128(0xc1c1_1111);
const PEER_SRC: u32 = 9_000;
const NOTFOUND_SRC: u32 = 9_100; // + side

// ------------------------------------------------------------------------------------------------
// Frames

#[derive(Clone, Copy, Debug, PartialEq, Eq, Hash)]
pub enum Kind {
    Link,
    Sync,
    Unlink,
    Command,
    Linked,
    Synced,
    Unlinked,
    Event,
}

impl Kind {
    fn name(self) -> &'static str {
        match self {
            Kind::Link => "link",
            Kind::Sync => "sync",
            Kind::Unlink => "unlink",
            Kind::Command => "command",
            Kind::Linked => "linked",
            Kind::Synced => "synced",
            Kind::Unlinked => "unlinked",
            Kind::Event => "event",
        }
    }
    fn from_name(s: &str) -> Option<Kind> {
        Some(match s {
            "link" => Kind::Link,
            "sync" => Kind::Sync,
            "unlink" => Kind::Unlink,
            "command" => Kind::Command,
            "linked" => Kind::Linked,
            "synced" => Kind::Synced,
            "unlinked" => Kind::Unlinked,
            "event" => Kind::Event,
            _ => return None,
        })
    }
    fn is_request(self) -> bool {
        matches!(self, Kind::Link | Kind::Sync | Kind::Unlink | Kind::Command)
    }
}

/// What an envelope says. An absent body and an empty body are the same thing on the wire.
#[derive(Clone, Debug, PartialEq, Eq, Hash)]
pub struct Frame {
    kind: Kind,
    node: String,
    lane: String,
    body: Vec<u8>,
}

impl Frame {
    fn request(&self, origin: Uuid) -> BytesRequestMessage {
        let path = RelativeAddress::new(BytesStr::from(self.node.as_str()), BytesStr::from(self.lane.as_str()));
        let envelope = match self.kind {
            Kind::Link => Operation::Link,
            Kind::Sync => Operation::Sync,
            Kind::Unlink => Operation::Unlink,
            _ => Operation::Command(Bytes::copy_from_slice(&self.body)),
        };
        RequestMessage { origin, path, envelope }
    }

    fn response(&self, origin: Uuid) -> BytesResponseMessage {
        let path = RelativeAddress::new(BytesStr::from(self.node.as_str()), BytesStr::from(self.lane.as_str()));
        let envelope = match self.kind {
            Kind::Linked => Notification::Linked,
            Kind::Synced => Notification::Synced,
            Kind::Unlinked => Notification::Unlinked(if self.body.is_empty() { None } else { Some(Bytes::copy_from_slice(&self.body)) }),
            _ => Notification::Event(Bytes::copy_from_slice(&self.body)),
        };
        ResponseMessage { origin, path, envelope }
    }

    fn of_request(m: &BytesRequestMessage) -> Frame {
        let (kind, body) = match &m.envelope {
            Operation::Link => (Kind::Link, vec![]),
            Operation::Sync => (Kind::Sync, vec![]),
            Operation::Unlink => (Kind::Unlink, vec![]),
            Operation::Command(b) => (Kind::Command, b.to_vec()),
        };
        Frame { kind, node: m.path.node.as_str().to_string(), lane: m.path.lane.as_str().to_string(), body }
    }

    fn of_response(m: &BytesResponseMessage) -> Frame {
        let (kind, body) = match &m.envelope {
            Notification::Linked => (Kind::Linked, vec![]),
            Notification::Synced => (Kind::Synced, vec![]),
            Notification::Unlinked(b) => (Kind::Unlinked, b.as_ref().map(|b| b.to_vec()).unwrap_or_default()),
            Notification::Event(b) => (Kind::Event, b.to_vec()),
        };
        Frame { kind, node: m.path.node.as_str().to_string(), lane: m.path.lane.as_str().to_string(), body }
    }

    fn show(&self) -> Json {
        let clip = |s: &str| if s.chars().count() > 80 { format!("{}…", s.chars().take(80).collect::<String>()) } else { s.to_string() };
        json!({"kind": self.kind.name(), "node": clip(&self.node), "lane": clip(&self.lane), "body": clip(&String::from_utf8_lossy(&self.body))})
    }
}

// ------------------------------------------------------------------------------------------------
// World description (a pure function of the case's rng)

#[derive(Clone, Debug)]
enum Step {
    Send(Frame, bool), // frame, unique body
    Yield(u32),
    Sleep(u64),
}

#[derive(Clone, Copy, Debug)]
enum Pace {
    Fast,
    Yield(u32),
    /// Stall for `ms` virtual milliseconds every `every` frames.
    Stall { every: u32, ms: u64 },
}

#[derive(Clone, Debug)]
struct ReaderSpec {
    stop_after: Option<usize>,
    pace: Pace,
}

#[derive(Clone, Debug)]
struct InstSpec {
    source: u32,
    script: Vec<Step>,
    in_cap: usize,
    out_cap: usize,
    reader: ReaderSpec,
    keep_writer: bool,
    answer_delay: u32,
    /// The agent dies in the middle of writing a frame: a strict prefix of one more frame, then the channel closes.
    end_mid_frame: bool,
    /// Part socket-edge only: after its script the agent writes one complete frame that the task's
    /// decoder rejects (marker string for the observation of what becomes of it).
    corrupt_end: Option<(Corrupt, String)>,
}

/// A complete frame on a byte channel that the raw message decoders reject.
#[derive(Clone, Copy, Debug, PartialEq, Eq)]
pub(crate) enum Corrupt {
    /// A frame of the other direction (request tag on an agent's channel, response tag on a downlink's).
    ForeignTag,
    /// A body length on a kind that has no body (linked / link).
    BodyOnBodylessKind,
    /// Node bytes that are not UTF-8.
    InvalidUtf8Name,
}

impl Corrupt {
    fn name(self) -> &'static str {
        match self {
            Corrupt::ForeignTag => "foreign-tag",
            Corrupt::BodyOnBodylessKind => "body-on-bodyless-kind",
            Corrupt::InvalidUtf8Name => "invalid-utf8-name",
        }
    }

    /// The bytes of the frame: 16 B id, u32 node length, u32 lane length, u64 (tag << 61 | body length), node, lane, body.
    fn bytes(self, id: Uuid, node: &str, lane: &str, marker: &str, on_response_channel: bool) -> Vec<u8> {
        let (tag, node_b, body): (u64, Vec<u8>, Vec<u8>) = match (self, on_response_channel) {
            (Corrupt::ForeignTag, true) => (0b011, node.as_bytes().to_vec(), marker.as_bytes().to_vec()), // command
            (Corrupt::ForeignTag, false) => (0b111, node.as_bytes().to_vec(), marker.as_bytes().to_vec()), // event
            (Corrupt::BodyOnBodylessKind, true) => (0b100, node.as_bytes().to_vec(), marker.as_bytes().to_vec()), // linked
            (Corrupt::BodyOnBodylessKind, false) => (0b000, node.as_bytes().to_vec(), marker.as_bytes().to_vec()), // link
            (Corrupt::InvalidUtf8Name, true) => (0b111, vec![b'/', 0xff, 0xfe], marker.as_bytes().to_vec()),
            (Corrupt::InvalidUtf8Name, false) => (0b011, vec![b'/', 0xff, 0xfe], marker.as_bytes().to_vec()),
        };
        let mut b = Vec::new();
        b.extend_from_slice(&id.as_u128().to_be_bytes());
        b.extend_from_slice(&(node_b.len() as u32).to_be_bytes());
        b.extend_from_slice(&(lane.len() as u32).to_be_bytes());
        b.extend_from_slice(&((tag << 61) | body.len() as u64).to_be_bytes());
        b.extend_from_slice(&node_b);
        b.extend_from_slice(lane.as_bytes());
        b.extend_from_slice(&body);
        b
    }
}

#[derive(Clone, Debug)]
struct NodeSpec {
    name: String,
    instances: Vec<InstSpec>,
}

#[derive(Clone, Debug)]
struct DlSpec {
    source: u32,
    node: String,
    lane: String,
    start_delay: u64,
    script: Vec<Step>,
    in_cap: usize,
    out_cap: usize,
    reader: ReaderSpec,
    keep_writer: bool,
    /// Part socket-edge only, as for `InstSpec`.
    corrupt_end: Option<(Corrupt, String)>,
}

#[derive(Clone, Debug)]
struct CmdSpec {
    source: u32,
    start_delay: u64,
    script: Vec<Step>,
    cap: usize,
}

#[derive(Clone, Debug)]
struct SideSpec {
    id: Uuid,
    nodes: Vec<NodeSpec>,
    has_find: bool,
    downlinks: Vec<DlSpec>,
    commanders: Vec<CmdSpec>,
    reg_buf: usize,
    attach_cap: usize,
    jitter: u64,
    /// Part socket-edge only: the resolver refuses through `NodeConnectionRequest::fail`.
    fail_api: bool,
    /// Part socket-edge only: nodes for which the resolver answers `PlaneStopping`.
    stopping_nodes: Vec<String>,
}

struct World {
    sides: Vec<SideSpec>,
    duplex_buf: usize,
    symmetric: bool,
}

const CAPS: [usize; 7] = [16, 24, 40, 64, 256, 1024, 4096];

struct Gen<'a> {
    rng: &'a mut Rng,
    pool: &'a [String],
    next_source: u32,
    lanes: Vec<String>,
    /// All node names of the case (known on some side or known nowhere).
    node_names: Vec<String>,
    salt: u64,
}

impl<'a> Gen<'a> {
    fn distinct_names(&mut self, n: usize, taken: &mut HashSet<String>) -> Vec<String> {
        let mut v = Vec::new();
        let mut guard = 0;
        while v.len() < n && guard < 1000 {
            guard += 1;
            let s = random_name(self.rng, self.pool);
            // A name over 200 bytes would not fit the smallest byte channels' frames comfortably
            // more than once; allowed, but rarely.
            if s.len() > 200 && !self.rng.chance(1, 6) {
                continue;
            }
            if taken.insert(s.clone()) {
                v.push(s);
            }
        }
        v
    }

    fn source(&mut self) -> u32 {
        self.next_source += 1;
        self.next_source
    }

    fn reader(&mut self, may_stop: bool) -> ReaderSpec {
        let stop_after = if may_stop && self.rng.chance(1, 4) { Some(self.rng.range(0, 12) as usize) } else { None };
        let pace = match self.rng.below(4) {
            0 | 1 => Pace::Fast,
            2 => Pace::Yield(self.rng.range(1, 20) as u32),
            _ => Pace::Stall { every: self.rng.range(1, 6) as u32, ms: self.rng.range(1, 20) },
        };
        ReaderSpec { stop_after, pace }
    }

    /// Unlinked messages for one address either all carry a body or none does, so that an
    /// unlinked that arrives without body is attributable (see `evaluate`).
    fn unlinked_has_body(&self, node: &str, lane: &str, node_known: bool) -> bool {
        !node_known || common::fnv_of(&(node, lane, self.salt)) & 1 == 1
    }

    fn script(&mut self, source: u32, requests: bool, own: Option<(&str, &str)>, known_here: &[String], known_there: &[String], len: u64) -> Vec<Step> {
        let mut steps = Vec::new();
        let mut seq = 0u32;
        for _ in 0..len {
            match self.rng.below(10) {
                0 => steps.push(Step::Yield(self.rng.range(1, 30) as u32)),
                1 => steps.push(Step::Sleep(self.rng.range(1, 5))),
                _ => {}
            }
            // Address.
            let (node, lane) = match own {
                Some((n, l)) if self.rng.chance(3, 4) => (n.to_string(), l.to_string()),
                _ => {
                    let node = if requests {
                        // a node of the other side, sometimes one that exists nowhere
                        if !known_there.is_empty() && self.rng.chance(4, 5) { self.rng.pick(known_there).clone() } else { self.rng.pick(&self.node_names).clone() }
                    } else if let (Some((n, _)), true) = (own, self.rng.chance(1, 2)) {
                        n.to_string()
                    } else {
                        self.rng.pick(&self.node_names).clone()
                    };
                    let lane = if self.rng.chance(5, 6) { self.rng.pick(&self.lanes).clone() } else { random_name(self.rng, self.pool) };
                    (node, lane)
                }
            };
            let kind = if requests {
                match self.rng.below(100) {
                    0..=14 => Kind::Link,
                    15..=29 => Kind::Sync,
                    30..=39 => Kind::Unlink,
                    _ => Kind::Command,
                }
            } else {
                match self.rng.below(100) {
                    0..=11 => Kind::Linked,
                    12..=23 => Kind::Synced,
                    24..=41 => Kind::Unlinked,
                    _ => Kind::Event,
                }
            };
            let with_body = match kind {
                Kind::Command | Kind::Event => !self.rng.chance(1, 30),
                // For responses "known" is about the side that hosts the agent.
                Kind::Unlinked => self.unlinked_has_body(&node, &lane, known_here.contains(&node)),
                _ => false,
            };
            let body = if with_body {
                let b = tagged_body(self.rng, (source as u64) << 32 | seq as u64);
                seq += 1;
                b.into_bytes()
            } else {
                vec![]
            };
            steps.push(Step::Send(Frame { kind, node, lane, body }, with_body));
        }
        steps
    }
}

fn gen_world(rng: &mut Rng, pool: &[String], raw: bool) -> World {
    let salt = rng.next_u64();
    let mut g = Gen { rng, pool, next_source: 0, lanes: vec![], node_names: vec![], salt };
    let mut taken = HashSet::new();
    let n_lanes = g.rng.range(2, 5) as usize;
    g.lanes = g.distinct_names(n_lanes, &mut HashSet::new());
    let symmetric = !raw && g.rng.chance(1, 3);
    let max_nodes = if raw { 4 } else { 6 };
    let n0 = g.rng.range(1, max_nodes) as usize;
    let n1 = if symmetric { g.rng.range(1, 3) as usize } else { 0 };
    let n_unknown = g.rng.range(0, 2) as usize;
    let names0 = g.distinct_names(n0, &mut taken);
    let names1 = g.distinct_names(n1, &mut taken);
    let unknown = g.distinct_names(n_unknown, &mut taken);
    g.node_names = names0.iter().chain(names1.iter()).chain(unknown.iter()).cloned().collect();
    let known = [names0.clone(), names1.clone()];

    let mut sides = Vec::new();
    for side in 0..2usize {
        let here = &known[side];
        let there = &known[1 - side];
        // Agents.
        let mut nodes = Vec::new();
        for name in here {
            let mut instances = Vec::new();
            for k in 0..3 {
                let source = g.source();
                let len = g.rng.range(0, if k == 0 { 25 } else { 8 });
                let lane0 = g.rng.pick(&g.lanes).clone();
                let script = g.script(source, false, Some((name, &lane0)), here, there, len);
                instances.push(InstSpec {
                    source,
                    script,
                    in_cap: *g.rng.pick(&CAPS),
                    out_cap: *g.rng.pick(&CAPS),
                    reader: g.reader(k < 2),
                    keep_writer: g.rng.bool(),
                    answer_delay: if g.rng.chance(1, 3) { g.rng.range(1, 10) as u32 } else { 0 },
                    end_mid_frame: g.rng.chance(1, 6),
                    corrupt_end: None,
                });
            }
            nodes.push(NodeSpec { name: name.clone(), instances });
        }
        // Downlinks and commanders live on the side opposite to the agents they talk to; in the
        // raw flavour everything lives on side 0 and the peer is side 1.
        let hosts_clients = if raw { side == 0 } else { side == 1 || symmetric };
        let mut downlinks = Vec::new();
        let mut commanders = Vec::new();
        if hosts_clients {
            let n_dl = g.rng.range(1, if raw { 4 } else { 6 }) as usize;
            for _ in 0..n_dl {
                let (node, lane) = if !downlinks.is_empty() && g.rng.chance(1, 4) {
                    let d: &DlSpec = g.rng.pick(&downlinks);
                    (d.node.clone(), d.lane.clone())
                } else {
                    let node = if !there.is_empty() && g.rng.chance(5, 6) { g.rng.pick(there).clone() } else { g.rng.pick(&g.node_names).clone() };
                    (node, g.rng.pick(&g.lanes).clone())
                };
                let source = g.source();
                let len = g.rng.range(0, 25);
                let script = g.script(source, true, Some((&node, &lane)), here, there, len);
                downlinks.push(DlSpec {
                    source,
                    node,
                    lane,
                    start_delay: if g.rng.chance(1, 3) { g.rng.range(1, 15) } else { 0 },
                    script,
                    in_cap: *g.rng.pick(&CAPS),
                    out_cap: *g.rng.pick(&CAPS),
                    reader: g.reader(true),
                    keep_writer: g.rng.bool(),
                    corrupt_end: None,
                });
            }
            let n_cmd = g.rng.range(0, if raw { 1 } else { 2 });
            for _ in 0..n_cmd {
                let source = g.source();
                let len = g.rng.range(1, 25);
                let script = g.script(source, true, None, here, there, len);
                commanders.push(CmdSpec { source, start_delay: if g.rng.bool() { g.rng.range(1, 10) } else { 0 }, script, cap: *g.rng.pick(&CAPS) });
            }
        }
        sides.push(SideSpec {
            id: if side == 0 { ID0 } else { ID1 },
            has_find: !nodes.is_empty() || g.rng.bool(),
            nodes,
            downlinks,
            commanders,
            reg_buf: g.rng.range(1, 8) as usize,
            attach_cap: g.rng.range(1, 8) as usize,
            jitter: *g.rng.pick(&[0, 0, 50, 200, 500]),
            fail_api: false,
            stopping_nodes: vec![],
        });
    }
    let duplex_buf = *g.rng.pick(&[64usize, 256, 1024, 4096, 65536]);
    World { sides, duplex_buf, symmetric }
}

impl World {
    /// (messages in all scripts, endpoints and one-way sources) - what the step budget scales with.
    fn size(&self) -> (u64, u64) {
        let sends = |sc: &[Step]| sc.iter().filter(|s| matches!(s, Step::Send(..))).count() as u64;
        let mut n = 0;
        let mut eps = 0;
        for s in &self.sides {
            for node in &s.nodes {
                eps += node.instances.len() as u64;
                n += node.instances.iter().map(|i| sends(&i.script)).sum::<u64>();
            }
            eps += (s.downlinks.len() + s.commanders.len()) as u64;
            n += s.downlinks.iter().map(|d| sends(&d.script)).sum::<u64>();
            n += s.commanders.iter().map(|c| sends(&c.script)).sum::<u64>();
        }
        (n, eps)
    }
}

// ------------------------------------------------------------------------------------------------
// Log shared by all actors of a case

#[derive(Clone, Copy, Debug, PartialEq, Eq, Hash)]
enum Ep {
    Agent { side: usize, node: usize },
    Downlink { side: usize, idx: usize },
    Peer,
}

struct Sent {
    ticket: u64,
    side: usize,
    source: u32,
    seq: u32,
    frame: Frame,
    unique: bool,
    failed: bool,
    /// Raw flavour: written after the injected invalid frame (delivery is not owed).
    after_invalid: bool,
}

struct Arrival {
    ep: Ep,
    origin: Option<Uuid>,
    frame: Frame,
}

#[derive(Default)]
struct LogInner {
    sent: Vec<Sent>,
    arrivals: Vec<Arrival>,
    finds: Vec<(usize, String, Option<String>, bool)>,
    /// (side, node index) -> detach tickets of its instances
    agent_detach: HashMap<(usize, usize), Vec<u64>>,
    agent_instances: HashMap<(usize, usize), usize>,
    dl_attach_done: HashMap<(usize, usize), u64>,
    dl_detach: HashMap<(usize, usize), u64>,
    /// Things the harness saw go wrong at its own boundary: (signature, what, detail).
    problems: Vec<(String, String, Json)>,
    pending_hits: u64,
    peer_closed: Option<String>,
    seq_by_source: HashMap<u32, u32>,
    finished_sources: HashSet<u32>,
    /// Attach requests dropped or refused (legitimate only when the task was stopping).
    attach_unconfirmed: u64,
    /// Fragmented messages of the raw peer with a control frame between two fragments.
    control_inside_message: u64,
    /// Agent channels that ended in the middle of a frame.
    agent_mid_frame_ends: u64,
    /// Set when a logical step budget of the case was exceeded: both tasks are dropped at their
    /// next poll (see `Guard`) and the case is judged on what was observed up to then.
    abort: Option<Abort>,
    /// Per task: (side, most polls at one virtual instant, polls in total, budget), recorded when it ends.
    task_polls: Vec<(usize, u64, u64, u64)>,
    /// Part socket-edge: branch counters of the harness actors.
    counts: HashMap<&'static str, u64>,
    /// Harness readers (agent / downlink ends of the byte channels the task writes to) still waiting for a frame.
    readers_live: [u64; 2],
    /// Part socket-edge: (ticket, source) of the corrupt frames written to byte channels.
    corrupt_written: Vec<(u64, u32)>,
}

impl LogInner {
    fn bump(&mut self, key: &'static str) {
        *self.counts.entry(key).or_insert(0) += 1;
    }
}

/// Runs a harness reader and keeps count of the readers that have not returned (0: agents, 1: downlinks).
async fn tracked(log: Log, which: usize, reader: impl Future<Output = ()>) {
    log.lock().unwrap().readers_live[which] += 1;
    reader.await;
    log.lock().unwrap().readers_live[which] -= 1;
}

/// Why a case was cut short. Both are decided on logical steps, never on wall-clock time.
#[derive(Clone, Debug, PartialEq, Eq)]
enum Abort {
    /// The task of `side` was polled `polls` times at one virtual instant: it keeps itself (or its
    /// peer) runnable for ever, so the paused clock can never advance and no timer-based
    /// quiescence test would ever run.
    Spinning { side: usize, polls: u64, budget: u64 },
    /// The resolver of `side` was asked for more nodes than request envelopes were written to that
    /// side (every incoming request envelope causes at most one FindNode).
    ExcessFindNode { side: usize },
}

type Log = Arc<Mutex<LogInner>>;

fn log_send(log: &Log, side: usize, source: u32, frame: &Frame, unique: bool, after_invalid: bool) -> usize {
    let mut l = log.lock().unwrap();
    let seq = {
        let s = l.seq_by_source.entry(source).or_insert(0);
        *s += 1;
        *s
    };
    l.sent.push(Sent { ticket: ticket(), side, source, seq, frame: frame.clone(), unique, failed: false, after_invalid });
    l.sent.len() - 1
}

fn nz(n: usize) -> NonZeroUsize {
    NonZeroUsize::new(n.max(1)).unwrap()
}

async fn yields(n: u32) {
    for _ in 0..n {
        tokio::task::yield_now().await;
    }
}

/// Step budget around one `RemoteTask` future (everything a task does happens inside polls of this
/// one future). On a paused clock virtual time advances only when nothing is runnable, so tasks
/// that keep each other busy for ever (an endless exchange of frames, a self-waking loop) would
/// starve every timer of the harness and the case would never end. The guard counts the polls of
/// the task at the current virtual instant; beyond the budget (orders of magnitude above what the
/// finite scripts of the case can cause, see `spin_budget`) it drops the task and records
/// `Abort::Spinning`. It also drops the task as soon as any actor of the case recorded an abort.
struct Guard<F> {
    inner: Option<Pin<Box<F>>>,
    log: Log,
    side: usize,
    budget: u64,
    instant: tokio::time::Instant,
    polls_here: u64,
    max_here: u64,
    total: u64,
}

impl<F> Guard<F> {
    fn new(inner: F, log: Log, side: usize, budget: u64) -> Self {
        Guard { inner: Some(Box::pin(inner)), log, side, budget, instant: tokio::time::Instant::now(), polls_here: 0, max_here: 0, total: 0 }
    }

    fn end(&mut self, l: &mut LogInner) {
        self.inner = None;
        l.task_polls.push((self.side, self.max_here.max(self.polls_here), self.total, self.budget));
    }
}

impl<F> Unpin for Guard<F> {}

impl<F: Future<Output = ()>> Future for Guard<F> {
    type Output = ();

    fn poll(self: Pin<&mut Self>, cx: &mut Context<'_>) -> Poll<()> {
        let this = self.get_mut();
        if this.inner.is_none() {
            return Poll::Ready(());
        }
        let now = tokio::time::Instant::now();
        if now != this.instant {
            this.instant = now;
            this.max_here = this.max_here.max(this.polls_here);
            this.polls_here = 0;
        }
        this.polls_here += 1;
        this.total += 1;
        let log = this.log.clone();
        {
            let mut l = log.lock().unwrap();
            if l.abort.is_none() && this.polls_here > this.budget {
                l.abort = Some(Abort::Spinning { side: this.side, polls: this.polls_here, budget: this.budget });
            }
            if l.abort.is_some() {
                this.end(&mut l);
                return Poll::Ready(());
            }
        }
        let r = this.inner.as_mut().map(|f| f.as_mut().poll(cx)).unwrap_or(Poll::Ready(()));
        if r.is_ready() {
            let mut l = log.lock().unwrap();
            this.end(&mut l);
        }
        r
    }
}

/// Polls of one task at one virtual instant that the finite input of a case cannot explain: the
/// scripts of a case hold `sends` messages in total; moving one message costs each task a handful
/// of polls, attaching an endpoint a few more. Measured on the unchanged tree (counters
/// `step-budget-used/..`): no task of any case of 5 seeds comes within 1% of this budget.
fn spin_budget(sends: u64, endpoints: u64) -> u64 {
    SPIN_FACTOR * (sends + endpoints + 50)
}

const SPIN_FACTOR: u64 = 1_000;

/// Run a script against a request or response writer.
async fn run_script<W, F, M>(log: Log, side: usize, source: u32, script: Vec<Step>, mut writer: W, to_msg: F)
where
    W: futures::Sink<M, Error = std::io::Error> + Unpin,
    F: Fn(&Frame) -> M,
{
    for step in script {
        match step {
            Step::Yield(n) => yields(n).await,
            Step::Sleep(ms) => tokio::time::sleep(Duration::from_millis(ms)).await,
            Step::Send(frame, unique) => {
                let idx = log_send(&log, side, source, &frame, unique, false);
                let msg = to_msg(&frame);
                // Count back-pressure: poll the send once by hand.
                let mut fut = writer.send(msg);
                let first = futures::poll!(&mut fut);
                let r = match first {
                    std::task::Poll::Ready(r) => r,
                    std::task::Poll::Pending => {
                        log.lock().unwrap().pending_hits += 1;
                        fut.await
                    }
                };
                if r.is_err() {
                    // The task dropped our channel (it stopped): the message never entered the system.
                    log.lock().unwrap().sent[idx].failed = true;
                    return;
                }
            }
        }
    }
    log.lock().unwrap().finished_sources.insert(source);
}

async fn pace(p: Pace, n_read: usize) {
    match p {
        Pace::Fast => {}
        Pace::Yield(n) => yields(n).await,
        Pace::Stall { every, ms } => {
            if n_read % every as usize == 0 {
                tokio::time::sleep(Duration::from_millis(ms)).await;
            }
        }
    }
}

async fn agent_reader(log: Log, ep: Ep, reader: ByteReader, spec: ReaderSpec, key: (usize, usize)) {
    let mut framed = FramedRead::new(reader, RawRequestMessageDecoder);
    let mut n = 0usize;
    loop {
        if spec.stop_after == Some(n) {
            // Detach: the ticket is drawn before the reader goes, so a message sent later than
            // this ticket cannot have been in this instance's channel.
            let t = ticket();
            log.lock().unwrap().agent_detach.entry(key).or_default().push(t);
            drop(framed);
            return;
        }
        match framed.next().await {
            Some(Ok(m)) => {
                n += 1;
                log.lock().unwrap().arrivals.push(Arrival { ep, origin: Some(m.origin), frame: Frame::of_request(&m) });
                pace(spec.pace, n).await;
            }
            Some(Err(e)) => {
                let mut l = log.lock().unwrap();
                // A task the harness dropped at a step budget may have been in the middle of a frame.
                if l.abort.is_none() {
                    l.problems.push(("undecodable-bytes-on-agent-channel".into(), format!("the task wrote bytes the request decoder rejects: {e}"), Json::Null));
                }
                return;
            }
            None => return,
        }
    }
}

async fn downlink_reader(log: Log, ep: Ep, reader: ByteReader, spec: ReaderSpec, key: (usize, usize)) {
    let mut framed = FramedRead::new(reader, RawResponseMessageDecoder);
    let mut n = 0usize;
    loop {
        if spec.stop_after == Some(n) {
            let t = ticket();
            log.lock().unwrap().dl_detach.insert(key, t);
            drop(framed);
            return;
        }
        match framed.next().await {
            Some(Ok(m)) => {
                n += 1;
                log.lock().unwrap().arrivals.push(Arrival { ep, origin: Some(m.origin), frame: Frame::of_response(&m) });
                pace(spec.pace, n).await;
            }
            Some(Err(e)) => {
                let mut l = log.lock().unwrap();
                if l.abort.is_none() {
                    l.problems.push(("undecodable-bytes-on-downlink-channel".into(), format!("the task wrote bytes the response decoder rejects: {e}"), Json::Null));
                }
                return;
            }
            None => return,
        }
    }
}

/// Answers `FindNode`: known nodes get a fresh agent instance, anything else `NoSuchAgent`.
async fn resolver(log: Log, side: usize, spec: SideSpec, mut find_rx: mpsc::Receiver<FindNode>, scripts: mpsc::UnboundedSender<tokio::task::JoinHandle<()>>) {
    while let Some(FindNode { node, lane, request }) = find_rx.recv().await {
        let source = match &request {
            NodeConnectionRequest::Warp { source, .. } => *source,
            _ => {
                log.lock().unwrap().problems.push(("findnode-not-warp".into(), "RemoteTask asked for an HTTP connection".into(), Json::Null));
                continue;
            }
        };
        {
            let mut l = log.lock().unwrap();
            l.finds.push((side, node.to_string(), lane.as_ref().map(|l| l.to_string()), source == spec.id));
            // Every request envelope that arrives causes at most one FindNode (none while its
            // node has a live route), and a request is logged before it is written: more
            // requests for a node than request envelopes written to this side so far means that
            // the task acts on envelopes nobody wrote. Nothing bounds how long that goes on
            // (two tasks can feed each other for ever), so the case ends here.
            let asked = l.finds.iter().filter(|f| f.0 == side).count();
            let written = l.sent.iter().filter(|s| s.side != side && s.frame.kind.is_request()).count();
            if asked > written {
                if l.abort.is_none() {
                    l.abort = Some(Abort::ExcessFindNode { side });
                    l.problems.push((
                        "more-findnode-requests-than-request-envelopes-written".into(),
                        "the task asked for the agent of a node more often than request envelopes were written to it: it acts on envelopes nobody wrote".into(),
                        json!({"findnode_requests": asked, "request_envelopes_written_to_this_side": written, "node": node.to_string(), "lane": lane.as_ref().map(|l| l.to_string())}),
                    ));
                }
                // Not answered: both tasks are dropped at their next poll.
                continue;
            }
        }
        let found = spec.nodes.iter().position(|n| n.name == node.as_str());
        if found.is_none() && spec.fail_api {
            // Part socket-edge: refusals go through the public `fail` (same promise, same value).
            let stopping = spec.stopping_nodes.iter().any(|n| n == node.as_str());
            log.lock().unwrap().bump(if stopping { "resolver/fail-api/plane-stopping" } else { "resolver/fail-api/no-such-agent" });
            let err = if stopping { AgentResolutionError::PlaneStopping } else { NoSuchAgent { node, lane }.into() };
            if request.fail(err).is_err() {
                log.lock().unwrap().bump("resolver/fail-api/promise-dropped");
            }
            continue;
        }
        let NodeConnectionRequest::Warp { promise, .. } = request else { continue };
        match found {
            None => {
                let _ = promise.send(Err(NoSuchAgent { node, lane }.into()));
            }
            Some(ni) => {
                let key = (side, ni);
                let k = {
                    let mut l = log.lock().unwrap();
                    let c = l.agent_instances.entry(key).or_insert(0);
                    *c += 1;
                    *c - 1
                };
                // Beyond the scripted instances: a silent agent that reads everything.
                let inst = spec.nodes[ni].instances.get(k).cloned().unwrap_or(InstSpec {
                    source: 8_000 + (ni * 50 + k) as u32 + 1000 * side as u32,
                    script: vec![],
                    in_cap: 256,
                    out_cap: 256,
                    reader: ReaderSpec { stop_after: None, pace: Pace::Fast },
                    keep_writer: true,
                    answer_delay: 0,
                    end_mid_frame: false,
                    corrupt_end: None,
                });
                yields(inst.answer_delay).await;
                let (to_agent_tx, to_agent_rx) = byte_channel(nz(inst.in_cap));
                let (from_agent_tx, from_agent_rx) = byte_channel(nz(inst.out_cap));
                if promise.send(Ok((to_agent_tx, from_agent_rx))).is_err() {
                    continue;
                }
                tokio::spawn(tracked(log.clone(), 0, agent_reader(log.clone(), Ep::Agent { side, node: ni }, to_agent_rx, inst.reader.clone(), key)));
                let log2 = log.clone();
                let node_name = spec.nodes[ni].name.clone();
                let agent_id = Uuid::from_u128(0xa000 + inst.source as u128);
                let h = tokio::spawn(async move {
                    let mut writer = FramedWrite::new(from_agent_tx, RawResponseMessageEncoder);
                    let last_frame = inst.script.iter().rev().find_map(|s| if let Step::Send(f, _) = s { Some(f.clone()) } else { None });
                    run_script(log2.clone(), side, inst.source, inst.script, &mut writer, |f: &Frame| f.response(agent_id)).await;
                    if let (true, Some(f)) = (inst.end_mid_frame, last_frame) {
                        // The agent dies while writing one more frame: the other agents and downlinks of the
                        // socket must not notice.
                        use tokio::io::AsyncWriteExt;
                        use tokio_util::codec::Encoder;
                        let mut bytes = bytes::BytesMut::new();
                        if RawResponseMessageEncoder.encode(f.response(agent_id), &mut bytes).is_ok() && bytes.len() > 2 {
                            let cut = 1 + (inst.source as usize * 7 + inst.in_cap) % (bytes.len() - 1);
                            let mut raw = writer.into_inner();
                            let _ = raw.write_all(&bytes[..cut]).await;
                            log2.lock().unwrap().agent_mid_frame_ends += 1;
                            drop(raw);
                        }
                        return;
                    }
                    if let Some((corrupt, marker)) = &inst.corrupt_end {
                        // Only if the script ran to its end (the task still holds the channel).
                        if log2.lock().unwrap().finished_sources.contains(&inst.source) {
                            use tokio::io::AsyncWriteExt;
                            let bytes = corrupt.bytes(agent_id, &node_name, "lane", marker, true);
                            let t = ticket();
                            if writer.get_mut().write_all(&bytes).await.is_ok() {
                                let mut l = log2.lock().unwrap();
                                l.corrupt_written.push((t, inst.source));
                                l.bump("corrupt-frame-written/agent-channel");
                            }
                        }
                    }
                    if inst.keep_writer {
                        // Held open until the end of the case.
                        KEEP.with(|k| k.borrow_mut().push(Box::new(writer)));
                    }
                });
                let _ = scripts.send(h);
            }
        }
    }
}

thread_local! {
    /// Writers that stay open until the case ends (dropped with the case).
    static KEEP: std::cell::RefCell<Vec<Box<dyn std::any::Any>>> = const { std::cell::RefCell::new(Vec::new()) };
}

async fn downlink(log: Log, side: usize, idx: usize, spec: DlSpec, attach_tx: mpsc::Sender<AttachClient>) {
    if spec.start_delay > 0 {
        tokio::time::sleep(Duration::from_millis(spec.start_delay)).await;
    }
    let (to_dl_tx, to_dl_rx) = byte_channel(nz(spec.in_cap));
    let (from_dl_tx, from_dl_rx) = byte_channel(nz(spec.out_cap));
    let (done_tx, done_rx) = oneshot::channel();
    let id = Uuid::from_u128(0xd000 + spec.source as u128);
    let req = AttachClient::AttachDownlink { downlink_id: id, path: RelativeAddress::text(&spec.node, &spec.lane), sender: to_dl_tx, receiver: from_dl_rx, done: done_tx };
    if attach_tx.send(req).await.is_err() {
        return;
    }
    // The reader runs from the moment the channel is handed over: the incoming half of the task
    // may deliver to it before the attachment is confirmed.
    tokio::spawn(tracked(log.clone(), 1, downlink_reader(log.clone(), Ep::Downlink { side, idx }, to_dl_rx, spec.reader.clone(), (side, idx))));
    match done_rx.await {
        Ok(Ok(())) => {}
        _ => {
            log.lock().unwrap().attach_unconfirmed += 1;
            return;
        }
    }
    log.lock().unwrap().dl_attach_done.insert((side, idx), ticket());
    let mut writer = FramedWrite::new(from_dl_tx, RawRequestMessageEncoder);
    run_script(log.clone(), side, spec.source, spec.script, &mut writer, |f: &Frame| f.request(id)).await;
    if let Some((corrupt, marker)) = &spec.corrupt_end {
        if log.lock().unwrap().finished_sources.contains(&spec.source) {
            use tokio::io::AsyncWriteExt;
            let bytes = corrupt.bytes(id, &spec.node, &spec.lane, marker, false);
            let t = ticket();
            if writer.get_mut().write_all(&bytes).await.is_ok() {
                let mut l = log.lock().unwrap();
                l.corrupt_written.push((t, spec.source));
                l.bump("corrupt-frame-written/downlink-channel");
            }
        }
    }
    if spec.keep_writer {
        KEEP.with(|k| k.borrow_mut().push(Box::new(writer)));
    }
}

async fn commander(log: Log, side: usize, spec: CmdSpec, attach_tx: mpsc::Sender<AttachClient>) {
    if spec.start_delay > 0 {
        tokio::time::sleep(Duration::from_millis(spec.start_delay)).await;
    }
    let (tx, rx) = byte_channel(nz(spec.cap));
    let (done_tx, done_rx) = oneshot::channel();
    let id = Uuid::from_u128(0xc000 + spec.source as u128);
    if attach_tx.send(AttachClient::OneWay { agent_id: id, path: None, receiver: rx, done: done_tx }).await.is_err() {
        return;
    }
    if !matches!(done_rx.await, Ok(Ok(()))) {
        log.lock().unwrap().attach_unconfirmed += 1;
        return;
    }
    let mut writer = FramedWrite::new(tx, RawRequestMessageEncoder);
    run_script(log, side, spec.source, spec.script, &mut writer, |f: &Frame| f.request(id)).await;
}

type Ws<S = DuplexStream> = WebSocket<S, NoExt>;

fn fake_ws(buf: usize) -> (Ws, Ws) {
    let (a, b) = duplex(buf);
    let config = WebSocketConfig::default();
    (
        WebSocket::from_upgraded(config, a, Some(NoExt), BytesMut::new(), Role::Server),
        WebSocket::from_upgraded(config, b, Some(NoExt), BytesMut::new(), Role::Client),
    )
}

struct SideHandles {
    stop: trigger::Sender,
    task: tokio::task::JoinHandle<()>,
    attach: mpsc::Sender<AttachClient>,
}

/// Start one RemoteTask with its resolver, downlinks and commanders. Script tasks are reported on `scripts`.
fn start_side<S: ratchet::WebSocketStream>(log: &Log, side: usize, spec: &SideSpec, ws: Ws<S>, rng: &mut Rng, scripts: &mpsc::UnboundedSender<tokio::task::JoinHandle<()>>, budget: u64) -> SideHandles {
    let (stop_tx, stop_rx) = trigger::trigger();
    let (attach_tx, attach_rx) = mpsc::channel(spec.attach_cap);
    let find_tx = if spec.has_find {
        let (find_tx, find_rx) = mpsc::channel(spec.reg_buf);
        tokio::spawn(resolver(log.clone(), side, spec.clone(), find_rx, scripts.clone()));
        Some(find_tx)
    } else {
        None
    };
    let task = RemoteTask::new(spec.id, stop_rx, ws, attach_rx, find_tx, nz(spec.reg_buf), Duration::from_secs(5));
    // The guard sits inside the jitter: deferred polls do not count against the step budget.
    let task = tokio::spawn(Jitter::new(Guard::new(task.run(), log.clone(), side, budget), rng.fork(), spec.jitter));
    for (idx, d) in spec.downlinks.iter().enumerate() {
        let _ = scripts.send(tokio::spawn(downlink(log.clone(), side, idx, d.clone(), attach_tx.clone())));
    }
    for c in &spec.commanders {
        let _ = scripts.send(tokio::spawn(commander(log.clone(), side, c.clone(), attach_tx.clone())));
    }
    // The attach channel stays open for the whole case (the task stops when it closes).
    SideHandles { stop: stop_tx, task, attach: attach_tx }
}

#[derive(Clone, Copy, PartialEq, Eq, Debug)]
enum Settled {
    /// Every script finished and nothing moves any more.
    Quiet,
    /// Nothing moves any more although some script is still blocked (in a send or an attach).
    Frozen,
}

/// Wait until nothing changes any more. The clock is paused, so virtual time only advances when no
/// task is runnable; every delay of the harness is at most 20 ms and the only timer of the code
/// under test is the 5 s close timeout. Hence: two consecutive 50 ms windows plus one 6 s window
/// without a new send, a new arrival or a script finishing mean that the state is final.
async fn settle(log: &Log, mut scripts: mpsc::UnboundedReceiver<tokio::task::JoinHandle<()>>, extra: Vec<tokio::task::JoinHandle<()>>) -> Result<Settled, String> {
    let mut handles = extra;
    let mut rounds = 0;
    let mut last = (usize::MAX, usize::MAX, usize::MAX);
    let mut stable = 0;
    loop {
        while let Ok(h) = scripts.try_recv() {
            handles.push(h);
        }
        tokio::time::sleep(Duration::from_millis(if stable >= 2 { 6_000 } else { 50 })).await;
        let mut running = Vec::new();
        for h in handles.drain(..) {
            if h.is_finished() {
                if let Err(e) = h.await {
                    if e.is_panic() {
                        return Err("a harness script panicked".into());
                    }
                }
            } else {
                running.push(h);
            }
        }
        handles = running;
        let now = {
            let l = log.lock().unwrap();
            (l.arrivals.len(), l.sent.len(), handles.len())
        };
        if now == last {
            stable += 1;
            if stable >= 2 && handles.is_empty() {
                return Ok(Settled::Quiet);
            }
            if stable >= 3 {
                return Ok(Settled::Frozen);
            }
        } else {
            stable = 0;
            last = now;
        }
        rounds += 1;
        if rounds > 5_000 {
            return Err("no quiescence within 5000 rounds".into());
        }
    }
}

/// Liveness probe, run once a case is quiet: attach one more downlink (an address nobody writes
/// to). The attachment is confirmed only after both the incoming and the outgoing half of the task
/// have handled it, so a task that answers is able to move envelopes in both directions. A quiet
/// system that does not answer within 30 virtual seconds never will (no timer is pending).
async fn responsive(h: &SideHandles, side: usize) -> bool {
    if h.task.is_finished() {
        return true; // judged elsewhere
    }
    let (to_dl_tx, to_dl_rx) = byte_channel(nz(64));
    let (from_dl_tx, from_dl_rx) = byte_channel(nz(64));
    let (done_tx, done_rx) = oneshot::channel();
    let req = AttachClient::AttachDownlink {
        downlink_id: Uuid::from_u128(0xfeed + side as u128),
        path: RelativeAddress::text("harness probe node", "harness probe lane"),
        sender: to_dl_tx,
        receiver: from_dl_rx,
        done: done_tx,
    };
    let attempt = async {
        if h.attach.send(req).await.is_err() {
            return false;
        }
        matches!(done_rx.await, Ok(Ok(())))
    };
    let ok = matches!(tokio::time::timeout(Duration::from_secs(30), attempt).await, Ok(true));
    KEEP.with(|k| k.borrow_mut().push(Box::new((to_dl_rx, from_dl_tx))));
    ok
}

// ------------------------------------------------------------------------------------------------
// Oracle

struct EpInfo {
    ep: Ep,
    side: usize,
    node: String,
    lane: Option<String>,
}

fn endpoints(world: &World, raw: bool) -> Vec<EpInfo> {
    let mut v = Vec::new();
    for (side, s) in world.sides.iter().enumerate() {
        for (ni, n) in s.nodes.iter().enumerate() {
            v.push(EpInfo { ep: Ep::Agent { side, node: ni }, side, node: n.name.clone(), lane: None });
        }
        for (idx, d) in s.downlinks.iter().enumerate() {
            v.push(EpInfo { ep: Ep::Downlink { side, idx }, side, node: d.node.clone(), lane: Some(d.lane.clone()) });
        }
    }
    if raw {
        v.push(EpInfo { ep: Ep::Peer, side: 1, node: String::new(), lane: None });
    }
    v
}

struct Verdicts<'a> {
    out: &'a mut CaseOut,
    pfx: &'static str,
}

impl<'a> Verdicts<'a> {
    fn v(&mut self, sig: String, what: &str, detail: Json) {
        self.out.violation(P, format!("{}/{}", self.pfx, sig), what, detail);
    }
}

fn ep_name(ep: Ep) -> &'static str {
    match ep {
        Ep::Agent { .. } => "agent",
        Ep::Downlink { .. } => "downlink",
        Ep::Peer => "peer",
    }
}

const NODE_NOT_FOUND: &[u8] = b"@nodeNotFound";

/// If the body of `arrived` ends in a complete WARP envelope (as read by the real reader): that
/// envelope, and whether what precedes it is the body of a frame `known` to have been written with
/// the same kind, node and lane.
fn second_envelope(arrived: &Frame, known: impl Fn(&Frame) -> bool) -> Option<(pure::Peeled, bool)> {
    let body = std::str::from_utf8(&arrived.body).ok()?;
    for (pos, _) in body.match_indices('@') {
        // Only the eight deliverable kinds; attributes of ordinary bodies are not envelopes.
        let Ok(p) = pure::peel(&body[pos..]) else { continue };
        if Kind::from_name(p.kind).is_none() {
            continue;
        }
        let mut first = arrived.clone();
        first.body = body[..pos].as_bytes().to_vec();
        let first_known = known(&first);
        return Some((p, first_known));
    }
    None
}

/// Judge a finished case. `task_stopped_early`: the (raw flavour's) task closed the socket
/// because of an injected invalid frame, so nothing written after that is owed.
fn evaluate(world: &World, log: &LogInner, raw: bool, task_stopped_early: bool, frozen: bool, markers: &[(String, String)], out: &mut CaseOut) {
    let opts = EvalOpts { pfx: if raw { "socket-raw" } else { "socket" }, raw, task_stopped_early, frozen, markers, nothing_owed: false, gap_rule: false, optional_reply_nodes: &[] };
    evaluate_with(world, log, &opts, out)
}

/// What `evaluate_with` is told about a case. The last three fields are used by part socket-edge only.
struct EvalOpts<'a> {
    pfx: &'static str,
    raw: bool,
    task_stopped_early: bool,
    frozen: bool,
    markers: &'a [(String, String)],
    /// The transport failed under the task: no delivery is owed in either direction (safety rules only).
    nothing_owed: bool,
    /// Whatever is owed: a message that stayed out although a later message of the same source reached
    /// the same endpoint (which was attached throughout) is a hole in that source's sequence.
    gap_rule: bool,
    /// Nodes whose resolver answers `PlaneStopping`: a node-not-found reply is allowed, not owed.
    optional_reply_nodes: &'a [String],
}

fn evaluate_with(world: &World, log: &LogInner, opts: &EvalOpts, out: &mut CaseOut) {
    let EvalOpts { pfx, raw, task_stopped_early, frozen, markers, .. } = *opts;
    let eps = endpoints(world, raw);
    let ep_index: HashMap<Ep, usize> = eps.iter().enumerate().map(|(i, e)| (e.ep, i)).collect();
    if log.agent_mid_frame_ends > 0 {
        out.add("agent-channels-ended-inside-a-frame", log.agent_mid_frame_ends);
    }
    let mut vd = Verdicts { out, pfx };

    for (sig, what, detail) in &log.problems {
        vd.v(sig.clone(), what, detail.clone());
    }
    if log.attach_unconfirmed > 0 && !task_stopped_early && !frozen {
        vd.v("attach-not-confirmed".into(), "an attach request was dropped or refused while the task was running", json!({"count": log.attach_unconfirmed}));
    }

    // All messages, including the node-not-found replies the tasks owe.
    struct Msg<'m> {
        ticket: u64,
        side: usize,
        source: u32,
        seq: u32,
        frame: std::borrow::Cow<'m, Frame>,
        unique: bool,
        after_invalid: bool,
    }
    let mut msgs: Vec<Msg> = Vec::new();
    let mut written_addresses: HashSet<(String, String)> = HashSet::new();
    for s in &log.sent {
        if s.failed {
            continue;
        }
        msgs.push(Msg { ticket: s.ticket, side: s.side, source: s.source, seq: s.seq, frame: std::borrow::Cow::Borrowed(&s.frame), unique: s.unique, after_invalid: s.after_invalid });
        if s.frame.kind.is_request() {
            written_addresses.insert((s.frame.node.clone(), s.frame.lane.clone()));
            let there = 1 - s.side;
            let hosted = if raw && there == 1 { true } else { world.sides[there].has_find && world.sides[there].nodes.iter().any(|n| n.name == s.frame.node) };
            if !hosted && s.frame.kind != Kind::Command {
                let f = Frame { kind: Kind::Unlinked, node: s.frame.node.clone(), lane: s.frame.lane.clone(), body: NODE_NOT_FOUND.to_vec() };
                let optional = opts.optional_reply_nodes.iter().any(|n| *n == s.frame.node);
                msgs.push(Msg { ticket: s.ticket, side: there, source: NOTFOUND_SRC + there as u32, seq: 0, frame: std::borrow::Cow::Owned(f), unique: false, after_invalid: s.after_invalid || optional });
            }
        }
    }

    // FindNode must name an address that was written by somebody.
    for (side, node, lane, source_ok) in &log.finds {
        vd.out.events += 1;
        if !source_ok {
            vd.v("findnode-source-not-task-id".into(), "FindNode carries a source other than the task's id", json!({"side": side}));
        }
        let ok = match lane {
            Some(l) => written_addresses.contains(&(node.clone(), l.clone())),
            None => written_addresses.iter().any(|(n, _)| n == node),
        };
        if !ok {
            vd.v(format!("findnode-address-never-written/{}", name_class(node)), "FindNode names a (node, lane) no request was written for", json!({"node": node, "lane": lane}));
        }
    }

    // Which endpoints a message is addressed to.
    let addressees = |m: &Msg| -> Vec<usize> {
        let there = 1 - m.side;
        if raw && there == 1 {
            return vec![ep_index[&Ep::Peer]];
        }
        eps.iter()
            .enumerate()
            .filter(|(_, e)| e.side == there && e.ep != Ep::Peer)
            .filter(|(_, e)| match (&e.lane, m.frame.kind.is_request()) {
                (None, true) => e.node == m.frame.node && world.sides[there].has_find,
                (Some(l), false) => e.node == m.frame.node && *l == m.frame.lane,
                _ => false,
            })
            .map(|(i, _)| i)
            .collect()
    };
    // The endpoint was there for the message: attached before it was written, not detached afterwards.
    let attached = |m: &Msg, e: &EpInfo| -> bool {
        match e.ep {
            Ep::Peer => true,
            Ep::Agent { side, node } => !log.agent_detach.get(&(side, node)).map_or(false, |ts| ts.iter().any(|t| *t > m.ticket)),
            Ep::Downlink { side, idx } => log.dl_attach_done.get(&(side, idx)).map_or(false, |t| *t < m.ticket) && !log.dl_detach.contains_key(&(side, idx)),
        }
    };
    let owed = |m: &Msg, e: &EpInfo| -> bool {
        // Nothing is owed once the system froze (reported on its own); safety is still judged.
        if frozen || m.after_invalid || (task_stopped_early && m.side == 0) || opts.nothing_owed {
            return false;
        }
        attached(m, e)
    };

    let unique_index: HashMap<&[u8], usize> = msgs.iter().enumerate().filter(|(_, m)| m.unique).map(|(i, m)| (m.frame.body.as_slice(), i)).collect();

    // Pass over the arrivals in their global order.
    let mut arrived: Vec<HashSet<usize>> = eps.iter().map(|_| HashSet::new()).collect();
    let mut pool: Vec<HashMap<Frame, u64>> = eps.iter().map(|_| HashMap::new()).collect();
    let mut last_seq: HashMap<(usize, u32), u32> = HashMap::new();
    let mut delivering_sources: HashSet<u32> = HashSet::new();
    let mut receiving_eps: HashSet<usize> = HashSet::new();
    for a in &log.arrivals {
        vd.out.events += 1;
        vd.out.sig(&(a.ep, &a.frame));
        let ei = ep_index[&a.ep];
        let e = &eps[ei];
        // Invalid frames and auth envelopes carry markers.
        if let Some((marker, what)) = markers.iter().find(|(mk, _)| {
            let b = String::from_utf8_lossy(&a.frame.body);
            b.contains(mk.as_str()) || a.frame.node.contains(mk.as_str()) || a.frame.lane.contains(mk.as_str())
        }) {
            if a.ep != Ep::Peer {
                let _ = marker;
                vd.v(format!("undeliverable-frame-delivered/{what}/to-{}", ep_name(a.ep)), "a frame that is not a deliverable envelope reached an endpoint", json!({"arrived": a.frame.show()}));
                continue;
            }
        }
        // Address.
        let addr_ok = match (&e.ep, &e.lane) {
            (Ep::Peer, _) => true,
            (_, None) => a.frame.node == e.node,
            (_, Some(l)) => a.frame.node == e.node && a.frame.lane == *l,
        };
        if !addr_ok {
            vd.v(
                format!("misdelivered/to-{}", ep_name(a.ep)),
                "an endpoint received a frame addressed to another node / lane",
                json!({"endpoint": {"node": e.node, "lane": e.lane}, "arrived": a.frame.show()}),
            );
        }
        if let Some(o) = a.origin {
            if o != world.sides[e.side].id {
                vd.v(format!("origin-not-task-id/{}", a.frame.kind.name()), "frame handed over with an origin other than the receiving task's id", json!({"arrived": a.frame.show()}));
            }
        }
        match unique_index.get(a.frame.body.as_slice()) {
            Some(&mi) => {
                let m = &msgs[mi];
                if a.frame.kind != m.frame.kind {
                    vd.v(format!("kind-changed/{}-arrived-as-{}", m.frame.kind.name(), a.frame.kind.name()), "kind changed on the way", json!({"sent": m.frame.show(), "arrived": a.frame.show()}));
                }
                if a.frame.node != m.frame.node {
                    vd.v(format!("node-name-changed/{}", name_class(&m.frame.node)), "node URI changed on the way", json!({"sent": m.frame.show(), "arrived": a.frame.show()}));
                }
                if a.frame.lane != m.frame.lane {
                    vd.v(format!("lane-name-changed/{}", name_class(&m.frame.lane)), "lane name changed on the way", json!({"sent": m.frame.show(), "arrived": a.frame.show()}));
                }
                if !addressees(m).contains(&ei) && addr_ok {
                    vd.v(format!("misdelivered/not-an-addressee/to-{}", ep_name(a.ep)), "frame arrived at an endpoint it was not written for", json!({"sent": m.frame.show(), "endpoint": {"node": e.node, "lane": e.lane}}));
                }
                if !arrived[ei].insert(mi) {
                    vd.v(format!("duplicated/{}", m.frame.kind.name()), "the same message arrived twice at one endpoint", json!({"sent": m.frame.show()}));
                } else {
                    let last = last_seq.entry((ei, m.source)).or_insert(0);
                    if *last > m.seq {
                        vd.v(
                            format!("reordered/{}", if m.frame.kind.is_request() { "requests" } else { "responses" }),
                            "a source's message arrived after a later message of the same source",
                            json!({"sent": m.frame.show(), "seq": m.seq, "already_seen_seq": *last}),
                        );
                    } else {
                        *last = m.seq;
                    }
                }
                delivering_sources.insert(m.source);
                receiving_eps.insert(ei);
            }
            None => {
                // A body that is "the body of a message written for this address, followed by a
                // complete envelope" is two frames written as one: the reader takes the second
                // envelope for part of the first one's body (no body the harness writes contains
                // an envelope header). Reported under its own rule, not as a frame nobody wrote.
                if let Some((second, first_known)) = second_envelope(&a.frame, |f| msgs.iter().any(|m| *m.frame == *f)) {
                    if first_known {
                        let what = if second.kind == "unlinked" && second.body.as_bytes().starts_with(NODE_NOT_FOUND) { "node-not-found-reply".to_string() } else { second.kind.to_string() };
                        vd.out.count("frames-carrying-a-second-envelope");
                        vd.v(
                            format!("two-envelopes-in-one-frame/second={what}"),
                            "an envelope was written to the socket appended to an earlier frame's bytes: its addressee never sees it, and the earlier frame's addressee receives that frame again with the envelope as (part of) its body",
                            json!({"arrived": a.frame.show(), "endpoint": {"kind": ep_name(e.ep), "node": e.node, "lane": e.lane},
                                   "second_envelope": {"kind": second.kind, "node": second.node, "lane": second.lane, "body": second.body.chars().take(80).collect::<String>()}}),
                        );
                        continue;
                    }
                }
                *pool[ei].entry(a.frame.clone()).or_insert(0) += 1;
            }
        }
    }

    // Claims against the count-matched arrivals. Exact explanations first (owed, then merely
    // allowed), then "the same frame without its body", so that a violation is only reported when
    // no innocent attribution exists.
    let mut unexplained: Vec<(usize, usize, bool)> = Vec::new(); // (endpoint, message, owed)
    for pass_owed in [true, false] {
        for (mi, m) in msgs.iter().enumerate() {
            for ei in addressees(m) {
                if owed(m, &eps[ei]) != pass_owed {
                    continue;
                }
                if m.unique {
                    if !arrived[ei].contains(&mi) {
                        unexplained.push((ei, mi, pass_owed));
                    }
                } else {
                    match pool[ei].get_mut(&*m.frame) {
                        Some(c) if *c > 0 => *c -= 1,
                        _ => unexplained.push((ei, mi, pass_owed)),
                    }
                }
            }
        }
    }
    for (ei, mi, is_owed) in unexplained {
        let m = &msgs[mi];
        let e = &eps[ei];
        let mut bodyless = (*m.frame).clone();
        bodyless.body.clear();
        let class = if m.source >= NOTFOUND_SRC { "node-not-found" } else { "non-empty-body" };
        if !m.frame.body.is_empty() {
            if let Some(c) = pool[ei].get_mut(&bodyless) {
                if *c > 0 {
                    *c -= 1;
                    vd.v(
                        format!("body-lost/{}/{}", m.frame.kind.name(), class),
                        "the envelope arrived at its addressee without its body",
                        json!({"sent": m.frame.show(), "endpoint": {"kind": ep_name(e.ep), "node": e.node, "lane": e.lane}, "body_class": body_class(&String::from_utf8_lossy(&m.frame.body))}),
                    );
                    continue;
                }
            }
        }
        if is_owed {
            let kind = if m.source >= NOTFOUND_SRC { "node-not-found-reply" } else { m.frame.kind.name() };
            vd.v(
                format!("lost/{kind}/to-{}", ep_name(e.ep)),
                "a message never arrived although source and addressee stayed attached",
                json!({"sent": m.frame.show(), "source": m.source, "seq": m.seq, "endpoint": {"node": e.node, "lane": e.lane}}),
            );
        }
    }
    if opts.gap_rule {
        // Uniquely tagged messages only (the others are matched by count). Not for messages that are
        // owed anyway (reported as lost above).
        let mut latest_arrived: HashMap<(usize, u32), u32> = HashMap::new();
        for (ei, set) in arrived.iter().enumerate() {
            for mi in set {
                let m = &msgs[*mi];
                let l = latest_arrived.entry((ei, m.source)).or_insert(0);
                *l = (*l).max(m.seq);
            }
        }
        for (mi, m) in msgs.iter().enumerate() {
            if !m.unique || m.after_invalid {
                continue;
            }
            for ei in addressees(m) {
                let e = &eps[ei];
                if arrived[ei].contains(&mi) || owed(m, e) || !attached(m, e) {
                    continue;
                }
                if latest_arrived.get(&(ei, m.source)).map_or(false, |l| *l > m.seq) {
                    vd.v(
                        format!("gap/{}/to-{}", m.frame.kind.name(), ep_name(e.ep)),
                        "a message stayed out although a later message of the same source reached the same endpoint, which was attached throughout",
                        json!({"sent": m.frame.show(), "source": m.source, "seq": m.seq, "later_seq_arrived": latest_arrived.get(&(ei, m.source)), "endpoint": {"node": e.node, "lane": e.lane}}),
                    );
                }
            }
        }
    }
    for (ei, p) in pool.iter().enumerate() {
        for (f, c) in p {
            if *c > 0 {
                vd.v(
                    format!("never-sent-or-duplicated/{}/at-{}", f.kind.name(), ep_name(eps[ei].ep)),
                    "an endpoint received a frame that nobody wrote (or more copies than were written)",
                    json!({"arrived": f.show(), "extra_copies": c, "endpoint": {"node": eps[ei].node, "lane": eps[ei].lane}}),
                );
            }
        }
    }

    // Evidence.
    let out = vd.out;
    out.add("frames-sent", msgs.len() as u64);
    out.add("frames-arrived", log.arrivals.len() as u64);
    out.add("findnode-requests", log.finds.len() as u64);
    out.add("agent-detaches", log.agent_detach.values().map(|v| v.len() as u64).sum());
    out.add("downlink-detaches", log.dl_detach.len() as u64);
    out.add("agent-re-instantiations", log.agent_instances.values().map(|c| c.saturating_sub(1) as u64).sum());
    out.add("writer-backpressure-hits", log.pending_hits);
    out.add("node-not-found-replies-owed", msgs.iter().filter(|m| m.source >= NOTFOUND_SRC).count() as u64);
    for e in &eps {
        if e.ep != Ep::Peer {
            out.count(&format!("endpoint-name-class/{}", name_class(&e.node)));
        }
    }
    let shared = world.sides.iter().any(|s| {
        let mut seen = HashSet::new();
        s.downlinks.iter().any(|d| !seen.insert((d.node.clone(), d.lane.clone())))
    });
    if shared {
        out.count("downlinks-sharing-an-address");
    }
    out.nontrivial = delivering_sources.len() >= 2 && receiving_eps.len() >= 2 && log.pending_hits > 0;
}

/// A case that was cut short by a logical step budget: say so (the excess-FindNode rule has
/// already filed its problem, reported by `evaluate`). Returns whether the case was cut short.
fn report_abort(l: &LogInner, pfx: &str, out: &mut CaseOut) -> bool {
    for (_, max_here, total, budget) in &l.task_polls {
        out.add("task-polls", *total);
        // How close a task comes to the step budget (most polls at one virtual instant).
        let bucket = match max_here * 1000 / budget.max(&1) {
            0 => "below-0.1%",
            1..=9 => "0.1-1%",
            10..=99 => "1-10%",
            _ => "above-10%",
        };
        out.count(&format!("step-budget-used/{bucket}"));
    }
    match &l.abort {
        None => false,
        Some(Abort::ExcessFindNode { .. }) => {
            out.count("cut-short/excess-findnode");
            true
        }
        Some(Abort::Spinning { side, polls, budget }) => {
            out.count("cut-short/spinning");
            out.violation(
                P,
                format!("{pfx}/spinning"),
                "a task stays runnable for ever at one virtual instant (polled far more often than the finite scripts of the case can explain): its messages never settle and no timer can fire",
                json!({"side": side, "polls_at_one_virtual_instant": polls, "budget": budget, "sent": l.sent.len(), "arrived": l.arrivals.len(), "findnode_requests": l.finds.len()}),
            );
            true
        }
    }
}

/// Verbose aid: who is stuck in a case that did not settle.
fn describe_stuck(world: &World, l: &LogInner) -> String {
    let mut o = format!("duplex buffer {}, symmetric {}\n", world.duplex_buf, world.symmetric);
    for (si, s) in world.sides.iter().enumerate() {
        o.push_str(&format!("side {si}: has_find {} reg_buf {} attach_cap {} jitter {}\n", s.has_find, s.reg_buf, s.attach_cap, s.jitter));
        for (ni, n) in s.nodes.iter().enumerate() {
            o.push_str(&format!("  agent {ni} {:?}: instances {:?} detaches {:?}\n", n.name, l.agent_instances.get(&(si, ni)), l.agent_detach.get(&(si, ni))));
            for i in &n.instances {
                let steps = i.script.iter().filter(|s| matches!(s, Step::Send(..))).count();
                o.push_str(&format!("    instance source {} sends {} written {:?} finished {} in_cap {} out_cap {} reader {:?}\n", i.source, steps, l.seq_by_source.get(&i.source), l.finished_sources.contains(&i.source), i.in_cap, i.out_cap, i.reader));
            }
        }
        for (di, d) in s.downlinks.iter().enumerate() {
            let steps = d.script.iter().filter(|s| matches!(s, Step::Send(..))).count();
            o.push_str(&format!("  downlink {di} ({:?},{:?}) source {} sends {} written {:?} finished {} attached {:?} detached {:?} in_cap {} out_cap {} reader {:?}\n", d.node, d.lane, d.source, steps, l.seq_by_source.get(&d.source), l.finished_sources.contains(&d.source), l.dl_attach_done.get(&(si, di)), l.dl_detach.get(&(si, di)), d.in_cap, d.out_cap, d.reader));
        }
        for c in &s.commanders {
            let steps = c.script.iter().filter(|s| matches!(s, Step::Send(..))).count();
            o.push_str(&format!("  commander source {} sends {} written {:?} finished {}\n", c.source, steps, l.seq_by_source.get(&c.source), l.finished_sources.contains(&c.source)));
        }
    }
    o.push_str(&format!("arrivals {} finds {}\n", l.arrivals.len(), l.finds.len()));
    o
}

/// Oracle self-test (`--selftest drop|dup|misroute|swap|rename`): falsify the observation log of
/// the duplex part in one place; the oracle must answer with the matching rule. (`--selftest spin`
/// instead shrinks the step budget of `Guard` to 20 polls.) Never used by `/verif/check`.
fn inject_fault(l: &mut LogInner, fault: &str, rng: &mut Rng) {
    let unique: Vec<usize> = (0..l.arrivals.len()).filter(|i| !l.arrivals[*i].frame.body.is_empty() && l.arrivals[*i].frame.kind != Kind::Unlinked).collect();
    if unique.is_empty() {
        return;
    }
    let i = unique[rng.usize_below(unique.len())];
    match fault {
        "drop" => {
            l.arrivals.remove(i);
        }
        "dup" => {
            let a = Arrival { ep: l.arrivals[i].ep, origin: l.arrivals[i].origin, frame: l.arrivals[i].frame.clone() };
            l.arrivals.insert(i, a);
        }
        "misroute" => {
            let other = l.arrivals.iter().map(|a| a.ep).find(|e| *e != l.arrivals[i].ep);
            if let Some(e) = other {
                l.arrivals[i].ep = e;
            }
        }
        "swap" => {
            // Swap with the next arrival at the same endpoint.
            let ep = l.arrivals[i].ep;
            if let Some(j) = (i + 1..l.arrivals.len()).find(|j| l.arrivals[*j].ep == ep && !l.arrivals[*j].frame.body.is_empty()) {
                l.arrivals.swap(i, j);
            }
        }
        "rename" => l.arrivals[i].frame.lane.push('x'),
        _ => {}
    }
}

// ------------------------------------------------------------------------------------------------
// Flavour A: two tasks back to back

fn runtime() -> tokio::runtime::Runtime {
    tokio::runtime::Builder::new_current_thread().enable_time().start_paused(true).build().expect("tokio runtime")
}

pub fn duplex_case(rng: &mut Rng, pool: &[String], selftest: Option<&str>, out: &mut CaseOut) {
    let world = gen_world(rng, pool, false);
    let log: Log = Arc::new(Mutex::new(LogInner::default()));
    let rt = runtime();
    let result: Result<Settled, String> = rt.block_on(async {
        let (ws0, ws1) = fake_ws(world.duplex_buf);
        let (scripts_tx, scripts_rx) = mpsc::unbounded_channel();
        let (sends, eps) = world.size();
        // `--selftest spin`: a budget every busy case exceeds, to see the guard end a case.
        let budget = if selftest == Some("spin") { 20 } else { spin_budget(sends, eps) };
        let h0 = start_side(&log, 0, &world.sides[0], ws0, rng, &scripts_tx, budget);
        let h1 = start_side(&log, 1, &world.sides[1], ws1, rng, &scripts_tx, budget);
        let mut r = settle(&log, scripts_rx, vec![]).await;
        // A case that blew a step budget (see `Abort`) lost its tasks: judged on that, not probed.
        let aborted = log.lock().unwrap().abort.is_some();
        if !aborted && r == Ok(Settled::Quiet) && !(responsive(&h0, 0).await && responsive(&h1, 1).await) {
            // Every script got its messages into its byte channel, yet the tasks are wedged.
            r = Ok(Settled::Frozen);
        }
        // Neither task may have ended on its own while the case was running.
        if !aborted && r.is_ok() && (h0.task.is_finished() || h1.task.is_finished()) {
            log.lock().unwrap().problems.push(("task-ended-by-itself".into(), "a RemoteTask ended although nobody stopped it and the socket was healthy".into(), Json::Null));
        }
        h0.stop.trigger();
        h1.stop.trigger();
        for (i, h) in [h0.task, h1.task].into_iter().enumerate() {
            match tokio::time::timeout(Duration::from_secs(60), h).await {
                Ok(Err(e)) if e.is_panic() => log.lock().unwrap().problems.push(("task-panicked".into(), "RemoteTask panicked".into(), json!({"side": i}))),
                Err(_) => out.count("task-did-not-stop-within-60s-virtual"),
                _ => {}
            }
        }
        r
    });
    drop(rt);
    KEEP.with(|k| k.borrow_mut().clear());
    let mut l = log.lock().unwrap();
    if let Some(fault) = selftest {
        inject_fault(&mut l, fault, rng);
    }
    let l = l;
    match result {
        Err(why) => {
            out.log(|| describe_stuck(&world, &l));
            out.inconclusive(why);
        }
        Ok(settled) => {
            let cut_short = report_abort(&l, "socket", out);
            // Nothing is owed by tasks the harness dropped; the wedge rule does not apply to them.
            let settled = if cut_short { Settled::Quiet } else { settled };
            if settled == Settled::Frozen {
                // Exact on a paused clock: no task is runnable, no timer is pending, every harness
                // reader is waiting for its next frame, and yet some writer is blocked.
                // A side that hosts agents and downlinks with a one-slot registration buffer can also wedge
                // on its own (see part socket-raw): kept apart so that the two defects do not share a signature.
                let one_slot = world.sides.iter().any(|s| s.reg_buf == 1 && !s.nodes.is_empty() && !s.downlinks.is_empty());
                let shape = match (world.symmetric, one_slot) {
                    (true, false) => "agents-on-both-sides",
                    (true, true) => "agents-on-both-sides+registration-buffer-of-1",
                    (false, _) => "agents-on-one-side",
                };
                out.count(&format!("frozen/duplex-buffer-{}", world.duplex_buf));
                out.log(|| describe_stuck(&world, &l));
                out.violation(
                    P,
                    format!("socket/wedged/{shape}"),
                    "the tasks are idle for ever (no task runnable, no timer pending, every reader ready to read) while sources are still blocked writing or attaching, or a new attachment is never confirmed",
                    json!({"duplex_buffer": world.duplex_buf, "registration_buffers": [world.sides[0].reg_buf, world.sides[1].reg_buf], "sent": l.sent.len(), "arrived": l.arrivals.len(), "findnode_requests": l.finds.len(),
                           "unfinished_sources": l.seq_by_source.keys().filter(|s| !l.finished_sources.contains(s)).count()}),
                );
            }
            if !out.violations.is_empty() || settled == Settled::Frozen {
                out.log(|| describe_stuck(&world, &l));
            }
            evaluate(&world, &l, false, false, settled == Settled::Frozen || cut_short, &[], out);
            if out.violations.iter().any(|v| v.1.contains("/lost/")) {
                out.log(|| describe_stuck(&world, &l));
            }
        }
    }
    out.set_sample(json!({
        "agents": world.sides.iter().map(|s| s.nodes.iter().map(|n| n.name.chars().take(30).collect::<String>()).collect::<Vec<_>>()).collect::<Vec<_>>(),
        "downlinks": world.sides.iter().map(|s| s.downlinks.len()).collect::<Vec<_>>(),
        "commanders": world.sides.iter().map(|s| s.commanders.len()).collect::<Vec<_>>(),
        "duplex_buffer": world.duplex_buf, "sent": l.sent.len(), "arrived": l.arrivals.len(),
    }));
}

// ------------------------------------------------------------------------------------------------
// Flavour B: one task against a raw peer

/// Names written by the harness' own envelope writer (always quoted).
fn quote(s: &str, unicode_escapes: bool) -> String {
    let mut o = String::from("\"");
    for c in s.chars() {
        match c {
            '"' => o.push_str("\\\""),
            '\\' => o.push_str("\\\\"),
            '\n' => o.push_str("\\n"),
            '\r' => o.push_str("\\r"),
            '\t' => o.push_str("\\t"),
            '\u{8}' => o.push_str("\\b"),
            '\u{c}' => o.push_str("\\f"),
            c if (c as u32) < 0x20 => o.push_str(&format!("\\u{:04x}", c as u32)),
            c if unicode_escapes && !c.is_ascii() && (c as u32) <= 0xffff => o.push_str(&format!("\\u{:04X}", c as u32)),
            c => o.push(c),
        }
    }
    o.push('"');
    o
}

fn enc_of(kind: Kind) -> Enc {
    match kind {
        Kind::Link => Enc::Link,
        Kind::Sync => Enc::Sync,
        Kind::Unlink => Enc::Unlink,
        Kind::Command => Enc::Command,
        Kind::Linked => Enc::Linked,
        Kind::Synced => Enc::Synced,
        Kind::Unlinked => Enc::UnlinkedSome,
        Kind::Event => Enc::Event,
    }
}

/// A valid spelling of the envelope. Variant 0 is the real encoder's.
fn spell(f: &Frame, variant: u64) -> String {
    let body = String::from_utf8_lossy(&f.body).to_string();
    let tail = if body.is_empty() { String::new() } else { format!(" {body}") };
    let tag = f.kind.name();
    match variant {
        0 => match pure::encode(enc_of(f.kind), &f.node, &f.lane, &body) {
            Ok((b, _, _)) => String::from_utf8_lossy(&b).to_string(),
            Err(_) => format!("@{tag}(node:{},lane:{}){tail}", quote(&f.node, false), quote(&f.lane, false)),
        },
        1 => format!("@{tag}(node:{},lane:{}){tail}", quote(&f.node, false), quote(&f.lane, false)),
        2 => format!("@{tag}(lane: {}, node: {}){tail}", quote(&f.lane, false), quote(&f.node, false)),
        3 => format!("@{tag}(node:{}\nlane:{}){tail}", quote(&f.node, false), quote(&f.lane, false)),
        4 => format!("@{tag}(node:{},lane:{}){tail}", quote(&f.node, true), quote(&f.lane, true)),
        _ => {
            if matches!(f.kind, Kind::Link | Kind::Sync | Kind::Linked) {
                format!("@{tag}(node:{},lane:{},rate:0.5,prio:1){tail}", quote(&f.node, false), quote(&f.lane, false))
            } else {
                format!("@{tag}( node : {} ; lane : {} ){tail}", quote(&f.node, false), quote(&f.lane, false))
            }
        }
    }
}

enum PeerStep {
    /// A valid envelope: the text to write and what it says.
    Valid(String, Frame, bool),
    /// Valid but not deliverable to anybody (@auth, @deauth).
    Ignored(String),
    Ping,
    /// Not a valid envelope; `true`: write as a binary frame.
    Invalid(Vec<u8>, bool),
    Yield(u32),
    Sleep(u64),
}

/// Frames that are no valid envelope whatever the reader's implementation. `m` is the marker.
fn invalid_by_construction(rng: &mut Rng, node: &str, lane: &str, m: &str) -> (Vec<u8>, bool, &'static str) {
    let n = quote(node, false);
    let l = quote(lane, false);
    let t = |s: String| s.into_bytes();
    match rng.below(17) {
        0 => (t(format!("@event(node:{n},lane")), false, "truncated-header"),
        1 => (t(format!("@evnt(node:{n},lane:{l}) {m}")), false, "unknown-tag"),
        2 => (t(format!("@event(node:{n}) {m}")), false, "missing-lane"),
        3 => (t(format!("@command(lane:{l}) {m}")), false, "missing-node"),
        4 => (t(format!("@event(node:{n},lane:{l},foo:1) {m}")), false, "extra-slot"),
        5 => (t(format!("@command({n},{l}) {m}")), false, "value-items"),
        6 => (t(format!("@event(node:\"{m}\\q\",lane:{l}) {m}")), false, "bad-escape"),
        7 => (t(format!("@link(node:{n},lane:{l},rate:fast) {m}")), false, "bad-rate"),
        8 => (t(format!("{{node:{n},lane:{l},v:{m}}}")), false, "no-header"),
        9 => (vec![], false, "empty-frame"),
        10 => (t(format!("@event(node:{n},lane:{l}) {m}")), true, "binary-frame"),
        11 => {
            let mut b = t(format!("@event(node:{n},lane:{l}) {m}"));
            b.extend_from_slice(&[0xff, 0xfe]);
            (b, false, "invalid-utf8")
        }
        12 => (t(format!("@event(node:{n},lane:\"{m} unterminated) x")), false, "unterminated-string"),
        13 => (t(format!("@event(node:,lane:{l}) {m}")), false, "empty-node-value"),
        14 => (t(format!("@command(node:{n},lane:) {m}")), false, "empty-lane-value"),
        15 => (t(format!("@event(node:\"{m}\\ud800\",lane:{l}) {m}")), false, "lone-surrogate-escape"),
        _ => (t(format!("event(node:{n},lane:{l}) {m}")), false, "no-at-sign"),
    }
}

/// The raw peer's reader: decodes (with the real reader) every text message the task writes.
async fn peer_reader<R: tokio::io::AsyncRead + Unpin>(log_r: Log, mut peer_rx: R) {
    let mut message: Vec<u8> = Vec::new();
    let mut message_op = 0u8;
    loop {
        let (fin, opcode, payload) = match rawpeer::read_frame(&mut peer_rx).await {
            Ok(f) => f,
            Err(_) => {
                let mut l = log_r.lock().unwrap();
                if l.peer_closed.is_none() {
                    l.peer_closed = Some("transport closed without a close frame".into());
                }
                return;
            }
        };
        match opcode {
            rawpeer::OP_TEXT | rawpeer::OP_BINARY | rawpeer::OP_CONT => {
                if opcode != rawpeer::OP_CONT {
                    message.clear();
                    message_op = opcode;
                }
                message.extend_from_slice(&payload);
                if !fin {
                    continue;
                }
                let mut l = log_r.lock().unwrap();
                if message_op == rawpeer::OP_BINARY {
                    l.problems.push(("task-wrote-binary-frame".into(), "the task wrote a binary frame".into(), Json::Null));
                    continue;
                }
                let text = String::from_utf8_lossy(&message).to_string();
                match pure::peel(&text) {
                    Ok(p) => match Kind::from_name(p.kind) {
                        Some(kind) => l.arrivals.push(Arrival { ep: Ep::Peer, origin: None, frame: Frame { kind, node: p.node, lane: p.lane, body: p.body.into_bytes() } }),
                        None => l.problems.push(("task-wrote-auth-envelope".into(), "the task wrote an @auth/@deauth envelope".into(), json!({"frame": text}))),
                    },
                    Err(e) => l.problems.push(("task-wrote-unreadable-frame".into(), format!("the task wrote a text frame its own reader rejects: {e}"), json!({"frame": text.chars().take(200).collect::<String>()}))),
                }
            }
            rawpeer::OP_CLOSE => {
                let code = if payload.len() >= 2 { u16::from_be_bytes([payload[0], payload[1]]) } else { 0 };
                let reason = String::from_utf8_lossy(payload.get(2..).unwrap_or(&[])).to_string();
                log_r.lock().unwrap().peer_closed = Some(format!("{code} {reason}"));
                // Keep draining until the transport closes.
            }
            _ => {}
        }
    }
}

/// The raw peer writes one valid envelope (logged before it is written), sometimes in fragments.
#[allow(clippy::too_many_arguments)]
async fn write_valid<W: tokio::io::AsyncWrite + Unpin>(peer_tx: &mut W, wrng: &mut Rng, log_w: &Log, text: &str, frame: &Frame, unique: bool, after_invalid: bool, mask: [u8; 4]) -> std::io::Result<()> {
    let idx = log_send(log_w, 1, PEER_SRC, frame, unique, after_invalid);
    // One time in four the message travels as 2-3 fragments (cut at character boundaries).
    let mut cuts: Vec<usize> = Vec::new();
    if wrng.chance(1, 4) && text.len() > 2 {
        for _ in 0..wrng.range(1, 2) {
            let mut c = wrng.usize_below(text.len());
            while !text.is_char_boundary(c) {
                c -= 1;
            }
            cuts.push(c);
        }
        cuts.sort();
    }
    // Half of the fragmented messages have a ping or an unsolicited pong between two fragments.
    let control = if !cuts.is_empty() && wrng.chance(1, 2) { Some((wrng.usize_below(cuts.len()), if wrng.bool() { rawpeer::OP_PING } else { rawpeer::OP_PONG })) } else { None };
    if control.is_some() {
        log_w.lock().unwrap().control_inside_message += 1;
    }
    let r = rawpeer::write_message(peer_tx, rawpeer::OP_TEXT, text.as_bytes(), &cuts, mask, control).await;
    if r.is_err() {
        log_w.lock().unwrap().sent[idx].failed = true;
    }
    r
}

pub fn raw_case(rng: &mut Rng, pool: &[String], out: &mut CaseOut) {
    let world = gen_world(rng, pool, true);
    let s0 = &world.sides[0];
    // Peer script.
    let n_frames = rng.range(5, 40);
    let inject_at = if rng.bool() { Some(rng.below(n_frames)) } else { None };
    let lanes: Vec<String> = s0.downlinks.iter().map(|d| d.lane.clone()).collect();
    let mut peer_steps: Vec<PeerStep> = Vec::new();
    let mut markers: Vec<(String, String)> = Vec::new();
    let mut reader_panic: Option<&'static str> = None;
    let mut injected_text: Option<String> = None;
    let mut seq = 0u64;
    let mut all_nodes: Vec<String> = s0.nodes.iter().map(|n| n.name.clone()).collect();
    all_nodes.extend(s0.downlinks.iter().map(|d| d.node.clone()));
    for i in 0..n_frames {
        match rng.below(12) {
            0 => peer_steps.push(PeerStep::Yield(rng.range(1, 30) as u32)),
            1 => peer_steps.push(PeerStep::Sleep(rng.range(1, 5))),
            _ => {}
        }
        // Address: an agent of the task, a downlink of the task, or nobody.
        let to_agent = rng.bool();
        let (node, lane) = if rng.chance(1, 8) {
            (rng.pick(&all_nodes).clone(), random_name(rng, pool))
        } else if to_agent || s0.downlinks.is_empty() {
            (rng.pick(&all_nodes).clone(), if lanes.is_empty() { "lane".to_string() } else { rng.pick(&lanes).clone() })
        } else {
            let d = rng.pick(&s0.downlinks);
            (d.node.clone(), d.lane.clone())
        };
        if Some(i) == inject_at {
            let marker = format!("BAD{i}x{}", rng.below(1_000_000));
            let (bytes, binary, what) = if rng.chance(1, 3) {
                // Random one-character mutation of a real frame, kept only if the real reader rejects it.
                let f = Frame { kind: Kind::Event, node: node.clone(), lane: lane.clone(), body: marker.clone().into_bytes() };
                let text = spell(&f, rng.below(2));
                let header_len = text.len() - marker.len();
                let mut chars: Vec<char> = text.chars().collect();
                let pos = rng.usize_below(chars.len().min(header_len.max(1)));
                match rng.below(3) {
                    0 => {
                        chars.remove(pos);
                    }
                    1 => chars.insert(pos, *rng.pick(&['"', '(', ')', ',', ':', '@', '\\', ' ', 'x'])),
                    _ => chars[pos] = *rng.pick(&['"', '(', ')', ',', ':', '@', '\\', '{', 'x']),
                }
                let mutated: String = chars.into_iter().collect();
                match pure::peel(&mutated) {
                    Err(e) if e.starts_with(pure::READER_PANICKED) => (mutated.into_bytes(), false, "random-mutation-reader-panics"),
                    Err(_) => (mutated.into_bytes(), false, "random-mutation"),
                    Ok(_) => invalid_by_construction(rng, &node, &lane, &marker),
                }
            } else {
                invalid_by_construction(rng, &node, &lane, &marker)
            };
            markers.push((marker, what.to_string()));
            // What the real reader does with this frame when called directly: the signature of a
            // task panic names the reader's failure, not the mutation that provoked it.
            if !binary {
                if let Ok(text) = std::str::from_utf8(&bytes) {
                    if let Err(e) = pure::peel(text) {
                        if let Some(msg) = e.strip_prefix(pure::READER_PANICKED) {
                            reader_panic = Some(if msg.contains("finish()") {
                                "nom-incomplete-in-finish"
                            } else if msg.contains("CharTryFromError") || msg.contains("unwrap") {
                                "surrogate-escape-unwrap"
                            } else {
                                "other"
                            });
                            injected_text = Some(text.to_string());
                        }
                    }
                }
            }
            out.count(&format!("invalid-frame/{what}"));
            peer_steps.push(PeerStep::Invalid(bytes, binary));
            continue;
        }
        match rng.below(20) {
            0 => {
                let marker = format!("AUTH{i}x{}", rng.below(1_000_000));
                peer_steps.push(PeerStep::Ignored(format!("@{}({{node:{},lane:{}}}) {marker}", if rng.bool() { "auth" } else { "deauth" }, quote(&node, false), quote(&lane, false))));
                markers.push((marker, "auth-envelope".to_string()));
            }
            1 => peer_steps.push(PeerStep::Ping),
            _ => {
                let request = to_agent;
                let kind = if request {
                    *rng.pick(&[Kind::Link, Kind::Sync, Kind::Unlink, Kind::Command, Kind::Command, Kind::Command])
                } else {
                    *rng.pick(&[Kind::Linked, Kind::Synced, Kind::Unlinked, Kind::Event, Kind::Event, Kind::Event])
                };
                let with_body = matches!(kind, Kind::Command | Kind::Event | Kind::Unlinked);
                let body = if with_body {
                    seq += 1;
                    tagged_body(rng, (PEER_SRC as u64) << 32 | seq).into_bytes()
                } else {
                    vec![]
                };
                let f = Frame { kind, node, lane, body };
                // A random mutation that the real reader still accepts is a valid envelope
                // saying what the real reader says it says.
                if rng.chance(1, 10) {
                    let text = spell(&f, rng.below(2));
                    let mut chars: Vec<char> = text.chars().collect();
                    let pos = rng.usize_below(chars.len());
                    chars[pos] = *rng.pick(&['a', ' ', '-', '_', 'é', '"']);
                    let mutated: String = chars.into_iter().collect();
                    if let Ok(p) = pure::peel(&mutated) {
                        if let Some(k) = Kind::from_name(p.kind) {
                            let bodied = matches!(k, Kind::Command | Kind::Event | Kind::Unlinked);
                            // Only if the unique body survived the mutation (or the kind has none).
                            if (bodied && p.body.as_bytes() == f.body.as_slice()) || (!bodied && f.body.is_empty()) {
                                let g = Frame { kind: k, node: p.node, lane: p.lane, body: f.body.clone() };
                                out.count("mutated-but-valid-frames");
                                peer_steps.push(PeerStep::Valid(mutated, g, with_body));
                                continue;
                            }
                        }
                    }
                }
                let variant = rng.below(6);
                out.count(&format!("spelling-variant-{variant}"));
                peer_steps.push(PeerStep::Valid(spell(&f, variant), f, with_body));
            }
        }
    }

    let log: Log = Arc::new(Mutex::new(LogInner::default()));
    let rt = runtime();
    let injected = inject_at.is_some();
    let result: Result<(Settled, bool), String> = rt.block_on(async {
        let (a, b) = duplex(world.duplex_buf);
        let ws0: Ws = WebSocket::from_upgraded(WebSocketConfig::default(), a, Some(NoExt), BytesMut::new(), Role::Server);
        let (scripts_tx, scripts_rx) = mpsc::unbounded_channel();
        let (sends, eps) = world.size();
        let h0 = start_side(&log, 0, s0, ws0, rng, &scripts_tx, spin_budget(sends + n_frames, eps + 1));
        // The peer speaks RFC 6455 through the harness' own framer; its two directions share nothing.
        let (peer_rx, mut peer_tx) = tokio::io::split(b);
        // Peer reader: everything the task writes.
        tokio::spawn(peer_reader(log.clone(), peer_rx));
        // Peer writer.
        let log_w = log.clone();
        let mut wrng = rng.fork();
        let writer = tokio::spawn(async move {
            let mut after_invalid = false;
            for step in peer_steps {
                let mask = (wrng.next_u64() as u32).to_be_bytes();
                let r = match step {
                    PeerStep::Yield(n) => {
                        yields(n).await;
                        Ok(())
                    }
                    PeerStep::Sleep(ms) => {
                        tokio::time::sleep(Duration::from_millis(ms)).await;
                        Ok(())
                    }
                    PeerStep::Ping => rawpeer::write_frame(&mut peer_tx, rawpeer::OP_PING, true, b"p", mask).await,
                    PeerStep::Ignored(text) => rawpeer::write_frame(&mut peer_tx, rawpeer::OP_TEXT, true, text.as_bytes(), mask).await,
                    PeerStep::Invalid(bytes, binary) => {
                        after_invalid = true;
                        rawpeer::write_frame(&mut peer_tx, if binary { rawpeer::OP_BINARY } else { rawpeer::OP_TEXT }, true, &bytes, mask).await
                    }
                    PeerStep::Valid(text, frame, unique) => write_valid(&mut peer_tx, &mut wrng, &log_w, &text, &frame, unique, after_invalid, mask).await,
                };
                if r.is_err() {
                    // The task closed the socket.
                    break;
                }
            }
            // Keep the write half open: dropping it would look like a transport failure.
            KEEP.with(|k| k.borrow_mut().push(Box::new(peer_tx)));
        });
        let mut r = settle(&log, scripts_rx, vec![writer]).await;
        let aborted = log.lock().unwrap().abort.is_some();
        if !aborted && r == Ok(Settled::Quiet) && !responsive(&h0, 0).await {
            r = Ok(Settled::Frozen);
        }
        let ended = h0.task.is_finished();
        if !aborted && r.is_ok() && ended && !injected {
            let close = log.lock().unwrap().peer_closed.clone();
            log.lock().unwrap().problems.push(("task-ended-by-itself".into(), "the RemoteTask ended although every frame it received was a valid envelope".into(), json!({"close": close})));
        }
        h0.stop.trigger();
        match tokio::time::timeout(Duration::from_secs(60), h0.task).await {
            Ok(Err(e)) if e.is_panic() => {
                let what = markers.iter().find(|(m, _)| m.starts_with("BAD")).map(|(_, w)| w.clone()).unwrap_or_else(|| "none".into());
                log.lock().unwrap().problems.push((
                    format!("task-panicked/reader={}", reader_panic.unwrap_or("does-not-panic-when-called-directly")),
                    "RemoteTask panicked after a frame that is not a valid envelope (all other traffic of the socket is lost with it)".into(),
                    json!({"injected": what, "frame": injected_text.as_ref().map(|t| t.chars().take(200).collect::<String>())}),
                ))
            }
            Err(_) => out.count("task-did-not-stop-within-60s-virtual"),
            _ => {}
        }
        r.map(|st| (st, ended))
    });
    drop(rt);
    KEEP.with(|k| k.borrow_mut().clear());
    let l = log.lock().unwrap();
    match result {
        Err(why) => out.inconclusive(why),
        Ok((settled, ended)) => {
            let cut_short = report_abort(&l, "socket-raw", out);
            let frozen = settled == Settled::Frozen && !cut_short;
            if frozen {
                out.count(&format!("frozen/registration-buffer-{}", s0.reg_buf));
                out.count(&format!("frozen/duplex-buffer-{}", world.duplex_buf));
                out.log(|| describe_stuck(&world, &l));
                out.log(|| format!("peer: injected {injected}, task ended {ended}, close {:?}", l.peer_closed));
                out.violation(
                    P,
                    // Seen only with a registration buffer of one slot: the registration task holds
                    // the outgoing half's only slot while it waits for the incoming half, which
                    // waits for that slot to register an agent route.
                    format!("socket-raw/wedged/{}", if s0.reg_buf == 1 { "registration-buffer-of-1" } else { "registration-buffer-above-1" }),
                    "the task is idle for ever (nothing runnable, no timer pending, every reader ready to read) while sources or the peer are still blocked writing or attaching, or a new attachment is never confirmed",
                    json!({"duplex_buffer": world.duplex_buf, "registration_buffer": s0.reg_buf, "invalid_frame_injected": injected, "task_ended": ended, "sent": l.sent.len(), "arrived": l.arrivals.len(),
                           "downlinks_attached": l.dl_attach_done.len(), "downlinks": s0.downlinks.len(), "findnode_requests": l.finds.len()}),
                );
            }
            evaluate(&world, &l, true, ended, frozen || cut_short, &markers, out);
            if l.control_inside_message > 0 {
                out.add("fragmented-messages-with-a-control-frame-inside", l.control_inside_message);
            }
            if injected {
                out.count("invalid-frame-injected");
                if ended {
                    out.count("task-closed-after-invalid-frame");
                } else {
                    // The invalid frame may have been the last thing written before the
                    // transport filled up; not a verdict, but it must stay visible.
                    out.count("task-still-running-after-invalid-frame");
                }
            }
            let both_ways = l.arrivals.iter().any(|a| a.ep == Ep::Peer) && l.arrivals.iter().any(|a| a.ep != Ep::Peer);
            out.nontrivial = both_ways && (!injected || ended);
        }
    }
    out.set_sample(json!({
        "agents": s0.nodes.iter().map(|n| n.name.chars().take(30).collect::<String>()).collect::<Vec<_>>(),
        "downlinks": s0.downlinks.len(), "peer_frames": n_frames, "injected": markers.iter().filter(|(m, _)| m.starts_with("BAD")).map(|(_, w)| w.clone()).collect::<Vec<_>>(),
        "sent": l.sent.len(), "arrived": l.arrivals.len(), "close": l.peer_closed,
    }));
}
