//! `MultiReader` (the multiplexer that puts all agents / downlinks of one socket onto it).
//!
//! * `poll_case`: the harness owns every inner stream and the outer waker and drives
//!   `poll_next` directly. Streams are scripted (`Script`): they yield what the driver made
//!   available, return `Pending` (keeping the waker they were given) otherwise and `None` once
//!   closed and drained. The driver wakes a stream's stored waker whenever it makes something
//!   available, which is all a correct `Stream` ever promises.
//! * `threads_case`: the same streams fed and woken from foreign OS threads while the main thread
//!   polls with a park/unpark waker (workload for ThreadSanitizer and Miri).

use std::collections::VecDeque;
use std::pin::Pin;
use std::sync::atomic::{AtomicBool, AtomicU64, Ordering};
use std::sync::{Arc, Mutex};
use std::task::{Context, Poll, Wake, Waker};
use std::time::{Duration, Instant};

use common::{json, CaseOut, Rng};
use futures::Stream;
use swimos_utilities::multi_reader::MultiReader;

use crate::P;

pub const RULE_POLL: &str = "MultiReader over 1-200 scripted streams (1-70 when scaled below 0.01) driven at poll level for 60-2500 seeded steps: add stream \
    (late adds, also after Ready(None) and into slots freed by closed streams), make 1-3 items available on a stream and fire the waker it \
    stored, close a stream, spurious wake, poll the reader (also when nothing was woken); then close everything and drain. Oracle after every \
    poll: an item is the next unseen item of its stream (order kept, no duplicate, nothing fabricated); Ready(None) only when every added \
    stream is closed and drained; when the reader answers Pending while a stream has something available, the outer waker must have been \
    woken during that poll and the stream must be polled within two further polls; a ready stream is polled within 3*live+8 polls \
    (no starvation); at the end the multiset of outputs equals the inputs. Non-trivial when at least one stream parked (Pending), was woken \
    and then delivered; distinct by hash of the observed (step, result) schedule";

pub const RULE_THREADS: &str = "MultiReader over 1-200 streams (1-40 when scaled below 0.01) whose items are pushed, and whose stored wakers are fired, by 2-4 foreign OS \
    threads while the main thread polls with a park/unpark waker and adds a third of the streams late; oracle: per-stream order, multiset \
    of outputs equals inputs, Ready(None) at the end; producers start after the first poll (wakers stored) and in half of the cases keep at most \
    1-6 items in flight (lock-step, always when scaled down) so that the polling thread keeps parking; a Pending answer that no wake-up follows \
    although an added stream whose waker was fired holds an item is a lost wake-up (logical condition, evaluated when a park times out); \
    wall-clock watchdog => inconclusive. Non-trivial when at least one wake-up came from a foreign thread; distinct by parameters (the interleaving itself is not observable)";

const TAG_SHIFT: u32 = 32;

#[derive(Default)]
struct Script {
    avail: VecDeque<u64>,
    closed: bool,
    waker: Option<Waker>,
    polls: u64,
    /// `None` was returned: polling again would be a contract breach by the reader.
    done: bool,
    polled_after_done: bool,
    /// Set when a poll returned `Pending`; cleared by the next poll (used for evidence).
    parked: bool,
    woken_while_parked: u64,
}

#[derive(Clone)]
struct SStream(Arc<Mutex<Script>>);

impl Stream for SStream {
    type Item = u64;
    fn poll_next(self: Pin<&mut Self>, cx: &mut Context<'_>) -> Poll<Option<u64>> {
        let mut s = self.0.lock().unwrap();
        s.polls += 1;
        s.parked = false;
        if s.done {
            s.polled_after_done = true;
            return Poll::Ready(None);
        }
        if let Some(x) = s.avail.pop_front() {
            s.waker = None;
            Poll::Ready(Some(x))
        } else if s.closed {
            s.done = true;
            s.waker = None;
            Poll::Ready(None)
        } else {
            s.waker = Some(cx.waker().clone());
            s.parked = true;
            Poll::Pending
        }
    }
}

/// Make something available and fire the stored waker (outside the lock, as a foreign producer would).
fn feed(s: &Arc<Mutex<Script>>, items: &[u64], close: bool) {
    let w = {
        let mut g = s.lock().unwrap();
        g.avail.extend(items.iter().copied());
        if close {
            g.closed = true;
        }
        if g.parked {
            g.woken_while_parked += 1;
        }
        g.waker.take()
    };
    if let Some(w) = w {
        w.wake();
    }
}

struct CountWaker(AtomicU64);
impl Wake for CountWaker {
    fn wake(self: Arc<Self>) {
        self.0.fetch_add(1, Ordering::SeqCst);
    }
    fn wake_by_ref(self: &Arc<Self>) {
        self.0.fetch_add(1, Ordering::SeqCst);
    }
}

struct Model {
    script: Arc<Mutex<Script>>,
    sent: u64,
    received: u64,
    closed: bool,
    /// Outer polls answered `Pending` since this stream had something available and was not polled.
    pending_misses: u32,
    /// Outer polls (any answer) since this stream became ready without being polled.
    waited: u64,
    /// Largest number of live streams seen during the current wait (the fairness bound scales with it).
    wait_live: u64,
    polls_seen: u64,
}

struct Drv {
    mr: MultiReader<SStream>,
    models: Vec<Model>,
    outer: Arc<CountWaker>,
    waker: Waker,
    viol: u32,
    got_total: u64,
    ended_once: bool,
    parked_delivered: bool,
}

impl Drv {
    fn add(&mut self, rng: &mut Rng) {
        let id = self.models.len() as u64;
        let script = Arc::new(Mutex::new(Script::default()));
        let n0 = rng.below(3);
        let items: Vec<u64> = (0..n0).map(|k| id << TAG_SHIFT | k).collect();
        let close = rng.chance(1, 12);
        feed(&script, &items, close);
        self.mr.add(SStream(script.clone()));
        self.models.push(Model { script, sent: n0, received: 0, closed: close, pending_misses: 0, waited: 0, wait_live: 0, polls_seen: 0 });
    }

    /// One judged poll of the reader; `None` once a violation made further judging pointless.
    fn poll_once(&mut self, out: &mut CaseOut, step: u64) -> Option<Poll<Option<u64>>> {
        let before = self.outer.0.load(Ordering::SeqCst);
        let mut cx = Context::from_waker(&self.waker);
        let r = Pin::new(&mut self.mr).poll_next(&mut cx);
        let woken_during = self.outer.0.load(Ordering::SeqCst) > before;
        out.events += 1;
        out.sig(&(step, match &r { Poll::Pending => u64::MAX, Poll::Ready(None) => u64::MAX - 1, Poll::Ready(Some(x)) => *x }));
        let models = &mut self.models;
        match &r {
            Poll::Ready(Some(x)) => {
                self.got_total += 1;
                let sid = (*x >> TAG_SHIFT) as usize;
                let n = *x & ((1u64 << TAG_SHIFT) - 1);
                match models.get_mut(sid) {
                    None => {
                        out.violation(P, "multi-reader/fabricated-item", "item of a stream that was never added", json!({"item": x}));
                        self.viol += 1;
                    }
                    Some(m) => {
                        if n >= m.sent {
                            out.violation(P, "multi-reader/fabricated-item", "item that was never made available", json!({"stream": sid, "n": n, "sent": m.sent}));
                            self.viol += 1;
                        } else if n < m.received {
                            out.violation(P, "multi-reader/duplicate-item", "item delivered twice", json!({"stream": sid, "n": n}));
                            self.viol += 1;
                        } else if n > m.received {
                            out.violation(P, "multi-reader/stream-order", "item overtook an earlier item of its own stream", json!({"stream": sid, "n": n, "expected": m.received}));
                            self.viol += 1;
                            m.received = n + 1;
                        } else {
                            m.received += 1;
                        }
                        if m.script.lock().unwrap().woken_while_parked > 0 {
                            self.parked_delivered = true;
                        }
                    }
                }
            }
            Poll::Ready(None) => {
                self.ended_once = true;
                if let Some((sid, m)) = models.iter().enumerate().find(|(_, m)| !(m.closed && m.received == m.sent)) {
                    out.violation(
                        P,
                        if m.closed { "multi-reader/premature-end/items-undelivered" } else { "multi-reader/premature-end/stream-open" },
                        "Ready(None) while an added stream is still open or has undelivered items",
                        json!({"stream": sid, "closed": m.closed, "sent": m.sent, "received": m.received, "streams": models.len()}),
                    );
                    self.viol += 1;
                }
            }
            Poll::Pending => {}
        }
        // Liveness bookkeeping.
        let live = models.iter().filter(|m| !(m.closed && m.received == m.sent)).count() as u64;
        let n_models = models.len();
        for (sid, m) in models.iter_mut().enumerate() {
            let (polls, has, after_done) = {
                let g = m.script.lock().unwrap();
                (g.polls, !g.done && (!g.avail.is_empty() || g.closed), g.polled_after_done)
            };
            if after_done {
                out.count("stream-polled-after-none");
            }
            if polls != m.polls_seen || !has {
                m.polls_seen = polls;
                m.pending_misses = 0;
                m.waited = 0;
                m.wait_live = 0;
                continue;
            }
            // Something is available and the stream was not polled by this call.
            m.waited += 1;
            m.wait_live = m.wait_live.max(live);
            out.log(|| format!("step {step}: stream {sid} has something, not polled (waited {}), result {:?}, live {live}", m.waited, r));
            if r.is_pending() {
                m.pending_misses += 1;
                // Sound because the driver fires the stored waker on every `feed`, a new stream
                // must be polled once, and a stream that answered Ready(Some) must be re-polled:
                // a stream with something available is always one the reader has been told about.
                if !woken_during {
                    out.violation(
                        P,
                        "multi-reader/lost-wakeup",
                        "Pending returned while a stream whose waker fired has an item, and the outer waker was not woken during the poll",
                        json!({"stream": sid, "streams": n_models, "step": step}),
                    );
                    self.viol += 1;
                } else if m.pending_misses > 2 {
                    out.violation(P, "multi-reader/ready-stream-unpolled", "a stream with an item was still not polled two polls after its waker fired", json!({"stream": sid, "step": step}));
                    self.viol += 1;
                }
            } else if m.waited > 3 * m.wait_live + 8 {
                out.violation(
                    P,
                    "multi-reader/starved-behind-others",
                    "a ready stream was not polled within 3*live+8 polls that all delivered items of other streams",
                    json!({"stream": sid, "waited": m.waited, "live_max_during_wait": m.wait_live}),
                );
                self.viol += 1;
                m.waited = 0;
            }
        }
        if self.viol > 0 {
            None
        } else {
            Some(r)
        }
    }
}

pub fn poll_case(rng: &mut Rng, small: bool, selftest: bool, out: &mut CaseOut) {
    let max_streams = match rng.below(4) {
        0 => rng.range(1, 8),
        1 => rng.range(60, 70),
        2 => {
            if small {
                rng.range(64, 70)
            } else {
                rng.range(120, 200)
            }
        }
        _ => {
            if small {
                rng.range(1, 70)
            } else {
                rng.range(1, 200)
            }
        }
    } as usize;
    let steps = if small { rng.range(60, 400) } else { rng.range(60, 2500) };
    let p_poll = rng.range(20, 70);
    let initial = rng.usize_below(max_streams + 1);

    let outer = Arc::new(CountWaker(AtomicU64::new(0)));
    let mut d = Drv {
        mr: MultiReader::new(),
        models: Vec::new(),
        waker: Waker::from(outer.clone()),
        outer,
        viol: 0,
        got_total: 0,
        ended_once: false,
        parked_delivered: false,
    };
    let mut closed_slots = 0u64;
    for _ in 0..initial {
        d.add(rng);
    }

    let mut ok = true;
    let mut step = 0u64;
    while step < steps && ok {
        step += 1;
        let roll = rng.below(100);
        if roll < p_poll {
            ok = d.poll_once(out, step).is_some();
        } else if roll < p_poll + 8 && d.models.len() < max_streams {
            if d.ended_once {
                out.count("add-after-ready-none");
            }
            if closed_slots > 0 {
                out.count("add-after-a-close");
            }
            d.add(rng);
        } else if d.models.is_empty() {
            continue;
        } else if roll < 94 {
            // Feed an open stream (bursts over many streams now and then).
            let burst = if rng.chance(1, 10) { rng.range(2, 40) } else { 1 };
            for _ in 0..burst {
                let sid = rng.usize_below(d.models.len());
                let m = &mut d.models[sid];
                if m.closed {
                    continue;
                }
                let k = rng.range(1, 3);
                let items: Vec<u64> = (0..k).map(|j| (sid as u64) << TAG_SHIFT | (m.sent + j)).collect();
                m.sent += k;
                if selftest && rng.chance(1, 20) {
                    // Oracle self-test: a stream that breaks its contract (new item, no wake-up).
                    let mut g = m.script.lock().unwrap();
                    g.avail.extend(items.iter().copied());
                    g.waker = None;
                    continue;
                }
                feed(&m.script, &items, false);
            }
        } else if roll < 98 {
            let sid = rng.usize_below(d.models.len());
            let m = &mut d.models[sid];
            if !m.closed {
                m.closed = true;
                closed_slots += 1;
                feed(&m.script, &[], true);
            }
        } else {
            // Spurious wake: allowed for any waker.
            let sid = rng.usize_below(d.models.len());
            let w = d.models[sid].script.lock().unwrap().waker.clone();
            if let Some(w) = w {
                w.wake_by_ref();
                out.count("spurious-wake");
            }
        }
    }
    // Drain: close everything, poll to the end.
    if ok {
        for m in d.models.iter_mut() {
            if !m.closed {
                m.closed = true;
                feed(&m.script, &[], true);
            }
        }
        let budget = d.models.iter().map(|m| m.sent - m.received).sum::<u64>() + 3 * d.models.len() as u64 + 16;
        let mut ended = false;
        for k in 0..budget {
            match d.poll_once(out, steps + 1 + k) {
                None => {
                    ok = false;
                    break;
                }
                Some(Poll::Ready(None)) => {
                    ended = true;
                    break;
                }
                Some(_) => {}
            }
        }
        if ok && !ended {
            out.violation(P, "multi-reader/never-ends", "all streams closed but the reader did not reach Ready(None) within the step budget", json!({"streams": d.models.len(), "budget": budget}));
        }
        if ok && ended {
            for (sid, m) in d.models.iter().enumerate() {
                if m.received != m.sent {
                    out.violation(P, "multi-reader/items-lost", "reader ended with undelivered items", json!({"stream": sid, "sent": m.sent, "received": m.received}));
                    break;
                }
            }
        }
    }
    if d.models.len() > 64 {
        out.count("more-than-64-streams");
    }
    if d.models.len() > 128 {
        out.count("more-than-128-streams");
    }
    if d.parked_delivered {
        out.count("parked-woken-delivered");
    }
    out.add("items", d.got_total);
    out.nontrivial = d.parked_delivered;
    out.set_sample(json!({"streams": d.models.len(), "steps": steps, "items": d.got_total, "ended_midway": d.ended_once}));
}

// ------------------------------------------------------------------------------------------------

struct ParkWaker {
    thread: std::thread::Thread,
    notified: AtomicBool,
    wakes: AtomicU64,
}

impl Wake for ParkWaker {
    fn wake(self: Arc<Self>) {
        self.wake_by_ref();
    }
    fn wake_by_ref(self: &Arc<Self>) {
        self.wakes.fetch_add(1, Ordering::SeqCst);
        self.notified.store(true, Ordering::SeqCst);
        self.thread.unpark();
    }
}

/// Shared between the polling thread and the producers of one threaded case.
struct Shared {
    /// Producers wait for this: the polling thread has polled once, so wakers are stored.
    start: AtomicBool,
    /// Set when the polling thread gives up; producers stop.
    abort: AtomicBool,
    /// Items whose `feed` (push + wake) has returned.
    woken_items: AtomicU64,
    /// Items the polling thread has received.
    consumed: AtomicU64,
    producers_done: AtomicU64,
}

pub fn threads_case(rng: &mut Rng, small: bool, out: &mut CaseOut) {
    let n_streams = match rng.below(3) {
        0 => rng.range(1, 6),
        1 => {
            if small {
                rng.range(20, 40)
            } else {
                rng.range(60, 140)
            }
        }
        _ => {
            if small {
                rng.range(1, 40)
            } else {
                rng.range(1, 200)
            }
        }
    } as usize;
    let n_threads = rng.range(2, 4) as usize;
    let per_stream = if small { rng.range(1, 6) } else { rng.range(1, 60) };
    let late_every = rng.range(2, 5) as usize;
    // Lock-step: producers keep at most `window` items in flight, so the polling thread keeps
    // running dry, parks, and is woken from a foreign thread again and again.
    let window: Option<u64> = if small || rng.chance(1, 2) { Some(rng.range(1, 6)) } else { None };
    out.sig(&(n_streams, n_threads, per_stream, late_every, window));
    let timeout = Duration::from_secs(if small { 900 } else { 60 });

    let scripts: Vec<Arc<Mutex<Script>>> = (0..n_streams).map(|_| Arc::new(Mutex::new(Script::default()))).collect();
    let sh = Arc::new(Shared {
        start: AtomicBool::new(false),
        abort: AtomicBool::new(false),
        woken_items: AtomicU64::new(0),
        consumed: AtomicU64::new(0),
        producers_done: AtomicU64::new(0),
    });
    let mut handles = Vec::new();
    for t in 0..n_threads {
        let mine: Vec<(usize, Arc<Mutex<Script>>)> = scripts.iter().enumerate().filter(|(i, _)| i % n_threads == t).map(|(i, s)| (i, s.clone())).collect();
        let mut prng = rng.fork();
        let sh = sh.clone();
        handles.push(std::thread::spawn(move || {
            while !sh.start.load(Ordering::SeqCst) && !sh.abort.load(Ordering::SeqCst) {
                std::thread::yield_now();
            }
            // Round-robin over the thread's streams so that many streams become ready together.
            let mut next: Vec<u64> = vec![0; mine.len()];
            let mut open = mine.len();
            'produce: while open > 0 {
                for (k, (sid, s)) in mine.iter().enumerate() {
                    if next[k] > per_stream {
                        continue;
                    }
                    if next[k] == per_stream {
                        feed(s, &[], true);
                        next[k] += 1;
                        open -= 1;
                        continue;
                    }
                    if let Some(w) = window {
                        while sh.woken_items.load(Ordering::SeqCst).saturating_sub(sh.consumed.load(Ordering::SeqCst)) >= w {
                            if sh.abort.load(Ordering::SeqCst) {
                                break 'produce;
                            }
                            std::thread::yield_now();
                        }
                    }
                    let burst = prng.range(1, 3).min(per_stream - next[k]);
                    let items: Vec<u64> = (0..burst).map(|j| (*sid as u64) << TAG_SHIFT | (next[k] + j)).collect();
                    next[k] += burst;
                    feed(s, &items, false);
                    sh.woken_items.fetch_add(burst, Ordering::SeqCst);
                    match prng.below(4) {
                        0 => std::thread::yield_now(),
                        1 => std::hint::spin_loop(),
                        _ => {}
                    }
                }
            }
            sh.producers_done.fetch_add(1, Ordering::SeqCst);
        }));
    }

    let pw = Arc::new(ParkWaker { thread: std::thread::current(), notified: AtomicBool::new(false), wakes: AtomicU64::new(0) });
    let waker = Waker::from(pw.clone());
    let mut mr: MultiReader<SStream> = MultiReader::new();
    let mut added = 0usize;
    // Two thirds up front, the rest late.
    let mut late: Vec<usize> = Vec::new();
    for i in 0..n_streams {
        if i % late_every == late_every - 1 && n_streams > 1 {
            late.push(i);
        } else {
            mr.add(SStream(scripts[i].clone()));
            added += 1;
        }
    }
    let mut received: Vec<u64> = vec![0; n_streams];
    let mut total = 0u64;
    let mut parks = 0u64;
    let mut unparked_by_producer = 0u64;
    let mut joined = false;
    let mut handles = Some(handles);
    let t0 = Instant::now();
    let mut bad = false;
    let mut ran_dry = false;
    'outer: loop {
        if t0.elapsed() > timeout {
            out.inconclusive("multi-reader-threads: wall-clock watchdog");
            break;
        }
        if !joined && sh.producers_done.load(Ordering::SeqCst) == n_threads as u64 {
            for h in handles.take().unwrap() {
                let _ = h.join();
            }
            joined = true;
        }
        // Late adds, a few at a time, as the run progresses.
        // (Also whenever the last poll ran dry: in lock-step the items in flight may all belong to
        // streams that are not added yet.)
        if !late.is_empty() && sh.start.load(Ordering::SeqCst) && (total % 3 == 0 || joined || ran_dry) {
            let i = late.pop().unwrap();
            mr.add(SStream(scripts[i].clone()));
            added += 1;
            out.count("late-add");
        }
        pw.notified.store(false, Ordering::SeqCst);
        let mut cx = Context::from_waker(&waker);
        let r = Pin::new(&mut mr).poll_next(&mut cx);
        // The first poll stored a waker in every stream added so far: let the producers loose.
        sh.start.store(true, Ordering::SeqCst);
        ran_dry = r.is_pending();
        match r {
            Poll::Ready(Some(x)) => {
                out.events += 1;
                total += 1;
                sh.consumed.store(total, Ordering::SeqCst);
                let sid = (x >> TAG_SHIFT) as usize;
                let n = x & ((1u64 << TAG_SHIFT) - 1);
                if sid >= n_streams || n != received[sid] {
                    out.violation(P, "multi-reader/stream-order/foreign-thread", "item out of its stream's order (or fabricated / duplicated)", json!({"stream": sid, "n": n, "expected": received.get(sid)}));
                    bad = true;
                    break 'outer;
                }
                received[sid] += 1;
            }
            Poll::Ready(None) => {
                if late.is_empty() {
                    break;
                }
                // All streams added so far are finished; more will be added.
                out.count("ready-none-before-late-add");
            }
            Poll::Pending => {
                if !late.is_empty() {
                    // Do not park while streams wait to be added.
                    continue;
                }
                if !pw.notified.load(Ordering::SeqCst) {
                    parks += 1;
                    let wait = if joined { Duration::from_secs(2) } else { Duration::from_millis(200) };
                    let t = Instant::now();
                    while !pw.notified.load(Ordering::SeqCst) && t.elapsed() < wait {
                        std::thread::park_timeout(wait);
                    }
                    if pw.notified.load(Ordering::SeqCst) {
                        unparked_by_producer += 1;
                        continue;
                    }
                    // Not notified for the whole wait. Every item counted in `woken_items` had its
                    // waker fired before it was counted; a wake-up that came after this poll would
                    // have set `notified`, one that came before it should have made this poll
                    // deliver. So if an added stream holds such an item now, a wake-up was lost.
                    // (Items of streams not added yet are excluded: nobody owes a wake-up for them.)
                    let deliverable = (0..n_streams).filter(|i| !late.contains(i)).any(|i| {
                        let g = scripts[i].lock().unwrap();
                        !g.done && (!g.avail.is_empty() || g.closed) && g.waker.is_none()
                    });
                    let counted = sh.woken_items.load(Ordering::SeqCst);
                    if deliverable && (joined || counted > total) && !pw.notified.load(Ordering::SeqCst) {
                        out.violation(
                            P,
                            "multi-reader/lost-wakeup/foreign-thread",
                            "the reader answered Pending and nothing woke the polling thread although a stream whose waker had been fired holds an item (or its end)",
                            json!({"streams": n_streams, "added": added, "delivered": total, "woken_items": counted, "producers_joined": joined}),
                        );
                        bad = true;
                        break 'outer;
                    }
                    if joined && late.is_empty() {
                        out.violation(P, "multi-reader/stuck-pending/foreign-thread", "all producers finished and every stream closed, the reader answers Pending and nothing wakes it", json!({"streams": n_streams, "added": added, "delivered": total}));
                        bad = true;
                        break 'outer;
                    }
                    out.count("park-timeout");
                }
            }
        }
    }
    sh.abort.store(true, Ordering::SeqCst);
    sh.start.store(true, Ordering::SeqCst);
    if let Some(hs) = handles.take() {
        for h in hs {
            let _ = h.join();
        }
    }
    if !bad && out.inconclusive.is_none() {
        for (sid, r) in received.iter().enumerate() {
            if *r != per_stream {
                out.violation(P, "multi-reader/items-lost/foreign-thread", "reader ended with undelivered items", json!({"stream": sid, "sent": per_stream, "received": r}));
                break;
            }
        }
    }
    if n_streams > 64 {
        out.count("more-than-64-streams");
    }
    if window.is_some() {
        out.count("lock-step");
    }
    out.add("parks", parks);
    out.add("unparked-by-producer", unparked_by_producer);
    out.add("foreign-wakes", pw.wakes.load(Ordering::SeqCst));
    out.nontrivial = pw.wakes.load(Ordering::SeqCst) > 0;
    out.set_sample(json!({"streams": n_streams, "threads": n_threads, "items_per_stream": per_stream, "window": window, "delivered": total, "parks": parks, "foreign_wakes": pw.wakes.load(Ordering::SeqCst)}));
}
