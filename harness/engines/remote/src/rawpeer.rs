//! A minimal RFC 6455 framer for the harness-owned peer of the `socket-raw` part. The peer's read
//! and write directions are fully independent (`tokio::io::split`), so the peer can never take
//! part in a wait-for cycle: it always drains what the task writes.

use tokio::io::{AsyncRead, AsyncReadExt, AsyncWrite, AsyncWriteExt};

pub const OP_CONT: u8 = 0;
pub const OP_TEXT: u8 = 1;
pub const OP_BINARY: u8 = 2;
pub const OP_CLOSE: u8 = 8;
pub const OP_PING: u8 = 9;
pub const OP_PONG: u8 = 10;

/// Write one masked (client to server) frame.
pub async fn write_frame<W: AsyncWrite + Unpin>(w: &mut W, opcode: u8, fin: bool, payload: &[u8], mask: [u8; 4]) -> std::io::Result<()> {
    let mut buf = Vec::with_capacity(payload.len() + 14);
    buf.push(if fin { 0x80 } else { 0 } | opcode);
    let len = payload.len();
    if len < 126 {
        buf.push(0x80 | len as u8);
    } else if len <= 0xffff {
        buf.push(0x80 | 126);
        buf.extend_from_slice(&(len as u16).to_be_bytes());
    } else {
        buf.push(0x80 | 127);
        buf.extend_from_slice(&(len as u64).to_be_bytes());
    }
    buf.extend_from_slice(&mask);
    buf.extend(payload.iter().enumerate().map(|(i, b)| b ^ mask[i % 4]));
    w.write_all(&buf).await?;
    w.flush().await
}

/// Write a data message, split into fragments at the given byte offsets. `control`: after the fragment
/// with that index (if it is not the last one) a control frame with that opcode (ping / unsolicited pong)
/// is written - control frames may be injected in the middle of a fragmented message (RFC 6455, 5.4).
pub async fn write_message<W: AsyncWrite + Unpin>(w: &mut W, opcode: u8, payload: &[u8], cuts: &[usize], mask: [u8; 4], control: Option<(usize, u8)>) -> std::io::Result<()> {
    let mut start = 0;
    let mut first = true;
    let mut index = 0usize;
    for &cut in cuts.iter().chain(std::iter::once(&payload.len())) {
        let cut = cut.min(payload.len()).max(start);
        let last = cut == payload.len();
        write_frame(w, if first { opcode } else { OP_CONT }, last, &payload[start..cut], mask).await?;
        if let Some((after, op)) = control {
            if after == index && !last {
                write_frame(w, op, true, b"c", mask).await?;
            }
        }
        index += 1;
        first = false;
        start = cut;
        if last {
            break;
        }
    }
    Ok(())
}

/// Read one (unmasked, server to client) frame: (fin, opcode, payload).
pub async fn read_frame<R: AsyncRead + Unpin>(r: &mut R) -> std::io::Result<(bool, u8, Vec<u8>)> {
    let mut h = [0u8; 2];
    r.read_exact(&mut h).await?;
    let fin = h[0] & 0x80 != 0;
    let opcode = h[0] & 0x0f;
    let masked = h[1] & 0x80 != 0;
    let mut len = (h[1] & 0x7f) as u64;
    if len == 126 {
        let mut b = [0u8; 2];
        r.read_exact(&mut b).await?;
        len = u16::from_be_bytes(b) as u64;
    } else if len == 127 {
        let mut b = [0u8; 8];
        r.read_exact(&mut b).await?;
        len = u64::from_be_bytes(b);
    }
    let mut mask = [0u8; 4];
    if masked {
        r.read_exact(&mut mask).await?;
    }
    if len > (64 << 20) {
        return Err(std::io::Error::new(std::io::ErrorKind::InvalidData, "frame too large"));
    }
    let mut payload = vec![0u8; len as usize];
    r.read_exact(&mut payload).await?;
    if masked {
        for (i, b) in payload.iter_mut().enumerate() {
            *b ^= mask[i % 4];
        }
    }
    Ok((fin, opcode, payload))
}
