//! Pure part: the real `ReconEncoder` (what `OutgoingTask` writes to the socket) composed with the
//! real `peel_envelope_header_str` (what the peer's `IncomingTask` reads): same kind, node, lane
//! and body. `interpret_envelope` is private; what it does to the peeled envelope is decided end
//! to end by the socket parts.

use bytes::{Bytes, BytesMut};
use common::{json, CaseOut, Rng};
use swimos_api::address::RelativeAddress;
use swimos_messages::protocol::{BytesRequestMessage, BytesResponseMessage, RequestMessage, ResponseMessage};
use swimos_messages::remote_protocol::NoSuchAgent;
use swimos_messages::warp::{peel_envelope_header_str, RawEnvelope};
use swimos_model::Text;
use swimos_remote::verif_hooks::ReconEncoder;
use swimos_utilities::encoding::BytesStr;
use tokio_util::codec::Encoder;
use uuid::Uuid;

use crate::names::{body_class, name_class};
use crate::P;

/// Everything `ReconEncoder` can be asked to encode.
#[derive(Clone, Copy, Debug, PartialEq, Eq, Hash)]
pub enum Enc {
    Link,
    Sync,
    Unlink,
    Command,
    Linked,
    Synced,
    UnlinkedNone,
    UnlinkedSome,
    Event,
    NoSuchAgentLane,
    NoSuchAgentNoLane,
}

pub const ALL_ENC: [Enc; 11] = [
    Enc::Link,
    Enc::Sync,
    Enc::Unlink,
    Enc::Command,
    Enc::Linked,
    Enc::Synced,
    Enc::UnlinkedNone,
    Enc::UnlinkedSome,
    Enc::Event,
    Enc::NoSuchAgentLane,
    Enc::NoSuchAgentNoLane,
];

impl Enc {
    /// Kind of envelope the peer must see.
    pub fn kind(self) -> &'static str {
        match self {
            Enc::Link => "link",
            Enc::Sync => "sync",
            Enc::Unlink => "unlink",
            Enc::Command => "command",
            Enc::Linked => "linked",
            Enc::Synced => "synced",
            Enc::UnlinkedNone | Enc::UnlinkedSome | Enc::NoSuchAgentLane | Enc::NoSuchAgentNoLane => "unlinked",
            Enc::Event => "event",
        }
    }

    pub fn takes_body(self) -> bool {
        matches!(self, Enc::Command | Enc::UnlinkedSome | Enc::Event)
    }
}

/// Encode with the real encoder. Returns the text frame, the lane and the body the peer must see.
pub fn encode(enc: Enc, node: &str, lane: &str, body: &str) -> Result<(BytesMut, String, String), String> {
    let id = Uuid::from_u128(7);
    let path = || RelativeAddress::new(BytesStr::from(node), BytesStr::from(lane));
    let b = || Bytes::copy_from_slice(body.as_bytes());
    let mut dst = BytesMut::new();
    let mut e = ReconEncoder;
    let mut exp_lane = lane.to_string();
    let mut exp_body = String::new();
    let r = match enc {
        Enc::Link => e.encode(BytesRequestMessage::link(id, path()), &mut dst),
        Enc::Sync => e.encode(BytesRequestMessage::sync(id, path()), &mut dst),
        Enc::Unlink => e.encode(BytesRequestMessage::unlink(id, path()), &mut dst),
        Enc::Command => {
            exp_body = body.to_string();
            e.encode(RequestMessage::command(id, path(), b()), &mut dst)
        }
        Enc::Linked => e.encode(BytesResponseMessage::linked(id, path()), &mut dst),
        Enc::Synced => e.encode(BytesResponseMessage::synced(id, path()), &mut dst),
        Enc::UnlinkedNone => e.encode(BytesResponseMessage::unlinked(id, path(), None), &mut dst),
        Enc::UnlinkedSome => {
            exp_body = body.to_string();
            e.encode(BytesResponseMessage::unlinked(id, path(), Some(b())), &mut dst)
        }
        Enc::Event => {
            exp_body = body.to_string();
            e.encode(ResponseMessage::event(id, path(), b()), &mut dst)
        }
        Enc::NoSuchAgentLane => {
            exp_body = "@nodeNotFound".to_string();
            e.encode(NoSuchAgent { node: Text::new(node), lane: Some(Text::new(lane)) }, &mut dst)
        }
        Enc::NoSuchAgentNoLane => {
            exp_body = "@nodeNotFound".to_string();
            exp_lane = String::new();
            e.encode(NoSuchAgent { node: Text::new(node), lane: None }, &mut dst)
        }
    };
    r.map_err(|e| e.to_string())?;
    Ok((dst, exp_lane, exp_body))
}

/// What the peer's reader made of a text frame.
pub struct Peeled {
    pub kind: &'static str,
    pub node: String,
    pub lane: String,
    pub body: String,
    pub rate_or_prio: bool,
}

/// Marker prefix of the error `peel` returns when the real reader panicked.
pub const READER_PANICKED: &str = "READER PANICKED: ";

pub fn peel(text: &str) -> Result<Peeled, String> {
    // The reader is code under test: a panic is an observation, not a harness failure.
    let r = std::panic::catch_unwind(|| peel_inner(text));
    match r {
        Ok(r) => r,
        Err(p) => {
            let msg = p.downcast_ref::<&str>().map(|s| s.to_string()).or_else(|| p.downcast_ref::<String>().cloned()).unwrap_or_default();
            Err(format!("{READER_PANICKED}{msg}"))
        }
    }
}

fn peel_inner(text: &str) -> Result<Peeled, String> {
    let env = peel_envelope_header_str(text).map_err(|e| e.to_string())?;
    let mk = |kind, n: &str, l: &str, b: &str, rp: bool| Peeled { kind, node: n.to_string(), lane: l.to_string(), body: b.to_string(), rate_or_prio: rp };
    Ok(match &env {
        RawEnvelope::Auth(b) => mk("auth", "", "", b, false),
        RawEnvelope::DeAuth(b) => mk("deauth", "", "", b, false),
        RawEnvelope::Link { node_uri, lane_uri, rate, prio, body } => mk("link", node_uri, lane_uri, body, rate.is_some() || prio.is_some()),
        RawEnvelope::Sync { node_uri, lane_uri, rate, prio, body } => mk("sync", node_uri, lane_uri, body, rate.is_some() || prio.is_some()),
        RawEnvelope::Linked { node_uri, lane_uri, rate, prio, body } => mk("linked", node_uri, lane_uri, body, rate.is_some() || prio.is_some()),
        RawEnvelope::Command { node_uri, lane_uri, body } => mk("command", node_uri, lane_uri, body, false),
        RawEnvelope::Unlink { node_uri, lane_uri, body } => mk("unlink", node_uri, lane_uri, body, false),
        RawEnvelope::Synced { node_uri, lane_uri, body } => mk("synced", node_uri, lane_uri, body, false),
        RawEnvelope::Event { node_uri, lane_uri, body } => mk("event", node_uri, lane_uri, body, false),
        RawEnvelope::Unlinked { node_uri, lane_uri, body } => mk("unlinked", node_uri, lane_uri, body, false),
    })
}

fn clip(s: &str) -> String {
    if s.chars().count() > 120 {
        format!("{}…", s.chars().take(120).collect::<String>())
    } else {
        s.to_string()
    }
}

/// One round trip. Signatures: name rules do not mention the envelope kind (the header writer is
/// shared by all kinds), body rules do (each kind has its own body code).
pub fn round_trip(enc: Enc, node: &str, lane: &str, body: &str, out: &mut CaseOut) {
    out.events += 1;
    let detail = |text: &str, got: Option<&Peeled>| {
        json!({"encoder_input": format!("{enc:?}"), "node": clip(node), "lane": clip(lane), "body": clip(body), "frame": clip(text),
               "peer_saw": got.map(|g| json!({"kind": g.kind, "node": clip(&g.node), "lane": clip(&g.lane), "body": clip(&g.body)}))})
    };
    let (frame, exp_lane, exp_body) = match encode(enc, node, lane, body) {
        Ok(x) => x,
        Err(e) => {
            out.violation(P, format!("pure/encode-failed/{}", enc.kind()), format!("ReconEncoder returned an error: {e}"), detail("", None));
            return;
        }
    };
    let text = match std::str::from_utf8(&frame) {
        Ok(t) => t,
        Err(_) => {
            out.violation(P, format!("pure/frame-not-utf8/{}", enc.kind()), "ReconEncoder produced invalid UTF-8 from UTF-8 inputs", detail("", None));
            return;
        }
    };
    let got = match peel(text) {
        Ok(g) => g,
        Err(e) if e.starts_with(READER_PANICKED) => {
            out.violation(
                P,
                format!("pure/reader-panics/node={}/lane={}/{}", name_class(node), name_class(&exp_lane), body_class(&exp_body)),
                format!("the peer's reader panics on the frame the encoder wrote: {e}"),
                detail(text, None),
            );
            return;
        }
        Err(e) => {
            // Which of the two names is the culprit is not known; name both classes (node first).
            out.violation(
                P,
                format!("pure/unreadable/node={}/lane={}/{}", name_class(node), name_class(&exp_lane), body_class(&exp_body)),
                format!("the peer's reader rejects the frame the encoder wrote: {e}"),
                detail(text, None),
            );
            return;
        }
    };
    if got.kind != enc.kind() {
        out.violation(P, format!("pure/kind-changed/{}-read-as-{}", enc.kind(), got.kind), "envelope read back as another kind", detail(text, Some(&got)));
    }
    if got.node != node {
        out.violation(P, format!("pure/node-name-changed/{}", name_class(node)), "node URI read back differently", detail(text, Some(&got)));
    }
    if got.lane != exp_lane {
        out.violation(P, format!("pure/lane-name-changed/{}", name_class(&exp_lane)), "lane name read back differently", detail(text, Some(&got)));
    }
    if got.rate_or_prio {
        out.violation(P, format!("pure/fabricated-rate-prio/{}", enc.kind()), "reader saw a rate/prio that was never written", detail(text, Some(&got)));
    }
    if got.body != exp_body {
        // Leading white space before a Recon value is not part of the value: the reader trims it.
        if got.body == exp_body.trim_start_matches([' ', '\t']) {
            out.count("body-leading-space-trimmed");
        } else if got.body.is_empty() {
            out.violation(P, format!("pure/body-lost/{}/{}", enc.kind(), body_class(&exp_body)), "body missing after the round trip", detail(text, Some(&got)));
        } else {
            out.violation(P, format!("pure/body-changed/{}/{}", enc.kind(), body_class(&exp_body)), "body read back differently", detail(text, Some(&got)));
        }
    }
}

/// Exhaustive over the pools: one case per node string.
pub fn pool_case(i: usize, names: &[String], bodies: &[String], out: &mut CaseOut) {
    let node = &names[i];
    for lane in names {
        for enc in ALL_ENC {
            if enc.takes_body() {
                for body in bodies {
                    round_trip(enc, node, lane, body, out);
                }
            } else {
                round_trip(enc, node, lane, "", out);
            }
        }
    }
    out.count(&format!("node-class/{}", name_class(node)));
    out.nontrivial = true;
    if i < 3 {
        out.set_sample(json!({"node": clip(node), "lanes": names.len(), "bodies": bodies.len(), "encoder_inputs": ALL_ENC.len()}));
    }
}

pub fn random_case(rng: &mut Rng, names: &[String], bodies: &[String], out: &mut CaseOut) {
    let node = crate::names::random_name(rng, names);
    let lane = crate::names::random_name(rng, names);
    let enc = *rng.pick(&ALL_ENC);
    let body = if rng.chance(1, 3) { bodies[rng.usize_below(bodies.len())].clone() } else {
        let tag = rng.next_u64() >> 8;
        crate::names::tagged_body(rng, tag)
    };
    out.sig(&(enc, &node, &lane, &body));
    round_trip(enc, &node, &lane, &body, out);
    out.count(&format!("node-class/{}", name_class(&node)));
    out.count(&format!("lane-class/{}", name_class(&lane)));
    // Non-trivial: at least one of the names needs quoting or escaping.
    out.nontrivial = !swimos_model::identifier::is_identifier(&node) || !swimos_model::identifier::is_identifier(&lane);
    out.set_sample(json!({"enc": format!("{enc:?}"), "node": clip(&node), "lane": clip(&lane), "body": clip(&body)}));
}
