//! Part `socket-edge`: one `RemoteTask` against the raw RFC 6455 peer of part `socket-raw`, on the
//! paths where an envelope has no addressee or the connection goes away under live traffic.
//!
//! One mode per case:
//!  * `unknown-addressee` – response envelopes (linked/synced/unlinked/event) for (node, lane) pairs
//!    nobody subscribed to: subscribed node + unknown lane, subscribed node + a lane subscribed under
//!    another node, unknown node + subscribed lane, unknown node + unknown lane, the node of a
//!    hosted agent. (All other modes carry some of these frames too.)
//!  * `client-only` – the task is built without `find_tx` (no agents behind it): every request
//!    envelope the peer writes has no addressee.
//!  * `corrupt-channel-frame` – an attached agent or downlink writes a complete frame that the raw
//!    message decoders reject, while the other channels are busy.
//!  * `peer-close` – the peer writes a Close frame in the middle of the conversation.
//!  * `transport-eof` – the peer drops the transport without a Close frame.
//!  * `write-fails` – the task's transport accepts a seeded number of bytes, then every write fails.
//!  * `close-timeout` – at quiescence the task's transport stops accepting bytes, then the task is
//!    stopped: its closing hand-shake cannot complete.
//!
//! In every mode the resolver refuses unknown nodes through `NodeConnectionRequest::fail`; in a
//! third of the cases one node is answered `PlaneStopping`.

use std::io;
use std::sync::atomic::{AtomicI64, AtomicU64, AtomicU8, Ordering};

use tokio::io::{AsyncRead, AsyncWrite, ReadBuf};

use super::*;

pub const RULE_EDGE: &str = "one RemoteTask (as in part socket-raw: 1-4 agents, 1-4 downlinks, 0-1 commanders, scripted sources, paced readers) against the \
    harness-owned RFC 6455 peer, over a transport wrapper that can stop accepting bytes or fail writes; the resolver refuses through \
    NodeConnectionRequest::fail (NoSuchAgent; PlaneStopping for one node in a third of the cases). The peer writes 8-40 valid envelopes \
    (six spellings, fragments, pings): requests to hosted, unknown and 'stopping' nodes, responses to subscribed downlinks, and responses \
    for (node, lane) pairs nobody subscribed to (subscribed node + unknown lane, subscribed node + lane of another node, unknown node + \
    subscribed lane, unknown node + unknown lane, node of a hosted agent). One mode per case: unknown-addressee (half of the peer's frames \
    have no addressee); client-only (task built without find_tx, no agents: every request has no addressee); corrupt-channel-frame (one \
    agent or downlink ends its script with a complete frame the raw decoders reject: foreign tag, body on a body-less kind, invalid UTF-8 \
    name); peer-close (Close frame, with or without payload, in the middle of the peer's script, sometimes followed by more frames); \
    transport-eof (the peer drops the transport); write-fails (the task's transport fails every write after 0-3000 bytes); close-timeout \
    (at quiescence the task's transport stops accepting bytes, then the task is stopped). Oracle: all rules of part socket-raw (address, \
    content, origin, per-source order, no duplicate, nothing that was not written, loss only after a detach; a non-command request \
    without addressee is answered by one @unlinked(node, lane) @nodeNotFound at the peer and by nothing else; a command by nothing; a \
    reply for a 'stopping' node is allowed, not owed), where nothing may reach an endpoint other than the addressee and everything \
    addressed to attached endpoints is still owed after frames without addressee and after a corrupt channel frame (the task must keep \
    running, stay responsive to a new attachment); after a peer Close everything the peer wrote before it is owed to the endpoints that \
    were attached, nothing the task's sources wrote is owed; after a transport failure nothing is owed; in all modes a message may not \
    stay out when a later message of the same source reached the same endpoint (gap rule). Termination by logical bounds on the paused \
    clock: after a peer Close, a transport EOF or a write failure the task must have ended once nothing has moved for 6.1 virtual \
    seconds (longer than its 5 s close time-out); a task stopped on a transport that accepts no bytes must end within its close time-out \
    + 1 s; once the task has ended no harness reader may still be waiting on a byte channel and no source may stay blocked. What becomes \
    of the corrupt frame itself, of frames after a Close and of a task that cannot stop because it is blocked in a write are counted, \
    not judged. Non-trivial per mode: unknown-addressee - a frame without addressee was followed by a delivered frame; client-only - a \
    node-not-found reply reached the peer; corrupt - the frame was written and at least two other sources delivered later; peer-close / \
    transport-eof / write-fails - the event happened and frames had been delivered before; close-timeout - the close timed out; distinct \
    by hash of the global arrival order";

#[derive(Clone, Copy, Debug, PartialEq, Eq)]
enum Mode {
    UnknownAddressee,
    ClientOnly,
    CorruptChannelFrame,
    PeerClose,
    TransportEof,
    WriteFails,
    CloseTimeout,
}

impl Mode {
    fn name(self) -> &'static str {
        match self {
            Mode::UnknownAddressee => "unknown-addressee",
            Mode::ClientOnly => "client-only",
            Mode::CorruptChannelFrame => "corrupt-channel-frame",
            Mode::PeerClose => "peer-close",
            Mode::TransportEof => "transport-eof",
            Mode::WriteFails => "write-fails",
            Mode::CloseTimeout => "close-timeout",
        }
    }
}

// ------------------------------------------------------------------------------------------------
// Transport wrapper on the task's end of the duplex

const FLOW: u8 = 0;
const STALL: u8 = 1;

/// Shared switchboard of a `Flaky` transport.
struct FlakyCtl {
    state: AtomicU8,
    /// Bytes the transport still accepts before every write fails; negative: no limit.
    write_budget: AtomicI64,
    write_errors: AtomicU64,
    stalled_polls: AtomicU64,
}

impl FlakyCtl {
    fn new(write_budget: i64) -> FlakyCtl {
        FlakyCtl { state: AtomicU8::new(FLOW), write_budget: AtomicI64::new(write_budget), write_errors: AtomicU64::new(0), stalled_polls: AtomicU64::new(0) }
    }
}

/// `DuplexStream` whose write direction can be made to fail (as a reset connection does) or to
/// accept nothing more (as a connection whose peer stopped reading does, once the buffers are
/// full). Reads pass through. A stall is permanent, so no waker has to be kept.
struct Flaky {
    inner: DuplexStream,
    ctl: Arc<FlakyCtl>,
}

impl Flaky {
    fn gate(&self) -> Option<Poll<io::Result<()>>> {
        if self.ctl.state.load(Ordering::SeqCst) == STALL {
            self.ctl.stalled_polls.fetch_add(1, Ordering::SeqCst);
            return Some(Poll::Pending);
        }
        if self.ctl.write_budget.load(Ordering::SeqCst) == 0 {
            self.ctl.write_errors.fetch_add(1, Ordering::SeqCst);
            return Some(Poll::Ready(Err(io::Error::from(io::ErrorKind::BrokenPipe))));
        }
        None
    }
}

impl AsyncRead for Flaky {
    fn poll_read(mut self: Pin<&mut Self>, cx: &mut Context<'_>, buf: &mut ReadBuf<'_>) -> Poll<io::Result<()>> {
        Pin::new(&mut self.inner).poll_read(cx, buf)
    }
}

impl AsyncWrite for Flaky {
    fn poll_write(mut self: Pin<&mut Self>, cx: &mut Context<'_>, buf: &[u8]) -> Poll<io::Result<usize>> {
        match self.gate() {
            Some(Poll::Pending) => return Poll::Pending,
            Some(Poll::Ready(Err(e))) => return Poll::Ready(Err(e)),
            _ => {}
        }
        let budget = self.ctl.write_budget.load(Ordering::SeqCst);
        let n = if budget > 0 { buf.len().min(budget as usize) } else { buf.len() };
        let r = Pin::new(&mut self.inner).poll_write(cx, &buf[..n]);
        if let (Poll::Ready(Ok(k)), true) = (&r, budget > 0) {
            self.ctl.write_budget.fetch_sub(*k as i64, Ordering::SeqCst);
        }
        r
    }

    fn poll_flush(mut self: Pin<&mut Self>, cx: &mut Context<'_>) -> Poll<io::Result<()>> {
        match self.gate() {
            Some(r) => r,
            None => Pin::new(&mut self.inner).poll_flush(cx),
        }
    }

    fn poll_shutdown(mut self: Pin<&mut Self>, cx: &mut Context<'_>) -> Poll<io::Result<()>> {
        match self.gate() {
            Some(r) => r,
            None => Pin::new(&mut self.inner).poll_shutdown(cx),
        }
    }
}

// ------------------------------------------------------------------------------------------------
// Peer script

enum EStep {
    /// A valid envelope; `class`: which kind of frame without addressee it is (counter name).
    Valid { text: String, frame: Frame, unique: bool, class: Option<&'static str> },
    Ping,
    Yield(u32),
    Sleep(u64),
    /// A Close frame with this payload.
    Close(Vec<u8>),
    /// Both directions of the peer's end of the transport are dropped.
    DropTransport,
}

/// Who exists in a case, from the peer's point of view.
struct Addr {
    /// Subscribed (node, lane) pairs.
    dl: Vec<(String, String)>,
    dl_nodes: Vec<String>,
    /// Nodes with an agent behind the task.
    hosted: Vec<String>,
    /// Nodes nobody knows (the resolver says NoSuchAgent; with a client-only task nobody is asked).
    unknown_nodes: Vec<String>,
    /// Nodes for which the resolver says PlaneStopping.
    stopping: Vec<String>,
}

impl Addr {
    fn subscribed(&self, node: &str, lane: &str) -> bool {
        self.dl.iter().any(|(n, l)| n == node && l == lane)
    }

    /// A (node, lane) nobody subscribed to, and what makes it so.
    fn without_addressee(&self, rng: &mut Rng, pool: &[String]) -> (String, String, &'static str) {
        for _ in 0..16 {
            let (node, lane, class) = match rng.below(5) {
                0 => (rng.pick(&self.dl_nodes).clone(), random_name(rng, pool), "unknown-addressee/subscribed-node+unknown-lane"),
                1 => {
                    let node = rng.pick(&self.dl_nodes).clone();
                    let others: Vec<&String> = self.dl.iter().filter(|(n, _)| *n != node).map(|(_, l)| l).collect();
                    if others.is_empty() {
                        continue;
                    }
                    (node, (*rng.pick(&others)).clone(), "unknown-addressee/subscribed-node+lane-of-another-node")
                }
                2 => (rng.pick(&self.unknown_nodes).clone(), rng.pick(&self.dl).1.clone(), "unknown-addressee/unknown-node+subscribed-lane"),
                3 => (rng.pick(&self.unknown_nodes).clone(), random_name(rng, pool), "unknown-addressee/unknown-node+unknown-lane"),
                _ => {
                    let only_hosted: Vec<&String> = self.hosted.iter().filter(|n| !self.dl_nodes.contains(n)).collect();
                    if only_hosted.is_empty() {
                        continue;
                    }
                    ((*rng.pick(&only_hosted)).clone(), rng.pick(&self.dl).1.clone(), "unknown-addressee/node-of-a-hosted-agent")
                }
            };
            if !self.subscribed(&node, &lane) {
                return (node, lane, class);
            }
        }
        (self.unknown_nodes[0].clone(), "lane".to_string(), "unknown-addressee/unknown-node+unknown-lane")
    }
}

/// A name that is none of `taken` (which it joins).
fn fresh_name(rng: &mut Rng, pool: &[String], taken: &mut HashSet<String>) -> String {
    for _ in 0..1000 {
        let s = random_name(rng, pool);
        if s.len() <= 200 && taken.insert(s.clone()) {
            return s;
        }
    }
    let s = format!("/fresh/{}", taken.len());
    taken.insert(s.clone());
    s
}

struct PeerScript {
    steps: Vec<EStep>,
    n_frames: u64,
}

fn peer_script(rng: &mut Rng, pool: &[String], a: &Addr, mode: Mode, out: &mut CaseOut) -> PeerScript {
    let n_frames = rng.range(8, 40);
    let mut steps = Vec::new();
    let mut seq = 0u64;
    let mut valid = |rng: &mut Rng, kind: Kind, node: String, lane: String, class: Option<&'static str>| -> EStep {
        let unique = matches!(kind, Kind::Command | Kind::Event | Kind::Unlinked);
        let body = if unique {
            seq += 1;
            tagged_body(rng, (PEER_SRC as u64) << 32 | seq).into_bytes()
        } else {
            vec![]
        };
        let frame = Frame { kind, node, lane, body };
        EStep::Valid { text: spell(&frame, rng.below(6)), frame, unique, class }
    };
    let lane_for_request = |rng: &mut Rng| if rng.chance(3, 4) { rng.pick(&a.dl).1.clone() } else { random_name(rng, pool) };
    // With a corrupt channel frame to come every hosted agent is instantiated early, so that the
    // channels around the corrupt one exist and are busy.
    if mode == Mode::CorruptChannelFrame {
        for n in &a.hosted {
            let lane = lane_for_request(rng);
            steps.push(valid(rng, Kind::Command, n.clone(), lane, None));
        }
    }
    // Where the connection goes away.
    let end_at = match mode {
        Mode::PeerClose | Mode::TransportEof => Some(rng.range(3, n_frames - 1)),
        _ => None,
    };
    let no_addressee_share = if mode == Mode::UnknownAddressee { 5 } else { 2 }; // of 10
    for i in 0..n_frames {
        if Some(i) == end_at {
            if mode == Mode::TransportEof {
                steps.push(EStep::DropTransport);
                break;
            }
            let payload = match rng.below(3) {
                0 => {
                    out.count("peer-close/empty-payload");
                    vec![]
                }
                1 => {
                    out.count("peer-close/code-only");
                    1000u16.to_be_bytes().to_vec()
                }
                _ => {
                    out.count("peer-close/code-and-reason");
                    let mut p = 1001u16.to_be_bytes().to_vec();
                    p.extend_from_slice("going away – bye".as_bytes());
                    p
                }
            };
            steps.push(EStep::Close(payload));
            // Half of the closing peers keep writing (what becomes of that is not judged).
            if rng.bool() {
                break;
            }
            out.count("peer-close/frames-written-after-the-close");
        }
        match rng.below(12) {
            0 => steps.push(EStep::Yield(rng.range(1, 30) as u32)),
            1 => steps.push(EStep::Sleep(rng.range(1, 5))),
            _ => {}
        }
        if rng.chance(1, 20) {
            steps.push(EStep::Ping);
            continue;
        }
        let response_kind = |rng: &mut Rng| *rng.pick(&[Kind::Linked, Kind::Synced, Kind::Unlinked, Kind::Event, Kind::Event, Kind::Event]);
        let request_kind = |rng: &mut Rng| *rng.pick(&[Kind::Link, Kind::Sync, Kind::Unlink, Kind::Command, Kind::Command, Kind::Command]);
        if rng.below(10) < no_addressee_share {
            let (node, lane, class) = a.without_addressee(rng, pool);
            let kind = response_kind(rng);
            steps.push(valid(rng, kind, node, lane, Some(class)));
        } else if rng.bool() {
            // A request: to a hosted agent, to a node nobody knows, to the 'stopping' node.
            let (node, class) = match rng.below(8) {
                0 | 1 => (rng.pick(&a.unknown_nodes).clone(), Some("request/unknown-node")),
                2 if !a.stopping.is_empty() => (rng.pick(&a.stopping).clone(), Some("request/stopping-node")),
                3 => (rng.pick(&a.dl_nodes).clone(), None),
                _ if !a.hosted.is_empty() => (rng.pick(&a.hosted).clone(), None),
                _ => (rng.pick(&a.unknown_nodes).clone(), Some("request/unknown-node")),
            };
            let kind = request_kind(rng);
            let lane = lane_for_request(rng);
            steps.push(valid(rng, kind, node, lane, class));
        } else {
            let (node, lane) = rng.pick(&a.dl).clone();
            let kind = response_kind(rng);
            steps.push(valid(rng, kind, node, lane, None));
        }
    }
    PeerScript { steps, n_frames: n_frames + a.hosted.len() as u64 }
}

// ------------------------------------------------------------------------------------------------
// The case

/// Clients that give up on an attachment before the task confirms it: a one-way sender and a
/// downlink (on an address of its own) whose `done` receivers are gone when the task answers.
async fn impatient_attachers(log: Log, attach_tx: mpsc::Sender<AttachClient>, delay_ms: u64) {
    tokio::time::sleep(Duration::from_millis(delay_ms)).await;
    let (tx, rx) = byte_channel(nz(64));
    let (done_tx, done_rx) = oneshot::channel();
    drop(done_rx);
    if attach_tx.send(AttachClient::OneWay { agent_id: Uuid::from_u128(0x1a9a_0001), path: None, receiver: rx, done: done_tx }).await.is_ok() {
        log.lock().unwrap().bump("impatient/one-way-attachment-abandoned");
    }
    let (to_dl_tx, to_dl_rx) = byte_channel(nz(64));
    let (from_dl_tx, from_dl_rx) = byte_channel(nz(64));
    let (done_tx, done_rx) = oneshot::channel();
    drop(done_rx);
    let req = AttachClient::AttachDownlink {
        downlink_id: Uuid::from_u128(0x1a9a_0002),
        path: RelativeAddress::text("harness impatient node", "harness impatient lane"),
        sender: to_dl_tx,
        receiver: from_dl_rx,
        done: done_tx,
    };
    if attach_tx.send(req).await.is_ok() {
        log.lock().unwrap().bump("impatient/downlink-attachment-abandoned");
    }
    KEEP.with(|k| k.borrow_mut().push(Box::new((tx, to_dl_rx, from_dl_tx))));
}

fn viol(out: &mut CaseOut, sig: String, what: &str, detail: Json) {
    out.violation(P, format!("socket-edge/{sig}"), what, detail);
}

/// What the driver saw besides the log.
#[derive(Default)]
struct Seen {
    settled: Option<Settled>,
    /// The task had ended on its own when the case had settled.
    ended: bool,
    responsive: Option<bool>,
    panicked: bool,
    joined: bool,
    /// Close-timeout mode: virtual milliseconds between the stop and the end of the task.
    stop_to_end_ms: Option<u64>,
    readers_left: [u64; 2],
    close_written: bool,
    transport_dropped: bool,
    write_errors: u64,
    stalled_polls: u64,
}

pub fn edge_case(rng: &mut Rng, pool: &[String], out: &mut CaseOut) {
    let mut world = gen_world(rng, pool, true);
    let mode = match rng.below(12) {
        0 | 1 => Mode::UnknownAddressee,
        2 | 3 => Mode::ClientOnly,
        4 | 5 => Mode::CorruptChannelFrame,
        6 | 7 => Mode::PeerClose,
        8 => Mode::TransportEof,
        9 | 10 => Mode::WriteFails,
        _ => Mode::CloseTimeout,
    };
    out.count(&format!("mode/{}", mode.name()));

    // Names.
    let mut taken: HashSet<String> = HashSet::new();
    {
        let s0 = &world.sides[0];
        taken.extend(s0.nodes.iter().map(|n| n.name.clone()));
        taken.extend(s0.downlinks.iter().map(|d| d.node.clone()));
        // ... and every node name a script writes to.
        let scripts = s0.nodes.iter().flat_map(|n| n.instances.iter().map(|i| &i.script)).chain(s0.downlinks.iter().map(|d| &d.script)).chain(s0.commanders.iter().map(|c| &c.script));
        for sc in scripts {
            taken.extend(sc.iter().filter_map(|st| if let Step::Send(f, _) = st { Some(f.node.clone()) } else { None }));
        }
    }
    let mut unknown_nodes: Vec<String> = (0..rng.range(1, 2)).map(|_| fresh_name(rng, pool, &mut taken)).collect();
    let stopping: Vec<String> = if mode != Mode::ClientOnly && rng.chance(1, 3) { vec![fresh_name(rng, pool, &mut taken)] } else { vec![] };
    {
        let s0 = &mut world.sides[0];
        if mode == Mode::ClientOnly {
            // No agents and nobody to ask for one; the names stay in use as request targets.
            unknown_nodes.extend(s0.nodes.drain(..).map(|n| n.name));
            s0.has_find = false;
        }
        s0.fail_api = true;
        s0.stopping_nodes = stopping.clone();
    }
    // The channel that ends with a corrupt frame.
    let mut corrupt_what: Option<String> = None;
    let mut corrupt_marker: Option<String> = None;
    if mode == Mode::CorruptChannelFrame {
        let s0 = &mut world.sides[0];
        let kind = *rng.pick(&[Corrupt::ForeignTag, Corrupt::BodyOnBodylessKind, Corrupt::InvalidUtf8Name]);
        let marker = format!("CORRUPT{}x", rng.below(1_000_000));
        let keep = rng.range(0, 6) as usize;
        let truncate = |script: &mut Vec<Step>| {
            let mut sends = 0;
            let cut = script.iter().position(|s| {
                if matches!(s, Step::Send(..)) {
                    sends += 1;
                }
                sends > keep
            });
            if let Some(c) = cut {
                script.truncate(c);
            }
        };
        if rng.bool() {
            let ni = rng.usize_below(s0.nodes.len());
            let inst = &mut s0.nodes[ni].instances[0];
            truncate(&mut inst.script);
            inst.end_mid_frame = false;
            inst.corrupt_end = Some((kind, marker.clone()));
            corrupt_what = Some(format!("agent-channel/{}", kind.name()));
        } else {
            let di = rng.usize_below(s0.downlinks.len());
            let d = &mut s0.downlinks[di];
            truncate(&mut d.script);
            d.corrupt_end = Some((kind, marker.clone()));
            corrupt_what = Some(format!("downlink-channel/{}", kind.name()));
        }
        corrupt_marker = Some(marker);
    }
    let s0 = world.sides[0].clone();
    let addr = {
        let dl: Vec<(String, String)> = s0.downlinks.iter().map(|d| (d.node.clone(), d.lane.clone())).collect();
        let mut dl_nodes: Vec<String> = Vec::new();
        for (n, _) in &dl {
            if !dl_nodes.contains(n) {
                dl_nodes.push(n.clone());
            }
        }
        Addr { dl, dl_nodes, hosted: s0.nodes.iter().map(|n| n.name.clone()).collect(), unknown_nodes, stopping: stopping.clone() }
    };
    let script = peer_script(rng, pool, &addr, mode, out);
    let write_budget: i64 = if mode == Mode::WriteFails { rng.range(0, 3000) as i64 } else { -1 };
    let impatient: Option<u64> = if matches!(mode, Mode::UnknownAddressee | Mode::ClientOnly | Mode::CorruptChannelFrame) && rng.chance(1, 3) { Some(rng.range(0, 10)) } else { None };

    let log: Log = Arc::new(Mutex::new(LogInner::default()));
    let rt = runtime();
    let n_frames = script.n_frames;
    let steps = script.steps;
    let result: Result<Seen, String> = rt.block_on(async {
        let mut seen = Seen::default();
        let (a, b) = duplex(world.duplex_buf);
        let ctl = Arc::new(FlakyCtl::new(write_budget));
        let ws0: Ws<Flaky> = WebSocket::from_upgraded(WebSocketConfig::default(), Flaky { inner: a, ctl: ctl.clone() }, Some(NoExt), BytesMut::new(), Role::Server);
        let (scripts_tx, scripts_rx) = mpsc::unbounded_channel();
        let (sends, eps) = world.size();
        let mut h0 = start_side(&log, 0, &s0, ws0, rng, &scripts_tx, spin_budget(sends + n_frames, eps + 1));
        if let Some(delay) = impatient {
            let _ = scripts_tx.send(tokio::spawn(impatient_attachers(log.clone(), h0.attach.clone(), delay)));
        }
        let (peer_rx, mut peer_tx) = tokio::io::split(b);
        let reader = tokio::spawn(peer_reader(log.clone(), peer_rx));
        let log_w = log.clone();
        let mut wrng = rng.fork();
        let writer = tokio::spawn(async move {
            let mut after_close = false;
            for step in steps {
                let mask = (wrng.next_u64() as u32).to_be_bytes();
                let r = match step {
                    EStep::Yield(n) => {
                        yields(n).await;
                        Ok(())
                    }
                    EStep::Sleep(ms) => {
                        tokio::time::sleep(Duration::from_millis(ms)).await;
                        Ok(())
                    }
                    EStep::Ping => rawpeer::write_frame(&mut peer_tx, rawpeer::OP_PING, true, b"p", mask).await,
                    EStep::Valid { text, frame, unique, class } => {
                        let r = write_valid(&mut peer_tx, &mut wrng, &log_w, &text, &frame, unique, after_close, mask).await;
                        if let (Ok(()), Some(c), false) = (&r, class, after_close) {
                            log_w.lock().unwrap().bump(c);
                        }
                        r
                    }
                    EStep::Close(payload) => {
                        let r = rawpeer::write_frame(&mut peer_tx, rawpeer::OP_CLOSE, true, &payload, mask).await;
                        if r.is_ok() {
                            log_w.lock().unwrap().bump("peer-close/close-frame-written");
                        }
                        after_close = true;
                        r
                    }
                    EStep::DropTransport => {
                        log_w.lock().unwrap().bump("transport-eof/transport-dropped");
                        reader.abort();
                        drop(peer_tx);
                        return;
                    }
                };
                if r.is_err() {
                    break;
                }
            }
            // Keep the write half open: dropping it would look like a transport failure.
            KEEP.with(|k| k.borrow_mut().push(Box::new(peer_tx)));
        });
        let settled = settle(&log, scripts_rx, vec![writer]).await?;
        seen.settled = Some(settled);
        {
            let l = log.lock().unwrap();
            seen.close_written = l.counts.contains_key("peer-close/close-frame-written");
            seen.transport_dropped = l.counts.contains_key("transport-eof/transport-dropped");
        }
        seen.write_errors = ctl.write_errors.load(Ordering::SeqCst);
        let aborted = log.lock().unwrap().abort.is_some();
        seen.ended = h0.task.is_finished();
        let connection_gone = seen.close_written || seen.transport_dropped || seen.write_errors > 0;
        if !aborted && !connection_gone && settled == Settled::Quiet {
            seen.responsive = Some(responsive(&h0, 0).await);
        }
        if mode == Mode::CloseTimeout && !aborted && settled == Settled::Quiet && seen.responsive == Some(true) && !seen.ended {
            // From here on the transport accepts nothing: the close frame cannot be written.
            ctl.state.store(STALL, Ordering::SeqCst);
            let t0 = tokio::time::Instant::now();
            h0.stop.trigger();
            match tokio::time::timeout(Duration::from_secs(60), &mut h0.task).await {
                Ok(r) => {
                    seen.joined = true;
                    seen.panicked = matches!(r, Err(e) if e.is_panic());
                    seen.stop_to_end_ms = Some(t0.elapsed().as_millis() as u64);
                }
                Err(_) => seen.stop_to_end_ms = Some(60_000),
            }
        } else {
            h0.stop.trigger();
            match tokio::time::timeout(Duration::from_secs(60), &mut h0.task).await {
                Ok(r) => {
                    seen.joined = true;
                    seen.panicked = matches!(r, Err(e) if e.is_panic());
                }
                Err(_) => out.count("task-did-not-stop-within-60s-virtual"),
            }
        }
        seen.stalled_polls = ctl.stalled_polls.load(Ordering::SeqCst);
        if seen.joined {
            // Everything the task owned is gone: every harness reader sees the end of its channel
            // (their pacing stalls are at most 20 ms).
            tokio::time::sleep(Duration::from_millis(100)).await;
            seen.readers_left = log.lock().unwrap().readers_live;
        }
        Ok(seen)
    });
    drop(rt);
    KEEP.with(|k| k.borrow_mut().clear());
    let l = log.lock().unwrap();
    let seen = match result {
        Err(why) => {
            out.inconclusive(why);
            return;
        }
        Ok(seen) => seen,
    };
    for (k, n) in &l.counts {
        out.add(k, *n);
    }
    let cut_short = report_abort(&l, "socket-edge", out);
    let settled = seen.settled.unwrap_or(Settled::Quiet);
    let connection_gone = seen.close_written || seen.transport_dropped || seen.write_errors > 0;
    let gone_how = if seen.close_written {
        "peer-close"
    } else if seen.transport_dropped {
        "transport-eof"
    } else {
        "write-failure"
    };
    let context = json!({"mode": mode.name(), "duplex_buffer": world.duplex_buf, "registration_buffer": s0.reg_buf, "sent": l.sent.len(), "arrived": l.arrivals.len(),
                         "findnode_requests": l.finds.len(), "peer_close_seen_by_peer": l.peer_closed, "write_budget": write_budget});

    if seen.panicked {
        viol(out, format!("task-panicked/{}", mode.name()), "RemoteTask panicked although every frame it was given on the socket was a valid envelope", context.clone());
    }
    let mut frozen = false;
    if !cut_short {
        if connection_gone {
            // Termination: the case only settles after 6.1 virtual seconds without any movement,
            // which is longer than the task's close time-out.
            if !seen.ended {
                viol(
                    out,
                    format!("task-still-running/after-{gone_how}"),
                    "the connection is gone (peer Close, transport EOF or failing writes) but the task has not ended although nothing has moved for longer than its close time-out",
                    context.clone(),
                );
                frozen = true;
            } else if settled == Settled::Frozen {
                viol(
                    out,
                    format!("source-blocked-for-ever/after-{gone_how}"),
                    "the task has ended but an attached source is still blocked writing or attaching",
                    context.clone(),
                );
                frozen = true;
            }
        } else {
            if settled == Settled::Frozen || seen.responsive == Some(false) {
                frozen = true;
                viol(
                    out,
                    format!("wedged/{}", mode.name()),
                    "the task is idle for ever (nothing runnable, no timer pending, every reader ready to read) while sources or the peer are still blocked writing or attaching, or a new attachment is never confirmed",
                    context.clone(),
                );
            }
            if seen.ended {
                viol(
                    out,
                    format!("task-ended-by-itself/{}", mode.name()),
                    "the RemoteTask ended although every frame it received was a valid envelope, the peer did not close and the transport was healthy",
                    context.clone(),
                );
            }
        }
        if let Some(ms) = seen.stop_to_end_ms {
            out.count("close-timeout/stopped-on-a-transport-that-accepts-nothing");
            if ms >= 5_000 {
                out.count("close-timeout/closing-hand-shake-timed-out");
            }
            if ms > 6_000 {
                viol(
                    out,
                    "task-outlives-close-timeout".to_string(),
                    "stopped while its transport accepts no bytes, the task did not end within its close time-out (5 s) + 1 s of virtual time",
                    json!({"virtual_ms_from_stop_to_end": ms, "context": context.clone()}),
                );
            }
        }
        if seen.joined && seen.readers_left != [0, 0] {
            let which = if seen.readers_left[0] > 0 { "agent" } else { "downlink" };
            viol(
                out,
                format!("endpoint-channel-open-after-task-ended/{which}"),
                "the task has ended but an attached agent or downlink still waits on its byte channel (neither a frame nor the end of the channel)",
                json!({"agent_readers_waiting": seen.readers_left[0], "downlink_readers_waiting": seen.readers_left[1], "context": context.clone()}),
            );
        }
    }

    // Delivery rules. After a peer Close what the peer wrote before it is still owed (the task reads
    // its input in order); after a transport failure the task may stop reading at once.
    let transport_failed = seen.transport_dropped || seen.write_errors > 0;
    let opts = EvalOpts {
        pfx: "socket-edge",
        raw: true,
        task_stopped_early: connection_gone || seen.ended,
        frozen: frozen || cut_short,
        markers: &[],
        nothing_owed: transport_failed,
        gap_rule: true,
        optional_reply_nodes: &stopping,
    };
    evaluate_with(&world, &l, &opts, out);

    // Evidence per mode.
    let peer_arrivals = l.arrivals.iter().filter(|a| a.ep == Ep::Peer).count();
    let inner_arrivals = l.arrivals.len() - peer_arrivals;
    let nnf_at_peer = l.arrivals.iter().filter(|a| a.ep == Ep::Peer && a.frame.kind == Kind::Unlinked && a.frame.body == NODE_NOT_FOUND).count() as u64;
    out.add("node-not-found-replies-at-the-peer", nnf_at_peer);
    let no_addressee_written: u64 = l.counts.iter().filter(|(k, _)| k.starts_with("unknown-addressee/")).map(|(_, n)| *n).sum();
    // A frame without addressee that was followed by a delivered peer frame was handled and survived.
    let last_delivered_peer_ticket = {
        let delivered: HashSet<&[u8]> = l.arrivals.iter().filter(|a| a.ep != Ep::Peer).map(|a| a.frame.body.as_slice()).collect();
        l.sent.iter().filter(|s| s.source == PEER_SRC && s.unique && delivered.contains(s.frame.body.as_slice())).map(|s| s.ticket).max()
    };
    let survived_no_addressee = l.sent.iter().any(|s| {
        s.source == PEER_SRC && !s.failed && !s.frame.kind.is_request() && !addr.subscribed(&s.frame.node, &s.frame.lane) && last_delivered_peer_ticket.map_or(false, |t| t > s.ticket)
    });
    if survived_no_addressee {
        out.count("unknown-addressee/followed-by-a-delivered-frame");
    }
    if mode == Mode::ClientOnly {
        for s in l.sent.iter().filter(|s| s.source == PEER_SRC && !s.failed && s.frame.kind.is_request()) {
            out.count(&format!("client-only/request-without-resolver/{}", s.frame.kind.name()));
        }
    }
    if !stopping.is_empty() {
        let replies = l.arrivals.iter().filter(|a| a.ep == Ep::Peer && a.frame.kind == Kind::Unlinked && a.frame.body == NODE_NOT_FOUND && stopping.contains(&a.frame.node)).count() as u64;
        out.add("plane-stopping/replies-seen-at-the-peer", replies);
    }
    let mut busy_after_corrupt = 0usize;
    if let Some((t, src)) = l.corrupt_written.first() {
        let arrived_bodies: HashSet<&[u8]> = l.arrivals.iter().filter(|a| a.ep == Ep::Peer).map(|a| a.frame.body.as_slice()).collect();
        let later: HashSet<u32> = l.sent.iter().filter(|s| s.side == 0 && s.source != *src && s.unique && s.ticket > *t && arrived_bodies.contains(s.frame.body.as_slice())).map(|s| s.source).collect();
        busy_after_corrupt = later.len();
        out.count(&format!("corrupt-frame/other-sources-delivering-afterwards/{}", match busy_after_corrupt {
            0 => "0",
            1 => "1",
            _ => "2-or-more",
        }));
        if let Some(w) = &corrupt_what {
            out.count(&format!("corrupt-frame/{w}"));
        }
        if let Some(m) = &corrupt_marker {
            // Not judged: the statement does not say what becomes of such a frame.
            if l.arrivals.iter().any(|a| a.ep == Ep::Peer && (String::from_utf8_lossy(&a.frame.body).contains(m.as_str()) || a.frame.node.contains(m.as_str()))) {
                out.count("corrupt-frame/something-of-it-reached-the-peer");
            }
        }
    }
    if connection_gone {
        out.count(&format!("connection-gone/{gone_how}/task-{}", if seen.ended { "ended" } else { "still-running" }));
    }
    if seen.write_errors > 0 {
        out.add("write-fails/failed-write-calls", seen.write_errors);
    }
    if seen.stalled_polls > 0 {
        out.add("close-timeout/write-polls-refused", seen.stalled_polls);
    }
    let both_ways = peer_arrivals > 0 && inner_arrivals > 0;
    out.nontrivial = match mode {
        Mode::UnknownAddressee => no_addressee_written > 0 && survived_no_addressee && both_ways,
        Mode::ClientOnly => nnf_at_peer > 0 && inner_arrivals > 0,
        Mode::CorruptChannelFrame => !l.corrupt_written.is_empty() && busy_after_corrupt >= 2,
        Mode::PeerClose => seen.close_written && seen.ended && inner_arrivals > 0,
        Mode::TransportEof => seen.transport_dropped && seen.ended && l.arrivals.len() > 0,
        Mode::WriteFails => seen.write_errors > 0 && seen.ended,
        Mode::CloseTimeout => seen.stop_to_end_ms.map_or(false, |ms| ms >= 5_000),
    };
    if !out.violations.is_empty() {
        out.log(|| describe_stuck(&world, &l));
    }
    out.set_sample(json!({
        "mode": mode.name(),
        "agents": s0.nodes.iter().map(|n| n.name.chars().take(30).collect::<String>()).collect::<Vec<_>>(),
        "downlinks": s0.downlinks.len(), "peer_frames": n_frames, "corrupt": corrupt_what,
        "sent": l.sent.len(), "arrived": l.arrivals.len(), "close": l.peer_closed, "task_ended_by_itself": seen.ended,
    }));
}
