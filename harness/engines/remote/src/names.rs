//! Generated inputs shared by the parts: node/lane names, Recon bodies and their classes (the
//! classes only ever appear in violation signatures and coverage counters, never in a verdict).

use common::Rng;

/// Node / lane strings: every class the property quantifies over, plus the syntax characters of
/// the envelope header itself.
pub fn name_pool() -> Vec<String> {
    let mut p: Vec<String> = [
        // empty, keywords, plain identifiers
        "", "true", "false", "True", "trueish", "lane", "node", "a", "_", "_a-b", "a-b-c", "name2", "first_second", "rate", "prio",
        // URIs, spaces
        "/node", "/a/b/c", "/", "//", "a/b", "/unit/1", "two words", " lead", "trail ", " ", "/a b",
        // quotes and backslashes (including things that look like escapes)
        "\"", "a\"b", "\"quoted\"", "\\", "a\\b", "\\\\", "\\n", "\\u0041", "\\\"", "a\\", "\\u", "\\q",
        // control characters
        "\n", "a\nb", "\r\n", "\t", "a\tb", "\u{0}", "\u{1}", "\u{8}", "\u{c}", "\u{1f}", "\u{7f}", "\u{80}", "\u{85}", "\u{2028}",
        // non-ASCII and non-BMP
        "é", "اسم", "ℵ", "\u{b7}", "\u{d7}", "a\u{d7}", "\u{37e}", "\u{10000}", "😀", "a😀b", "/😀", "\u{fffd}", "\u{ffff}", "\u{e000}", "\u{10ffff}",
        // percent encodings
        "%20", "/a%2Fb", "%", "%zz", "a%62", "100%", "%AAAA",
        // number-like
        "0", "2name", "-a", "-", "1.5", "-1", "0x10", "1e5",
        // header syntax
        "@", "@event", "@a(b)", "a:b", "a,b", "a)b", "(a", "a(b)", "{a}", "a;b", "a=b", "node:x,lane:y", "#", "a#b", "lane:", "a}", ")", ",", ":",
    ]
    .iter()
    .map(|s| s.to_string())
    .collect();
    p.push("x".repeat(300));
    p.push(format!("/{}", "é😀\"\\\n".repeat(40)));
    p
}

/// Recon bodies (without leading white space; see `body_pool_leading_space`).
pub fn body_pool() -> Vec<String> {
    let mut b: Vec<String> = [
        "", "@a", "@a{b:1}", "@update(key:\"k\") 5", "@nodeNotFound", "@laneNotFound", "@a @b", "@\"quoted attr\"(1)", "@event(node:x,lane:y) 3",
        "5", "-1.5e3", "text", "true", "false", "\"quoted text\"", "\"a\\\"b\"", "\"\\n\"", "{a:1,b:2}", "{}", "a:1", "1,2,3", "%AAAA",
        "é😀", "a b c", "{\n a: 1\n}", "5 ", "5\n", "\"\"",
    ]
    .iter()
    .map(|s| s.to_string())
    .collect();
    b.push(format!("\"{}\"", "y".repeat(5000)));
    b
}

/// Bodies with insignificant leading white space (the reader trims it; compared modulo that).
pub fn body_pool_leading_space() -> Vec<String> {
    [" 5", "\t5", "  @a", " \"s\""].iter().map(|s| s.to_string()).collect()
}

/// Class of a name for signatures: the first applicable of an ordered list, so one string has one class.
pub fn name_class(s: &str) -> &'static str {
    if s.is_empty() {
        "empty"
    } else if s == "true" {
        "keyword-true"
    } else if s == "false" {
        "keyword-false"
    } else if s.contains('"') {
        "quote"
    } else if s.contains('\\') {
        "backslash"
    } else if s.chars().any(|c| (c as u32) < 0x20) {
        "control"
    } else if s.chars().any(|c| (0x7f..0xa0).contains(&(c as u32))) {
        "c1-control"
    } else if s.chars().any(|c| (c as u32) > 0xffff) {
        "non-bmp"
    } else if s.contains('%') {
        "percent"
    } else if swimos_model::identifier::is_identifier(s) {
        if !s.is_ascii() {
            "identifier-non-ascii"
        } else if s.contains('-') {
            "identifier-dash"
        } else {
            "identifier"
        }
    } else if s.contains(' ') {
        "space"
    } else if s.contains('/') {
        "slash"
    } else if s.starts_with(|c: char| c.is_ascii_digit() || c == '-') {
        "number-like"
    } else if !s.is_ascii() {
        "non-ascii"
    } else {
        "punctuation"
    }
}

pub fn body_class(b: &str) -> &'static str {
    if b.is_empty() {
        "empty-body"
    } else if b.starts_with('@') {
        "attr-first-body"
    } else if b.starts_with([' ', '\t']) {
        "leading-space-body"
    } else {
        "plain-body"
    }
}

const ALPHABET: &[&str] = &[
    "a", "b", "z", "A", "_", "-", "0", "9", "/", " ", "\"", "\\", "\n", "\r", "\t", "\u{0}", "\u{1b}", "\u{7f}", "é", "ℵ", "😀", "\u{10000}", "%", "%2F",
    "@", "(", ")", "{", "}", ":", ",", ";", "=", "#", ".", "true", "false", "node", "lane", "\\u0041", "\\n", "\u{d7}", "\u{b7}",
];

/// A random name: concatenation of 0-8 atoms of the alphabet above, or a member of the pool.
pub fn random_name(rng: &mut Rng, pool: &[String]) -> String {
    match rng.below(8) {
        0 | 1 => pool[rng.usize_below(pool.len())].clone(),
        2 => {
            // identifier-shaped
            let len = rng.range(1, 10);
            let mut s = String::new();
            s.push_str(*rng.pick::<&str>(&["a", "_", "Z", "é", "ℵ", "\u{10000}"]));
            for _ in 1..len {
                s.push_str(*rng.pick::<&str>(&["a", "b", "_", "-", "0", "7", "é", "😀", "\u{b7}"]));
            }
            s
        }
        3 => {
            // URI-shaped
            let segs = rng.range(1, 4);
            let mut s = String::new();
            for _ in 0..segs {
                s.push('/');
                let len = rng.range(0, 5);
                for _ in 0..len {
                    s.push_str(*rng.pick::<&str>(&["a", "b", "1", "-", "_", "%20", "%2F", ":", "é", " ", "~", "."]));
                }
            }
            s
        }
        _ => {
            let len = rng.range(0, 8);
            (0..len).map(|_| *rng.pick(ALPHABET)).collect()
        }
    }
}

/// A random Recon body carrying `tag` (unique per message) in one of several shapes. Padding makes
/// some bodies larger than the byte channels and the socket buffer.
pub fn tagged_body(rng: &mut Rng, tag: u64) -> String {
    let pad = match rng.below(10) {
        0 => rng.range(100, 3000) as usize,
        1 | 2 => rng.range(1, 40) as usize,
        _ => 0,
    };
    let padding = "p".repeat(pad);
    match rng.below(7) {
        0 => format!("{tag}"),
        1 => format!("@t({tag})"),
        2 => format!("@t({tag}) {{x:1,p:\"{padding}\"}}"),
        3 => format!("\"s{tag} {padding}\""),
        4 => format!("t{tag}"),
        5 => format!("{{id:{tag},pad:\"{padding}\",q:\"a\\\"b\\\\\"}}"),
        _ => format!("@update(key:\"é😀 {tag}\") {{\n v: {tag}\n}}"),
    }
}
