//! Engine `route` (C18): routing is deterministic – patterns invert, ambiguity is detected.
//!
//! Everything is decided on the real `RoutePattern` / `RouteUri` (and, for the server corollary, the
//! real `ServerBuilder::build`, whose first step is `PlaneBuilder::build`). The generator keeps its
//! own structural description of every pattern (`Pat`); that description is used to *produce*
//! inputs and to *name* a violation (signature class), never to decide one.
//!
//! Parts:
//!  * `apply-unapply` – generated patterns × hostile parameter maps: `apply` Ok ⇒ `unapply_str` of
//!                      the result returns exactly the bindings that were filled in.
//!  * `determinism`   – a pattern against matching / near-miss / garbage URIs: `unapply_str` twice,
//!                      through `RouteUri` (both constructors) and through a re-parsed pattern give
//!                      the same bindings; no binding is empty.
//!  * `ambiguity`     – pattern pairs with URIs synthesised from each: a URI matched by both ⇒
//!                      `are_ambiguous` in both argument orders.
//!  * `malformed`     – malformed pattern strings: `Err`, never a panic.
//!  * `route-table`   – pattern sets accepted by the server's pairwise rule (cross-checked against
//!                      `ServerBuilder::build`): every synthesised URI matches at most one route.
//!
//! `generator.rs` holds the pattern / URI generators, `classify.rs` the signature classes.

mod classify;
mod generator;

use std::collections::HashMap;
use std::panic::{catch_unwind, AssertUnwindSafe};

use common::{json, CaseOut, Json, Rng, Session};
use swimos_utilities::routing::{RoutePattern, RouteUri};

use classify::{pair_class, roundtrip_class};
use generator::{
    build_uri, gen_pat, gen_value, lossy, mutate_pat, mutate_uri, pct_decode, Gen, Pat, Seg,
};

const P: &str = "C18";

type Bindings = HashMap<String, String>;

fn sorted(m: &Bindings) -> Vec<(String, String)> {
    let mut v: Vec<(String, String)> = m.iter().map(|(k, v)| (k.clone(), v.clone())).collect();
    v.sort();
    v
}

fn show_map(m: &Bindings) -> Json {
    Json::Object(sorted(m).into_iter().map(|(k, v)| (k, Json::String(v))).collect())
}

/// Parse a generated (well-formed) pattern with the real parser and check that the parser saw the
/// structure the generator meant (scheme, absolute flag, parameter names). A mismatch means the
/// generator and the parser disagree about what was generated: the case cannot be judged, so it is
/// reported as inconclusive (with a counter) rather than as a verdict either way.
fn parse_generated(pat: &Pat, text: &str, out: &mut CaseOut) -> Option<RoutePattern> {
    let rp = match RoutePattern::parse_str(text) {
        Ok(rp) => rp,
        Err(e) => {
            out.count("generator-pattern-rejected");
            out.inconclusive(format!("well-formed generated pattern rejected by parse_str: {e}"));
            out.log(|| format!("rejected generated pattern {text:?}"));
            return None;
        }
    };
    let names: Vec<String> = rp.parameters().map(|s| s.to_string()).collect();
    if rp.scheme_str() != pat.scheme.as_deref() || rp.has_absolute_path() != pat.absolute || names != pat.param_names() {
        out.count("generator-structure-mismatch");
        out.inconclusive("parser saw a different structure from the one generated");
        out.log(|| format!("structure mismatch for {text:?}: {pat:?}"));
        return None;
    }
    Some(rp)
}

// ------------------------------------------------------------------------------------------------
// Part 1: apply ∘ unapply

fn part_apply_unapply(_case: u64, rng: &mut Rng, out: &mut CaseOut) {
    let g = Gen { hostile: rng.chance(1, 3), tiny: false, hostile_names: rng.chance(1, 6) };
    let pat = gen_pat(rng, &g);
    let text = pat.render();
    let Some(rp) = parse_generated(&pat, &text, out) else { return };
    let names = pat.param_names();

    // Parameter map: mostly complete; sometimes a parameter is missing or bound to "" (apply must
    // then refuse – if it does not, the round trip below fails by itself); sometimes extra keys.
    let mut params: Bindings = HashMap::new();
    let mut incomplete = false;
    for n in &names {
        match rng.below(24) {
            0 => incomplete = true,
            1 => {
                incomplete = true;
                params.insert(n.clone(), String::new());
            }
            _ => {
                params.insert(n.clone(), gen_value(rng));
            }
        }
    }
    if rng.chance(1, 6) {
        params.insert("zz-not-in-pattern".to_string(), gen_value(rng));
    }
    out.sig(&text);
    out.sig(&sorted(&params));
    out.events += 1;

    let applied = match rp.apply(&params) {
        Ok(uri) => uri,
        Err(_) => {
            // The property only speaks about successful applications.
            out.count(if incomplete { "apply-refused-missing-or-empty" } else { "apply-refused-complete-map" });
            return;
        }
    };
    // What was filled in: the bindings of the pattern's own parameters.
    let expected: Bindings = names.iter().filter_map(|n| params.get(n).map(|v| (n.clone(), v.clone()))).collect();
    out.events += 1;
    out.nontrivial = !names.is_empty();
    if expected.values().any(|v| v.chars().any(|c| !c.is_ascii_alphanumeric())) {
        out.count("hostile-value-applied");
    }
    if names.is_empty() {
        out.count("no-parameters");
    }
    out.set_sample(json!({"pattern": text, "params": show_map(&params), "applied": applied}));
    match rp.unapply_str(&applied) {
        Ok(got) if got == expected => out.count("round-trip-exact"),
        Ok(got) => {
            let class = roundtrip_class(&pat, &expected, Some(&got));
            out.violation(
                P,
                format!("apply-unapply/{class}"),
                "unapply_str(p, apply(p, m)) matched but returned bindings different from m",
                json!({"pattern": text, "params": show_map(&params), "applied": applied,
                       "expected": show_map(&expected), "got": show_map(&got)}),
            );
        }
        Err(_) => {
            let class = roundtrip_class(&pat, &expected, None);
            out.violation(
                P,
                format!("apply-unapply/{class}"),
                "apply(p, m) succeeded but its result is not matched by p",
                json!({"pattern": text, "params": show_map(&params), "applied": applied,
                       "path_seen_by_route_uri": applied.parse::<RouteUri>().ok().map(|u| u.path().to_string())}),
            );
        }
    }
}

// ------------------------------------------------------------------------------------------------
// Part 2: matching is a function of the URI

fn part_determinism(_case: u64, rng: &mut Rng, out: &mut CaseOut) {
    let g = Gen { hostile: rng.chance(1, 4), tiny: rng.bool(), hostile_names: rng.chance(1, 8) };
    let pat = gen_pat(rng, &g);
    let text = pat.render();
    let Some(rp) = parse_generated(&pat, &text, out) else { return };
    let Ok(rp_again) = RoutePattern::parse_str(&text) else { return };
    out.sig(&text);

    // Candidate URIs: built from the pattern (random encodings), applied, mutated, with an empty
    // segment where a parameter stands, and plain garbage.
    let mut uris: Vec<String> = Vec::new();
    let n = rng.range(4, 7);
    for _ in 0..n {
        let u = match rng.below(6) {
            0 | 1 => build_uri(&pat, None, rng, false).0,
            2 => {
                let m: Bindings = pat.param_names().into_iter().map(|k| (k, gen_value(rng))).collect();
                rp.apply(&m).unwrap_or_else(|_| build_uri(&pat, None, rng, false).0)
            }
            3 => {
                let u = build_uri(&pat, None, rng, false).0;
                mutate_uri(&u, rng)
            }
            4 => {
                out.count("empty-segment-probe");
                build_uri(&pat, None, rng, true).0
            }
            _ => {
                let len = rng.below(10);
                (0..len).map(|_| *rng.pick(&['/', 'a', 'b', '%', '6', '2', ':', '?', '#', ' ', 'é', '.'])).collect()
            }
        };
        uris.push(u);
    }
    for u in &uris {
        out.sig(u);
    }

    let first: Vec<Option<Bindings>> = uris.iter().map(|u| rp.unapply_str(u).ok()).collect();
    let mut matched = 0;
    let mut unmatched = 0;
    for (u, r1) in uris.iter().zip(first.iter()) {
        out.events += 4;
        // Second evaluation happens after all other URIs went through the same pattern.
        let r2 = rp.unapply_str(u).ok();
        let parsed = u.parse::<RouteUri>().ok();
        let via_uri = parsed.as_ref().and_then(|uri| rp.unapply_route_uri(uri).ok());
        let via_try_from = RouteUri::try_from(u.clone()).ok().and_then(|uri| rp.unapply_route_uri(&uri).ok());
        let via_reparsed = rp_again.unapply_str(u).ok();
        match &parsed {
            None => out.count("uri-rejected-by-route-uri-parser"),
            Some(uri) if uri.query().is_none() && uri.fragment().is_none() => {
                // Not an oracle (C18 does not speak about it): `RouteUri::from_str` does not
                // require the whole input to be consumed, so matching ignores a non-URI tail.
                let consumed = uri.scheme().map_or(0, |s| s.len() + 1) + uri.path().len();
                if consumed < u.len() {
                    out.count(if r1.is_some() { "matched-ignoring-non-uri-tail" } else { "parsed-ignoring-non-uri-tail" });
                }
            }
            Some(_) => {}
        }
        let checks: [(&str, &Option<Bindings>); 4] = [
            ("second-unapply-str", &r2),
            ("via-route-uri-from-str", &via_uri),
            ("via-route-uri-try-from-string", &via_try_from),
            ("via-reparsed-pattern", &via_reparsed),
        ];
        for (which, r) in checks {
            if r != r1 {
                out.violation(
                    P,
                    format!("determinism/{which}-differs"),
                    "the same pattern and URI gave different match results",
                    json!({"pattern": text, "uri": u, "first": r1.as_ref().map(show_map), "other": r.as_ref().map(show_map)}),
                );
            }
        }
        match r1 {
            Some(m) => {
                matched += 1;
                if let Some((k, _)) = m.iter().find(|(_, v)| v.is_empty()) {
                    out.violation(
                        P,
                        "determinism/empty-binding",
                        "a parameter was bound to an empty segment",
                        json!({"pattern": text, "uri": u, "parameter": k}),
                    );
                }
                if !m.is_empty() {
                    out.count("matched-with-bindings");
                }
            }
            None => unmatched += 1,
        }
    }
    out.add("uris-matched", matched);
    out.add("uris-not-matched", unmatched);
    out.nontrivial = matched > 0 && unmatched > 0;
    out.set_sample(json!({"pattern": text, "uris": uris, "matched": first.iter().map(|r| r.is_some()).collect::<Vec<_>>()}));
}

// ------------------------------------------------------------------------------------------------
// Part 3: overlap ⇒ are_ambiguous

/// A URI derived from `from` (with `other` steering parameter values towards overlap).
fn synth_uri(from: &Pat, rp: &RoutePattern, other: &Pat, rng: &mut Rng) -> String {
    let mut uri = match rng.below(3) {
        0 => {
            // Through the real `apply`, parameters bound to the other pattern's literal (decoded)
            // at the same position when there is one.
            let mut m: Bindings = HashMap::new();
            for (i, s) in from.segs.iter().enumerate() {
                if let Seg::Param(name) = s {
                    let v = match other.segs.get(i) {
                        Some(Seg::Lit(raw)) if rng.chance(2, 3) => lossy(&pct_decode(raw)),
                        _ => gen_value(rng),
                    };
                    m.insert(name.clone(), v);
                }
            }
            rp.apply(&m).unwrap_or_else(|_| build_uri(from, Some(other), rng, false).0)
        }
        _ => build_uri(from, Some(other), rng, false).0,
    };
    if rng.chance(1, 3) {
        uri = mutate_uri(&uri, rng);
    }
    uri
}

fn part_ambiguity(_case: u64, rng: &mut Rng, out: &mut CaseOut) {
    let g = Gen { hostile: rng.chance(1, 5), tiny: rng.chance(3, 4), hostile_names: false };
    let p = gen_pat(rng, &g);
    let derived = rng.chance(7, 10);
    let q = if derived { mutate_pat(&p, rng, &g) } else { gen_pat(rng, &g) };
    let (tp, tq) = (p.render(), q.render());
    let Some(rp) = parse_generated(&p, &tp, out) else { return };
    let Some(rq) = parse_generated(&q, &tq, out) else { return };
    out.sig(&tp);
    out.sig(&tq);
    let amb_pq = RoutePattern::are_ambiguous(&rp, &rq);
    let amb_qp = RoutePattern::are_ambiguous(&rq, &rp);
    out.events += 2;
    if amb_pq != amb_qp {
        out.count("asymmetric-verdict");
    }

    let mut common: Option<String> = None;
    let mut any_match = false;
    for k in 0..10 {
        let uri = if k % 2 == 0 { synth_uri(&p, &rp, &q, rng) } else { synth_uri(&q, &rq, &p, rng) };
        let mp = rp.unapply_str(&uri).ok();
        let mq = rq.unapply_str(&uri).ok();
        out.events += 2;
        any_match |= mp.is_some() || mq.is_some();
        if let (Some(bp), Some(bq)) = (&mp, &mq) {
            if common.is_none() {
                common = Some(uri.clone());
            }
            if !(amb_pq && amb_qp) {
                let class = pair_class(&p, &q);
                let order = match (amb_pq, amb_qp) {
                    (false, false) => "",
                    (false, true) => "/first-order-only",
                    _ => "/second-order-only",
                };
                out.violation(
                    P,
                    format!("ambiguity-missed/{class}{order}"),
                    "one URI is matched by both patterns but are_ambiguous reports no ambiguity",
                    json!({"p": tp, "q": tq, "uri": uri, "bindings_p": show_map(bp), "bindings_q": show_map(bq),
                           "are_ambiguous(p,q)": amb_pq, "are_ambiguous(q,p)": amb_qp}),
                );
                break;
            }
        }
    }
    out.nontrivial = common.is_some();
    match (&common, amb_pq) {
        (Some(_), true) => out.count("common-uri-and-reported-ambiguous"),
        (Some(_), false) => out.count("common-uri-not-reported"),
        (None, true) => out.count("reported-ambiguous-no-common-uri-found"),
        (None, false) => out.count("disjoint-and-not-reported"),
    }
    if !any_match {
        out.count("no-synthesised-uri-matched-either");
    }
    if pair_class(&p, &q) == "percent-encoded-literal-vs-decoded" {
        // Coverage of the hard branch: pairs that differ only by the encoding of a literal.
        out.count("pairs-differing-only-by-literal-encoding");
    }
    if derived {
        out.count("q-derived-from-p");
    }
    out.set_sample(json!({"p": tp, "q": tq, "ambiguous": amb_pq, "common_uri": common}));
}

// ------------------------------------------------------------------------------------------------
// Part 4: malformed patterns

/// Run something of the code under test; a panic becomes a violation with a class signature.
fn no_panic<T>(out: &mut CaseOut, what: &str, class: &str, input: &str, f: impl FnOnce() -> T) -> Option<T> {
    match catch_unwind(AssertUnwindSafe(f)) {
        Ok(t) => Some(t),
        Err(_) => {
            out.violation(P, format!("malformed/{what}-panics/{class}"), format!("{what} panicked"), json!({"input": input}));
            None
        }
    }
}

fn part_malformed(_case: u64, rng: &mut Rng, out: &mut CaseOut) {
    let g = Gen { hostile: rng.bool(), tiny: false, hostile_names: rng.chance(1, 4) };
    let base = gen_pat(rng, &g);
    // (input, class, must be rejected)
    let (input, class, must_err): (String, &str, bool) = match rng.below(12) {
        0 => (String::new(), "empty-string", true),
        1 => {
            let s = match &base.scheme {
                Some(s) if rng.bool() => format!("{s}:/"),
                _ => "/".to_string(),
            };
            (s, "slash-only", true)
        }
        2 => {
            // An empty segment somewhere (never at index 0 of a relative pattern: that would just
            // be the absolute form of the rest).
            let mut p = base.clone();
            let lo = if p.absolute { 0 } else { 1 };
            let at = rng.range(lo, p.segs.len() as u64) as usize;
            p.segs.insert(at, Seg::Lit(String::new()));
            (p.render(), "empty-segment", true)
        }
        3 => (format!("{}/", base.render()), "trailing-slash", true),
        4 => {
            let mut p = base.clone();
            let at = rng.usize_below(p.segs.len());
            p.segs[at] = Seg::Param(String::new());
            (p.render(), "empty-parameter-name", true)
        }
        5 => {
            let mut p = base.clone();
            let at = rng.usize_below(p.segs.len());
            p.segs[at] = Seg::Param((*rng.pick(&["a:b", ":a", "a:", "::"])).to_string());
            (p.render(), "colon-in-parameter-name", true)
        }
        6 => {
            let mut p = base.clone();
            let name = (*rng.pick(&["id", "x", "é", "a%62"])).to_string();
            let at = rng.range(0, p.segs.len() as u64) as usize;
            p.segs.insert(at, Seg::Param(name.clone()));
            let at2 = rng.range(0, p.segs.len() as u64) as usize;
            p.segs.insert(at2, Seg::Param(name));
            // Drop other accidental uses of the name? They only add more duplicates.
            (p.render(), "duplicate-parameter-name", true)
        }
        7 => (format!("/{}", Pat { scheme: None, absolute: true, segs: base.segs.clone() }.render()), "leading-double-slash", true),
        8 => {
            // Scheme with nothing after it: the parser's verdict is not prescribed by the property
            // (only: no panic).
            let s = base.scheme.clone().unwrap_or_else(|| "swim".to_string());
            (format!("{s}:"), "scheme-only", false)
        }
        9 => {
            let len = rng.range(1, 2000);
            let c = *rng.pick(&['a', '/', ':', '%', 'é', '😀']);
            ((0..len).map(|_| c).collect(), "long-run", false)
        }
        _ => {
            let len = rng.below(14);
            let s: String = (0..len)
                .map(|_| *rng.pick(&['/', '/', ':', ':', 'a', 'b', '%', '6', '2', 'é', ' ', '?', '#', '\0', '日', '\u{fffd}', '\n', '😀']))
                .collect();
            (s, "soup", false)
        }
    };
    // Facts that make any string malformed whatever else it contains: an empty segment.
    let must_err = must_err || input.is_empty() || input.ends_with('/') || input.contains("//");
    out.sig(&input);
    out.events += 2;
    out.nontrivial = true;
    out.count(&format!("class-{class}"));

    let Some(r_str) = no_panic(out, "parse_str", class, &input, || RoutePattern::parse_str(&input)) else { return };
    let Some(r_it) = no_panic(out, "parse", class, &input, || RoutePattern::parse(input.chars())) else { return };
    if r_str.is_ok() != r_it.is_ok() {
        out.violation(P, format!("malformed/parse-vs-parse_str/{class}"), "parse(chars) and parse_str disagree", json!({"input": input}));
    }
    match r_str {
        Err(e) => {
            out.count(if must_err { "malformed-rejected" } else { "unclassified-rejected" });
            // The error value must be usable (Display) without panicking.
            no_panic(out, "error-display", class, &input, || e.to_string());
        }
        Ok(rp) => {
            if must_err {
                out.violation(
                    P,
                    format!("malformed/accepted/{class}"),
                    "a malformed pattern string was accepted",
                    json!({"input": input, "parameters": rp.parameters().collect::<Vec<_>>()}),
                );
                return;
            }
            out.count("unclassified-accepted");
            // Accepted odd patterns must be usable without panics.
            let names: Vec<String> = rp.parameters().map(|s| s.to_string()).collect();
            let m: Bindings = names.iter().map(|n| (n.clone(), "v".to_string())).collect();
            no_panic(out, "use-accepted", class, &input, || {
                let _ = rp.to_string();
                let _ = RoutePattern::are_ambiguous(&rp, &rp);
                let _ = rp.unapply_str(&input);
                if let Ok(u) = rp.apply(&m) {
                    let _ = rp.unapply_str(&u);
                }
            });
            out.events += 3;
        }
    }
    if class != "long-run" {
        out.set_sample(json!({"input": input, "class": class, "must_err": must_err}));
    }
}

// ------------------------------------------------------------------------------------------------
// Part 5: accepted route tables resolve every URI to at most one route

#[cfg(feature = "server-check")]
mod server_check {
    //! The real acceptance rule: `ServerBuilder::build`, which starts with `PlaneBuilder::build`
    //! (pairwise `are_ambiguous`) and fails with `ServerBuilderError::BadRoutes` on ambiguity.
    use std::collections::HashMap;

    use swimos_api::agent::{Agent, AgentConfig, AgentContext, AgentInitResult};
    use swimos_server_app::{ServerBuilder, ServerBuilderError};
    use swimos_utilities::routing::{RoutePattern, RouteUri};

    struct NeverRun;

    impl Agent for NeverRun {
        fn run(
            &self,
            _route: RouteUri,
            _route_params: HashMap<String, String>,
            _config: AgentConfig,
            _context: Box<dyn AgentContext + Send>,
        ) -> std::pin::Pin<Box<dyn std::future::Future<Output = AgentInitResult> + Send + 'static>> {
            Box::pin(std::future::pending())
        }
    }

    thread_local! {
        static RT: tokio::runtime::Runtime = tokio::runtime::Builder::new_current_thread()
            .enable_all()
            .build()
            .expect("tokio runtime");
    }

    /// What the real builder said about a route table.
    pub enum Verdict {
        /// Accepted (or failed later for a reason that is not the route table).
        Accepted,
        Overlapping(Vec<RoutePattern>),
        MetaCollision { meta: Vec<RoutePattern>, routes: Vec<RoutePattern> },
    }

    pub fn server_verdict(patterns: &[RoutePattern], introspection: bool) -> Verdict {
        let mut b = ServerBuilder::with_plane_name("route-engine");
        for p in patterns {
            b = b.add_route(p.clone(), NeverRun);
        }
        if introspection {
            b = b.enable_introspection();
        }
        match RT.with(|rt| rt.block_on(b.build())) {
            Err(ServerBuilderError::BadRoutes(swimos_server_app::AmbiguousRoutes::Overlapping { routes })) => Verdict::Overlapping(routes),
            Err(ServerBuilderError::BadRoutes(swimos_server_app::AmbiguousRoutes::MetaCollision { meta_routes, routes })) => Verdict::MetaCollision { meta: meta_routes, routes },
            _ => Verdict::Accepted,
        }
    }

    /// `true`: the server accepted the routes (or failed later, for a reason that is not the route
    /// table); `false`: rejected as ambiguous (`BadRoutes`).
    pub fn server_accepts(patterns: &[RoutePattern]) -> bool {
        let mut b = ServerBuilder::with_plane_name("route-engine");
        for p in patterns {
            b = b.add_route(p.clone(), NeverRun);
        }
        let r = RT.with(|rt| rt.block_on(b.build()));
        !matches!(r, Err(ServerBuilderError::BadRoutes(_)))
    }
}

fn part_route_table(#[cfg_attr(not(feature = "server-check"), allow(unused_variables))] case: u64, rng: &mut Rng, out: &mut CaseOut) {
    let g = Gen { hostile: rng.chance(1, 6), tiny: true, hostile_names: false };
    let n = rng.range(3, 8) as usize;
    let mut cands: Vec<Pat> = Vec::new();
    for _ in 0..n {
        let p = if !cands.is_empty() && rng.chance(3, 5) {
            let from = cands[rng.usize_below(cands.len())].clone();
            mutate_pat(&from, rng, &g)
        } else {
            gen_pat(rng, &g)
        };
        cands.push(p);
    }
    // The server's rule (plane.rs): a table is accepted iff no pair (i < j) is are_ambiguous.
    // Keep the largest prefix-greedy subset that rule accepts.
    let mut accepted: Vec<(Pat, String, RoutePattern)> = Vec::new();
    let mut all: Vec<RoutePattern> = Vec::new();
    let mut rejected = 0;
    for p in cands {
        let text = p.render();
        if accepted.iter().any(|(_, t, _)| *t == text) {
            continue;
        }
        let Some(rp) = parse_generated(&p, &text, out) else { return };
        out.events += accepted.len() as u64;
        all.push(rp.clone());
        if accepted.iter().all(|(_, _, a)| !RoutePattern::are_ambiguous(a, &rp)) {
            accepted.push((p, text, rp));
        } else {
            rejected += 1;
        }
    }
    for (_, t, _) in &accepted {
        out.sig(t);
    }
    out.add("routes-accepted", accepted.len() as u64);
    out.add("routes-rejected-as-ambiguous", rejected);

    // Cross-check the emulated rule against the real builder on a sample of the cases (it builds
    // TLS client configuration when it accepts, which dominates the cost of a case).
    #[cfg(feature = "server-check")]
    if case % 4 == 0 {
        let acc: Vec<RoutePattern> = accepted.iter().map(|(_, _, r)| r.clone()).collect();
        let ok_accepted = server_check::server_accepts(&acc);
        let ok_all = server_check::server_accepts(&all);
        out.events += 2;
        out.count("server-builder-cross-checks");
        if !ok_accepted || (rejected > 0 && ok_all) {
            out.count("server-builder-disagrees");
            out.inconclusive("ServerBuilder::build does not follow the pairwise rule this part emulates");
            return;
        }
        if rejected > 0 {
            out.count("server-builder-rejected-full-set");
        }
    }

    if accepted.len() < 2 {
        return;
    }
    let mut resolved_one = 0u64;
    let mut resolved_none = 0u64;
    'outer: for i in 0..accepted.len() {
        for _ in 0..3 {
            let mut j = rng.usize_below(accepted.len() - 1);
            if j >= i {
                j += 1;
            }
            let uri = synth_uri(&accepted[i].0, &accepted[i].2, &accepted[j].0, rng);
            let Ok(route_uri) = uri.parse::<RouteUri>() else {
                out.count("uri-rejected-by-route-uri-parser");
                continue;
            };
            // What `Routes::find_route` does, continued past the first hit.
            let hits: Vec<usize> =
                (0..accepted.len()).filter(|k| accepted[*k].2.unapply_route_uri(&route_uri).is_ok()).collect();
            out.events += accepted.len() as u64;
            match hits.len() {
                0 => resolved_none += 1,
                1 => resolved_one += 1,
                _ => {
                    let (a, b) = (hits[0], hits[1]);
                    let class = pair_class(&accepted[a].0, &accepted[b].0);
                    out.violation(
                        P,
                        format!("route-table/uri-matches-two-accepted-routes/{class}"),
                        "a route table accepted by the pairwise ambiguity rule resolves one URI to more than one route (find_route silently takes the first)",
                        json!({"table": accepted.iter().map(|(_, t, _)| t.clone()).collect::<Vec<_>>(), "uri": uri,
                               "matching_routes": hits.iter().map(|k| accepted[*k].1.clone()).collect::<Vec<_>>()}),
                    );
                    break 'outer;
                }
            }
        }
    }
    out.add("uris-resolved-to-one-route", resolved_one);
    out.add("uris-resolved-to-no-route", resolved_none);
    out.nontrivial = resolved_one > 0;
    out.set_sample(json!({"table": accepted.iter().map(|(_, t, _)| t.clone()).collect::<Vec<_>>(), "rejected": rejected}));
}

// ------------------------------------------------------------------------------------------------
// Part 6: the real server builder, with and without introspection (meta routes)

#[cfg(feature = "server-check")]
const META_PATTERNS: [&str; 3] = ["swimos:meta:mesh", "swimos:meta:node/:node_uri", "swimos:meta:node/:node_uri/lane/:lane_name"];

#[cfg(feature = "server-check")]
fn part_server_tables(_case: u64, rng: &mut Rng, out: &mut CaseOut) {
    use server_check::{server_verdict, Verdict};
    let g = Gen { hostile: false, tiny: true, hostile_names: false };
    let introspection = rng.bool();
    // Candidate user routes: generated ones, chains derived from each other, and relative patterns shaped
    // like the meta routes (which are relative, two and four segments long, under the scheme `swimos`).
    let n = rng.range(2, 6) as usize;
    let mut texts: Vec<String> = Vec::new();
    let mut pats: Vec<RoutePattern> = Vec::new();
    let mut gens: Vec<Pat> = Vec::new();
    for _ in 0..n {
        let text = if rng.chance(1, 3) {
            let segs: usize = *rng.pick(&[1usize, 2, 2, 4, 4, 3]);
            let mut parts = vec![];
            for i in 0..segs {
                let lit: &str = match (i, rng.below(4)) {
                    (0, 0) => "meta:node",
                    (0, 1) => "meta:mesh",
                    (2, 0) | (2, 1) => "lane",
                    _ => "",
                };
                if lit.is_empty() || rng.chance(1, 2) {
                    parts.push(format!(":p{i}"));
                } else {
                    parts.push(lit.to_string());
                }
            }
            let scheme = if rng.chance(1, 4) { "swimos:" } else { "" };
            format!("{scheme}{}", parts.join("/"))
        } else {
            let p = if !gens.is_empty() && rng.chance(3, 5) { mutate_pat(&gens[rng.usize_below(gens.len())].clone(), rng, &g) } else { gen_pat(rng, &g) };
            let t = p.render();
            gens.push(p);
            t
        };
        if texts.contains(&text) {
            continue;
        }
        let Ok(rp) = RoutePattern::parse_str(&text) else { continue };
        texts.push(text);
        pats.push(rp);
    }
    if pats.len() < 2 {
        out.count("table-too-small");
        return;
    }
    for t in &texts {
        out.sig(t);
    }
    out.sig(&introspection);
    let meta: Vec<RoutePattern> = if introspection { META_PATTERNS.iter().filter_map(|t| RoutePattern::parse_str(t).ok()).collect() } else { vec![] };
    // The builder's own judgement, pair by pair.
    let k = pats.len();
    let mut overlapping: Vec<bool> = vec![false; k];
    for i in 0..k {
        for j in 0..k {
            if i != j && RoutePattern::are_ambiguous(&pats[i], &pats[j]) {
                overlapping[i] = true;
            }
        }
    }
    let colliding: Vec<bool> = (0..k).map(|i| meta.iter().any(|m| RoutePattern::are_ambiguous(m, &pats[i]))).collect();
    let verdict = server_verdict(&pats, introspection);
    out.events += (k * k) as u64 + 1;
    out.nontrivial = true;
    let table = json!({"routes": texts, "introspection": introspection});
    match verdict {
        Verdict::Accepted => {
            out.count(if introspection { "accepted/with-introspection" } else { "accepted/without-introspection" });
            if overlapping.iter().any(|b| *b) {
                out.violation(P, "server-table/accepted-although-two-routes-are-ambiguous", "ServerBuilder::build accepted a table in which its own pairwise check calls two routes ambiguous", table.clone());
            }
            if colliding.iter().any(|b| *b) {
                out.violation(P, "server-table/accepted-although-a-route-collides-with-a-meta-route", "ServerBuilder::build (introspection enabled) accepted a route that are_ambiguous with an introspection route", table.clone());
            }
            // every URI resolves to at most one route of the table (user routes then meta routes, as find_route searches)
            let all: Vec<(&RoutePattern, String)> = pats.iter().zip(texts.iter().cloned()).chain(meta.iter().zip(META_PATTERNS.iter().map(|t| t.to_string()))).collect();
            'uris: for (rp, _) in &all {
                for _ in 0..3 {
                    let names: Vec<String> = rp.parameters().map(|n| n.to_string()).collect();
                    let m: Bindings = names.into_iter().map(|n| (n, if rng.chance(1, 3) { "lane".to_string() } else { gen_value(rng) })).collect();
                    let Ok(uri) = rp.apply(&m) else { continue };
                    let Ok(route_uri) = uri.parse::<RouteUri>() else { continue };
                    let hits: Vec<&String> = all.iter().filter(|(q, _)| q.unapply_route_uri(&route_uri).is_ok()).map(|(_, t)| t).collect();
                    out.events += all.len() as u64;
                    if hits.len() > 1 {
                        let with_meta = hits.iter().any(|t| t.starts_with("swimos:meta:"));
                        out.violation(
                            P,
                            format!("server-table/accepted-table-resolves-a-uri-to-two-routes/{}", if with_meta { "user-and-meta-route" } else { "two-user-routes" }),
                            "a server that accepted its routes resolves one URI to more than one route (find_route silently takes the first)",
                            json!({"table": table, "uri": uri, "matching_routes": hits}),
                        );
                        break 'uris;
                    }
                }
            }
        }
        Verdict::Overlapping(reported) => {
            out.count("rejected/overlapping");
            for i in 0..k {
                if overlapping[i] && !reported.contains(&pats[i]) {
                    out.violation(P, "server-table/ambiguity-report-incomplete", "the list of ambiguous routes reported by the builder leaves out a route that overlaps another route of the table", json!({"table": table, "missing": texts[i], "reported": reported.iter().map(|r| r.to_string()).collect::<Vec<_>>()}));
                    break;
                }
            }
            if !overlapping.iter().any(|b| *b) {
                out.violation(P, "server-table/rejected-without-ambiguous-pair", "the builder rejected a table as overlapping although no two of its routes are ambiguous", table.clone());
            }
        }
        Verdict::MetaCollision { meta: meta_reported, routes } => {
            out.count("rejected/meta-collision");
            for i in 0..k {
                if colliding[i] && !routes.contains(&pats[i]) {
                    out.violation(P, "server-table/meta-collision-report-incomplete", "the meta-collision report leaves out a user route that collides with an introspection route", json!({"table": table, "missing": texts[i]}));
                    break;
                }
            }
            for m in &meta {
                if pats.iter().any(|p| RoutePattern::are_ambiguous(m, p)) && !meta_reported.contains(m) {
                    out.violation(P, "server-table/meta-collision-report-incomplete/meta-route", "the meta-collision report leaves out an introspection route that a user route collides with", json!({"table": table, "missing": m.to_string()}));
                    break;
                }
            }
            if !colliding.iter().any(|b| *b) {
                out.violation(P, "server-table/rejected-without-meta-collision", "the builder reported a collision with the introspection routes although no route is ambiguous with one of them", table.clone());
            }
        }
    }
}

fn main() {
    let mut s = Session::new("route");
    #[cfg(not(feature = "server-check"))]
    s.note("built without feature server-check: route-table acceptance is the emulated pairwise rule only");

    let n = s.args.budget(1_500_000, 12_000_000);
    s.part(
        "apply-unapply",
        "one generated pattern (optional scheme, absolute/relative, 1-5 segments: literals raw / percent-encoded / non-ASCII, parameters) and one parameter map (hostile values; sometimes incomplete or with extra keys) per case: apply Ok => unapply_str(p, applied) == bindings of p's parameters; non-trivial when apply succeeded on a pattern with at least one parameter; distinct by (pattern, map)",
        false,
        n,
        part_apply_unapply,
    );

    let n = s.args.budget(600_000, 6_000_000);
    s.part(
        "determinism",
        "one pattern and 4-7 URIs (built from it with random encodings, applied, mutated, with an empty segment at a parameter, garbage) per case: unapply_str twice, via RouteUri::from_str and try_from(String) + unapply_route_uri, and via a re-parsed pattern agree; no binding is empty; non-trivial when at least one URI matched and one did not; distinct by (pattern, URIs)",
        false,
        n,
        part_determinism,
    );

    let n = s.args.budget(1_500_000, 12_000_000);
    s.part(
        "ambiguity",
        "one pair (p, q) per case (q derived from p by mutation - literal<->parameter, re-encoding of a literal, scheme/absolute/length changes - or independent) and 10 URIs synthesised from either (apply with bindings steered to the other's literals, own builder with random percent-encoding, string mutations): URI matched by both => are_ambiguous(p,q) and are_ambiguous(q,p); non-trivial when some URI was matched by both; distinct by (p, q)",
        false,
        n,
        part_ambiguity,
    );

    let n = s.args.budget(600_000, 4_000_000);
    s.part(
        "malformed",
        "one malformed or odd pattern string per case (empty, slash only, empty segment, trailing slash, empty / colon-containing / duplicate parameter names, leading //, scheme only, long runs, character soup): parse_str and parse(chars) return without panic and agree; the definitely malformed classes (and any string with an empty segment) are rejected; accepted odd patterns can be displayed / applied / unapplied / compared without panic; distinct by input",
        false,
        n,
        part_malformed,
    );

    let n = s.args.budget(400_000, 4_000_000);
    s.part(
        "route-table",
        "3-8 candidate patterns per case, filtered to a table the server's pairwise are_ambiguous rule accepts (every 4th case cross-checked against the real ServerBuilder::build: accepted table not BadRoutes, full candidate set BadRoutes when something was filtered); 3 URIs synthesised from each route: each matches at most one route of the table; non-trivial when the table has >= 2 routes and some URI resolved to exactly one; distinct by table",
        false,
        n,
        part_route_table,
    );

    #[cfg(feature = "server-check")]
    {
        let n = s.args.budget(6_000, 200_000);
        s.part(
            "server-tables",
            "2-6 user routes per case (generated, derived from each other, and relative patterns shaped like the introspection routes) handed to the real ServerBuilder::build, with introspection enabled in half of the cases: an accepted table has no pair its own check calls ambiguous, no route ambiguous with a meta route, and every URI applied from any route (user or meta) matches exactly one route; a rejection names every route that overlaps another / collides with a meta route, and is never issued without such a pair; distinct by (table, introspection)",
            false,
            n,
            part_server_tables,
        );
    }

    s.finish()
}
