//! Generators of route patterns, parameter values and URIs. Nothing in here decides a verdict.

use common::Rng;

/// One pattern segment as generated: the *raw* text that goes into the pattern string.
#[derive(Clone, Debug, PartialEq, Eq, Hash)]
pub enum Seg {
    Lit(String),
    Param(String),
}

/// Structural description of a generated pattern.
#[derive(Clone, Debug, PartialEq, Eq, Hash)]
pub struct Pat {
    pub scheme: Option<String>,
    pub absolute: bool,
    pub segs: Vec<Seg>,
}

impl Pat {
    pub fn render(&self) -> String {
        let mut s = String::new();
        if let Some(sc) = &self.scheme {
            s.push_str(sc);
            s.push(':');
        }
        for (i, seg) in self.segs.iter().enumerate() {
            if i > 0 || self.absolute {
                s.push('/');
            }
            match seg {
                Seg::Lit(l) => s.push_str(l),
                Seg::Param(n) => {
                    s.push(':');
                    s.push_str(n);
                }
            }
        }
        s
    }

    pub fn param_names(&self) -> Vec<String> {
        self.segs.iter().filter_map(|s| if let Seg::Param(n) = s { Some(n.clone()) } else { None }).collect()
    }
}

/// Generator switches.
pub struct Gen {
    /// Allow literals / schemes that are valid in a pattern but are not URI text (raw space, `?`,
    /// `#`, non-ASCII, stray `%`).
    pub hostile: bool,
    /// Draw literals from a tiny pool so that independent patterns collide.
    pub tiny: bool,
    /// Allow parameter names that contain percent-escapes / non-ASCII.
    pub hostile_names: bool,
}

// ------------------------------------------------------------------------------------------------
// Percent-encoding helpers (used to build inputs and to name violations only).

fn hexval(b: u8) -> Option<u8> {
    match b {
        b'0'..=b'9' => Some(b - b'0'),
        b'a'..=b'f' => Some(b - b'a' + 10),
        b'A'..=b'F' => Some(b - b'A' + 10),
        _ => None,
    }
}

/// Is there a `%HH` escape at byte `i`?
fn is_escape_at(b: &[u8], i: usize) -> bool {
    i + 2 < b.len() && b[i] == b'%' && hexval(b[i + 1]).is_some() && hexval(b[i + 2]).is_some()
}

pub fn pct_decode(s: &str) -> Vec<u8> {
    let b = s.as_bytes();
    let mut out = Vec::with_capacity(b.len());
    let mut i = 0;
    while i < b.len() {
        if is_escape_at(b, i) {
            out.push(hexval(b[i + 1]).unwrap_or(0) << 4 | hexval(b[i + 2]).unwrap_or(0));
            i += 3;
            continue;
        }
        out.push(b[i]);
        i += 1;
    }
    out
}

pub fn lossy(bytes: &[u8]) -> String {
    String::from_utf8_lossy(bytes).into_owned()
}

/// The characters `RouteUri` accepts unescaped in a path segment.
pub fn is_uri_path_char(c: char) -> bool {
    c.is_ascii_alphanumeric() || "$-_.+!*'(),:@&=;".contains(c)
}

/// Is `raw` text that can stand in a URI path segment as it is (path characters and `%HH`)?
pub fn uri_safe_segment(raw: &str) -> bool {
    let b = raw.as_bytes();
    let mut i = 0;
    while i < b.len() {
        if b[i] == b'%' {
            if is_escape_at(b, i) {
                i += 3;
                continue;
            }
            return false;
        }
        if !b[i].is_ascii() || !is_uri_path_char(b[i] as char) {
            return false;
        }
        i += 1;
    }
    true
}

pub fn uri_safe_scheme(s: &str) -> bool {
    let mut cs = s.chars();
    matches!(cs.next(), Some(c) if c.is_ascii_alphabetic()) && cs.all(|c| c.is_ascii_alphanumeric() || "+-.".contains(c))
}

fn escape(b: u8, rng: &mut Rng) -> String {
    if rng.bool() {
        format!("%{b:02X}")
    } else {
        format!("%{b:02x}")
    }
}

/// Encode bytes as URI / pattern segment text: bytes that need escaping are escaped, the others
/// are escaped with probability `extra`/8. `:` is always escaped (a raw colon would make a scheme
/// or a parameter out of a leading segment); raw colons only enter through the hostile pools and
/// through `mutate_uri`.
pub fn encode_bytes(bytes: &[u8], rng: &mut Rng, extra: u64) -> String {
    let mut s = String::new();
    for &b in bytes {
        let safe = b.is_ascii() && is_uri_path_char(b as char) && b != b':';
        if safe && !rng.chance(extra, 8) {
            s.push(b as char);
        } else {
            s.push_str(&escape(b, rng));
        }
    }
    s
}

// ------------------------------------------------------------------------------------------------
// Patterns

// (the last entries are escapes that do not decode to valid UTF-8: only octet-wise comparison tells them apart)
const LIT_TINY: &[&str] = &["a", "b", "ab", "a%62", "%61b", "c", "a%2Fb", "a%2fb", "%C3%A9", "%c3%a9", "node", "%FF", "%FE", "%C3", "caf%E9", "caf%E8"];
const LIT_POOL: &[&str] = &[
    "meta:node", "a", "b", "ab", "a%62", "%61b", "%61%62", "node", "unit", "a%2Fb", "a%2fb", "%C3%A9", "%c3%a9", "a.b", "a-b",
    "x_y", "~", "1", "A", "a%20b", "a+b", "%25", "a%3Fb", "(a)", "a,b;c=d", "$", "a@b", "%00", "%FF", "%FE", "%80", "%C3", "%E2%82", "%E2%83", "caf%E9", "caf%E8",
];
/// Valid pattern literals that are not URI path text as they stand.
const LIT_HOSTILE: &[&str] = &["é", "a b", "a?b", "a#b", "%", "%zz", "a%", "日本", "%f", "a%6", "?", "#x", "a\u{0}b", "a~b", "a:b", "a\\b", "{a}"];
const LIT_ALPHABET: &[char] = &['a', 'b', 'c', 'A', '1', '-', '.', '~', '_', ' ', '%', '?', '#', 'é', '/', ':', '日', '+', '@'];

const NAMES: &[&str] = &["id", "x", "y", "name", "k", "p1", "sub"];
const NAMES_HOSTILE: &[&str] = &["a%62", "ab", "é", "%C3%A9", "%ff", "a b", "n?", "a.b", "%41"];

const SCHEMES: &[&str] = &["swim", "warp", "warps", "http", "a", "s+x", "a.b-c", "Swim", "s1"];
const SCHEMES_HOSTILE: &[&str] = &["a b", "sé", "a%20", "s?", "s_t"];

fn gen_literal(rng: &mut Rng, g: &Gen, first_relative: bool) -> String {
    loop {
        let lit: String = match rng.below(20) {
            0..=11 => (*rng.pick(if g.tiny { LIT_TINY } else { LIT_POOL })).to_string(),
            12..=16 => {
                if g.tiny && rng.bool() {
                    (*rng.pick(LIT_TINY)).to_string()
                } else {
                    // A decoded text of 1-3 characters, each byte raw or escaped.
                    let len = rng.range(1, 3);
                    let mut s = String::new();
                    for _ in 0..len {
                        let c = *rng.pick(LIT_ALPHABET);
                        let needs_escape = !c.is_ascii() || !is_uri_path_char(c) || c == ':';
                        let raw = if c == '/' || c == ':' {
                            false
                        } else if needs_escape {
                            g.hostile && rng.chance(1, 4)
                        } else {
                            rng.chance(2, 3)
                        };
                        if raw {
                            s.push(c);
                        } else {
                            let mut buf = [0u8; 4];
                            for b in c.encode_utf8(&mut buf).bytes() {
                                s.push_str(&escape(b, rng));
                            }
                        }
                    }
                    s
                }
            }
            _ => {
                if g.hostile {
                    (*rng.pick(LIT_HOSTILE)).to_string()
                } else {
                    (*rng.pick(if g.tiny { LIT_TINY } else { LIT_POOL })).to_string()
                }
            }
        };
        // A raw colon in the leading segment of a relative pattern would be read as a scheme.
        if first_relative && lit.contains(':') {
            continue;
        }
        if lit.is_empty() || lit.starts_with(':') || lit.contains('/') {
            continue;
        }
        return lit;
    }
}

fn gen_name(rng: &mut Rng, g: &Gen, used: &[String]) -> String {
    for _ in 0..20 {
        let n = if g.hostile_names && rng.chance(1, 2) { *rng.pick(NAMES_HOSTILE) } else { *rng.pick(NAMES) };
        if !used.iter().any(|u| u == n) {
            return n.to_string();
        }
    }
    format!("n{}", used.len())
}

fn gen_scheme(rng: &mut Rng, g: &Gen) -> String {
    if g.hostile && rng.chance(1, 4) {
        (*rng.pick(SCHEMES_HOSTILE)).to_string()
    } else if g.tiny {
        (*rng.pick(&["swim", "warp"])).to_string()
    } else {
        (*rng.pick(SCHEMES)).to_string()
    }
}

pub fn gen_pat(rng: &mut Rng, g: &Gen) -> Pat {
    let scheme = if rng.chance(1, 4) { Some(gen_scheme(rng, g)) } else { None };
    let absolute = rng.chance(5, 6);
    let nsegs = if g.tiny { rng.range(1, 3) } else { rng.range(1, 5) } as usize;
    let mut segs = Vec::with_capacity(nsegs);
    let mut used: Vec<String> = Vec::new();
    for i in 0..nsegs {
        if rng.chance(2, 5) {
            let n = gen_name(rng, g, &used);
            used.push(n.clone());
            segs.push(Seg::Param(n));
        } else {
            segs.push(Seg::Lit(gen_literal(rng, g, i == 0 && !absolute && scheme.is_none())));
        }
    }
    Pat { scheme, absolute, segs }
}

fn leading_literal_has_colon(p: &Pat) -> bool {
    matches!(p.segs.first(), Some(Seg::Lit(l)) if l.contains(':'))
}

/// A pattern near `p`: one or two structural edits.
pub fn mutate_pat(p: &Pat, rng: &mut Rng, g: &Gen) -> Pat {
    let mut q = p.clone();
    let edits = rng.range(1, 2);
    let mut done = 0;
    let mut tries = 0;
    while done < edits && tries < 20 {
        tries += 1;
        let at = rng.usize_below(q.segs.len());
        let first_relative = at == 0 && !q.absolute;
        let used = q.param_names();
        match rng.below(10) {
            0 => {
                if let Seg::Lit(_) = q.segs[at] {
                    q.segs[at] = Seg::Param(gen_name(rng, g, &used));
                    done += 1;
                }
            }
            1 => {
                if let Seg::Param(_) = q.segs[at] {
                    q.segs[at] = Seg::Lit(gen_literal(rng, g, first_relative));
                    done += 1;
                }
            }
            2 | 3 | 4 => {
                // Same literal, other spelling: re-encode the decoded bytes.
                if let Seg::Lit(raw) = &q.segs[at] {
                    let bytes = pct_decode(raw);
                    let extra = *rng.pick(&[0u64, 3, 8]);
                    let mut again = encode_bytes(&bytes, rng, extra);
                    if again == *raw {
                        again = encode_bytes(&bytes, rng, 8);
                    }
                    if again != *raw && !again.is_empty() {
                        q.segs[at] = Seg::Lit(again);
                        done += 1;
                    }
                }
            }
            5 => {
                if let Seg::Lit(_) = q.segs[at] {
                    q.segs[at] = Seg::Lit(gen_literal(rng, g, first_relative));
                    done += 1;
                }
            }
            6 => {
                if !leading_literal_has_colon(&q) {
                    q.absolute = !q.absolute;
                    done += 1;
                }
            }
            7 => {
                let new = match &q.scheme {
                    Some(_) if rng.bool() => None,
                    _ => Some(gen_scheme(rng, g)),
                };
                if new.is_some() || q.absolute || !leading_literal_has_colon(&q) {
                    q.scheme = new;
                    done += 1;
                }
            }
            8 => {
                if q.segs.len() > 1 && rng.bool() {
                    q.segs.pop();
                } else if rng.bool() {
                    q.segs.push(Seg::Param(gen_name(rng, g, &used)));
                } else {
                    q.segs.push(Seg::Lit(gen_literal(rng, g, false)));
                }
                done += 1;
            }
            _ => {
                if let Seg::Param(_) = q.segs[at] {
                    q.segs[at] = Seg::Param(gen_name(rng, g, &used));
                    done += 1;
                }
            }
        }
    }
    q
}

// ------------------------------------------------------------------------------------------------
// Values and URIs

const VALUES_HOSTILE: &[&str] = &[
    "/", "%", "%2F", " ", "?", "#", "é", "日本", "a/b", "a%62", "..", ".", "~", "+", "a b", ":", ":x", "%zz", "%%", "\u{0}",
    "\u{fffd}", "😀", "//", "a?b=c#d", "%25", "%C3%A9", "\t", "a\nb", "e\u{301}", "%2f%2F", "swim:", "\u{feff}", "*", "\\",
];
const VALUES_PLAIN: &[&str] = &["a", "b", "ab", "1", "node", "unit-7", "x_y.z~", "A"];
const VALUE_ALPHABET: &[char] = &['a', 'b', '1', '/', '%', ' ', '?', '#', 'é', '2', 'F', ':', '.', '~', '+', '日', '&', '='];

/// A non-empty parameter value.
pub fn gen_value(rng: &mut Rng) -> String {
    match rng.below(10) {
        0..=4 => (*rng.pick(VALUES_HOSTILE)).to_string(),
        5..=7 => {
            let len = rng.range(1, 5);
            (0..len).map(|_| *rng.pick(VALUE_ALPHABET)).collect()
        }
        _ => (*rng.pick(VALUES_PLAIN)).to_string(),
    }
}

/// Build a URI aimed at `pat`: its literals in a random spelling of the same decoded bytes,
/// parameters bound to values (steered to the literal `other` has at the same position, when
/// given). With `empty_param`, one parameter position (or, without parameters, one literal) is
/// left empty. Returns the URI and the values used.
pub fn build_uri(pat: &Pat, other: Option<&Pat>, rng: &mut Rng, empty_param: bool) -> (String, Vec<(String, String)>) {
    let mut s = String::new();
    let scheme: Option<String> = match &pat.scheme {
        Some(sc) => match rng.below(8) {
            0 => None,
            1 => Some("other".to_string()),
            _ => Some(sc.clone()),
        },
        None => {
            if rng.chance(1, 6) {
                Some("swim".to_string())
            } else {
                None
            }
        }
    };
    if let Some(sc) = scheme {
        s.push_str(&sc);
        s.push(':');
    }
    let extra = *rng.pick(&[0u64, 0, 2, 8]);
    let nparams = pat.segs.iter().filter(|s| matches!(s, Seg::Param(_))).count();
    let empty_at = if empty_param {
        let k = if nparams > 0 { rng.usize_below(nparams) } else { rng.usize_below(pat.segs.len()) };
        Some(k)
    } else {
        None
    };
    let mut used = Vec::new();
    let mut param_idx = 0;
    for (i, seg) in pat.segs.iter().enumerate() {
        if i > 0 || pat.absolute {
            s.push('/');
        }
        match seg {
            Seg::Lit(raw) => {
                if nparams == 0 && empty_at == Some(i) {
                    continue;
                }
                s.push_str(&encode_bytes(&pct_decode(raw), rng, extra));
            }
            Seg::Param(name) => {
                let v = if empty_at == Some(param_idx) {
                    String::new()
                } else {
                    match other.and_then(|o| o.segs.get(i)) {
                        Some(Seg::Lit(raw)) if rng.chance(2, 3) => lossy(&pct_decode(raw)),
                        _ => gen_value(rng),
                    }
                };
                param_idx += 1;
                s.push_str(&encode_bytes(v.as_bytes(), rng, extra));
                used.push((name.clone(), v));
            }
        }
    }
    (s, used)
}

/// String-level mutation of a URI: re-spell one character, add a query / fragment, add or
/// duplicate a slash, add or strip a scheme.
pub fn mutate_uri(uri: &str, rng: &mut Rng) -> String {
    let b = uri.as_bytes();
    let escapes: Vec<usize> = (0..b.len()).filter(|&i| is_escape_at(b, i)).collect();
    let alnums: Vec<usize> = (0..b.len()).filter(|&i| b[i].is_ascii_alphanumeric()).collect();
    for _ in 0..6 {
        match rng.below(8) {
            0 | 1 if !escapes.is_empty() => {
                // Flip the case of the hex digits of one escape.
                let i = *rng.pick(&escapes);
                let mut v = b.to_vec();
                for k in [i + 1, i + 2] {
                    v[k] = if v[k].is_ascii_lowercase() { v[k].to_ascii_uppercase() } else { v[k].to_ascii_lowercase() };
                }
                return lossy(&v);
            }
            2 if !escapes.is_empty() => {
                // Decode one escape when the byte may stand raw.
                let i = *rng.pick(&escapes);
                let byte = hexval(b[i + 1]).unwrap_or(0) << 4 | hexval(b[i + 2]).unwrap_or(0);
                if byte.is_ascii() && is_uri_path_char(byte as char) {
                    let mut v = b[..i].to_vec();
                    v.push(byte);
                    v.extend_from_slice(&b[i + 3..]);
                    return lossy(&v);
                }
            }
            3 | 4 if !alnums.is_empty() => {
                // Escape one raw alphanumeric that is not itself part of an escape.
                let i = *rng.pick(&alnums);
                let in_escape = escapes.iter().any(|&e| i == e + 1 || i == e + 2);
                if !in_escape {
                    let mut v = b[..i].to_vec();
                    v.extend_from_slice(escape(b[i], rng).as_bytes());
                    v.extend_from_slice(&b[i + 1..]);
                    return lossy(&v);
                }
            }
            5 => return format!("{uri}{}", *rng.pick(&["?a=b", "#frag", "?", "#", "?q=/x/y#z"])),
            6 => {
                return if rng.bool() {
                    format!("{uri}/")
                } else {
                    match uri.find('/') {
                        Some(i) => format!("{}/{}", &uri[..i], &uri[i..]),
                        None => format!("/{uri}"),
                    }
                };
            }
            7 => {
                let head = uri.split('/').next().unwrap_or("");
                return match head.find(':') {
                    Some(i) => uri[i + 1..].to_string(),
                    None => format!("swim:{uri}"),
                };
            }
            _ => {}
        }
    }
    uri.to_string()
}
