//! Signature classes: *why* (structurally) a violated oracle fired, computed from the generator's
//! description of the inputs. A class never decides whether there is a violation; it keeps distinct
//! defects under distinct signatures and one defect under one.

use crate::generator::{lossy, pct_decode, uri_safe_scheme, uri_safe_segment, Pat, Seg};
use std::collections::HashMap;

/// Why `unapply_str(p, apply(p, m))` did not give `m` back (`got` is `None` for "no match").
///
/// The explanations are tried in a fixed order and the first that holds names the signature, so a
/// given (pattern, map) always lands on one signature whatever the outcome was:
///  * the pattern's scheme or a literal is not URI text (space, `?`, `#`, non-ASCII, stray `%` ...):
///    `apply` copies pattern text verbatim, the `RouteUri` parser stops at / rejects that character;
///  * only `~` is in the way (in a literal or in a value): `apply` leaves `~` unescaped
///    (`URL_ENCODE`) but the `RouteUri` grammar has no `~` among its path characters;
///  * the result matched and differs from `m` *only* by parameter names being percent-decoded
///    (verified on the two maps): `unapply` keys by the decoded name, `apply` / `parameters()` /
///    the duplicate-name check by the raw one;
///  * otherwise unexplained, qualified by the outcome.
pub fn roundtrip_class(pat: &Pat, expected: &HashMap<String, String>, got: Option<&HashMap<String, String>>) -> &'static str {
    let strip = |s: &str| s.replace('~', "");
    if pat.scheme.as_deref().map_or(false, |s| !uri_safe_scheme(s))
        || pat.segs.iter().any(|s| matches!(s, Seg::Lit(l) if !uri_safe_segment(&strip(l))))
    {
        return "pattern-text-not-uri-text";
    }
    if pat.segs.iter().any(|s| matches!(s, Seg::Lit(l) if l.contains('~'))) || expected.values().any(|v| v.contains('~')) {
        return "tilde-rejected-by-route-uri";
    }
    match got {
        None => "unexplained-no-match",
        Some(got) => {
            // Re-key the expectation the way `unapply` does (later parameters overwrite earlier
            // ones with the same decoded name).
            let mut rekeyed: HashMap<String, String> = HashMap::new();
            let mut renamed = false;
            for n in pat.param_names() {
                let d = lossy(&pct_decode(&n));
                renamed |= d != n;
                if let Some(v) = expected.get(&n) {
                    rekeyed.insert(d, v.clone());
                }
            }
            if renamed && rekeyed == *got {
                "parameter-name-percent-decoded"
            } else {
                "unexplained-bindings-differ"
            }
        }
    }
}

/// Two patterns matched one URI although `are_ambiguous` said they cannot.
pub fn pair_class(p: &Pat, q: &Pat) -> &'static str {
    if p.segs.len() != q.segs.len() {
        return "segment-count-differs";
    }
    // `are_ambiguous` is false for equal lengths only if some position holds two literals whose
    // raw texts differ. If all those positions agree after percent-decoding (which is what
    // matching compares), the miss is the raw-vs-decoded comparison.
    let mut raw_differs = 0;
    let mut decoded_differs = 0;
    for (a, b) in p.segs.iter().zip(q.segs.iter()) {
        if let (Seg::Lit(a), Seg::Lit(b)) = (a, b) {
            if a != b {
                raw_differs += 1;
                if pct_decode(a) != pct_decode(b) {
                    decoded_differs += 1;
                }
            }
        }
    }
    if raw_differs == 0 {
        "no-literal-differs"
    } else if decoded_differs == 0 {
        "percent-encoded-literal-vs-decoded"
    } else {
        "literals-differ-after-decoding"
    }
}
