fn main() {}
