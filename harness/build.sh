#!/bin/sh
# Build one engine; engine directories that other authors have only half created get a placeholder main.
cd /verif/harness
for e in engines/*/; do if [ -f $e/Cargo.toml ] && [ ! -f $e/src/main.rs ]; then mkdir -p $e/src; echo 'fn main() {}' > $e/src/main.rs; fi; done
cargo build --release "$@" 2>&1 | grep -E "^error" -A14 | head -60
