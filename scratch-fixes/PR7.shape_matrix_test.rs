use std::collections::HashMap;
use std::fmt::Debug;
use swimos_form::read::RecognizerReadable;
use swimos_form::write::StructuralWritable;
use swimos_form::Form;
use swimos_recon::parser::parse_recognize;
use swimos_recon::{print_recon, print_recon_compact, print_recon_pretty};

#[derive(Form, Debug, PartialEq, Clone)]
pub struct Labelled {
    pub a: i32,
    pub b: String,
    pub c: bool,
}

#[derive(Form, Debug, PartialEq, Clone)]
pub struct OneField {
    pub a: i32,
}

#[derive(Form, Debug, PartialEq, Clone)]
pub struct Unit;

fn check<T>(name: &str, v: &T, failures: &mut Vec<String>)
where
    T: StructuralWritable + RecognizerReadable + PartialEq + Debug,
{
    let model = v.structure();
    let prints: [(&str, String, String); 3] = [
        (
            "std",
            format!("{}", print_recon(v)),
            format!("{}", print_recon(&model)),
        ),
        (
            "compact",
            format!("{}", print_recon_compact(v)),
            format!("{}", print_recon_compact(&model)),
        ),
        (
            "pretty",
            format!("{}", print_recon_pretty(v)),
            format!("{}", print_recon_pretty(&model)),
        ),
    ];
    for (p, typed, modelled) in prints {
        if typed != modelled {
            failures.push(format!(
                "[{} / {}] typed != model:\n   typed: {:?}\n   model: {:?}",
                name, p, typed, modelled
            ));
        }
        match parse_recognize::<T>(typed.as_str(), false) {
            Ok(back) if &back == v => {}
            Ok(back) => failures.push(format!(
                "[{} / {}] round trip differs: {:?} -> {:?} (printed {:?})",
                name, p, v, back, typed
            )),
            Err(e) => failures.push(format!(
                "[{} / {}] does not parse: {:?} (printed {:?})",
                name, p, e, typed
            )),
        }
        match parse_recognize::<swimos_model::Value>(typed.as_str(), false) {
            Ok(back) if back == model => {}
            Ok(back) => failures.push(format!(
                "[{} / {}] value round trip differs: {:?} -> {:?} (printed {:?})",
                name, p, model, back, typed
            )),
            Err(e) => failures.push(format!(
                "[{} / {}] does not parse as value: {:?} (printed {:?})",
                name, p, e, typed
            )),
        }
    }
}

macro_rules! shapes {
    ($modname:ident, $body:ty, [$($val:expr),* $(,)?]) => {
        mod $modname {
            use super::*;

            #[derive(Form, Debug, PartialEq, Clone)]
            pub struct Base {
                #[form(header)]
                pub h: String,
                #[form(body)]
                pub b: $body,
            }

            // No header fields at all, only the body.
            #[derive(Form, Debug, PartialEq, Clone)]
            pub struct BodyOnly {
                #[form(body)]
                pub b: $body,
            }

            // Header body rather than header slot.
            #[derive(Form, Debug, PartialEq, Clone)]
            pub struct HBody {
                #[form(header_body)]
                pub h: i32,
                #[form(body)]
                pub b: $body,
            }

            // An attribute of its own and a body.
            #[derive(Form, Debug, PartialEq, Clone)]
            pub struct WithAttr {
                #[form(attr)]
                pub at: i32,
                #[form(body)]
                pub b: $body,
            }

            #[derive(Form, Debug, PartialEq, Clone)]
            pub struct AttrOf<T> {
                #[form(attr)]
                pub a: T,
                pub x: i32,
            }

            #[derive(Form, Debug, PartialEq, Clone)]
            pub struct AttrOfOnly<T> {
                #[form(attr)]
                pub a: T,
            }

            #[derive(Form, Debug, PartialEq, Clone)]
            pub struct TwoAttrs<T> {
                #[form(attr)]
                pub a: T,
                #[form(attr)]
                pub a2: T,
                pub x: i32,
                pub y: i32,
            }

            #[derive(Form, Debug, PartialEq, Clone)]
            pub struct Tup<T>(pub T);

            #[derive(Form, Debug, PartialEq, Clone)]
            #[form(newtype)]
            pub struct New<T>(pub T);

            #[derive(Form, Debug, PartialEq, Clone)]
            pub struct SlotOf<T> {
                pub first: i32,
                pub inner: T,
            }

            #[derive(Form, Debug, PartialEq, Clone)]
            pub struct OnlySlotOf<T> {
                pub inner: T,
            }

            // A delegated body that itself delegates.
            #[derive(Form, Debug, PartialEq, Clone)]
            pub struct BodyOf<T> {
                #[form(header)]
                pub g: i32,
                #[form(body)]
                pub inner: T,
            }

            #[derive(Form, Debug, PartialEq, Clone)]
            pub enum En<T> {
                V(T),
                W {
                    #[form(attr)]
                    a: T,
                    z: i32,
                },
            }

            fn all<T>(name: &str, mk: &dyn Fn() -> T, failures: &mut Vec<String>)
            where
                T: Form + RecognizerReadable + StructuralWritable + PartialEq + Debug + Clone,
            {
                let n = |s: &str| format!("{}::{}<{}>", stringify!($modname), s, name);
                check(&n("top"), &mk(), failures);
                check(&n("attr"), &AttrOf { a: mk(), x: 1 }, failures);
                check(&n("attr_only"), &AttrOfOnly { a: mk() }, failures);
                check(
                    &n("two_attrs"),
                    &TwoAttrs {
                        a: mk(),
                        a2: mk(),
                        x: 1,
                        y: 2,
                    },
                    failures,
                );
                check(&n("tuple1"), &Tup(mk()), failures);
                check(&n("newtype"), &New(mk()), failures);
                check(&n("attr_of_newtype"), &AttrOf { a: New(mk()), x: 1 }, failures);
                check(&n("attr_of_tuple1"), &AttrOf { a: Tup(mk()), x: 1 }, failures);
                check(&n("vec1"), &vec![mk()], failures);
                check(&n("vec2"), &vec![mk(), mk()], failures);
                check(
                    &n("slot"),
                    &SlotOf {
                        first: 0,
                        inner: mk(),
                    },
                    failures,
                );
                check(&n("only_slot"), &OnlySlotOf { inner: mk() }, failures);
                check(&n("body_of"), &BodyOf { g: 7, inner: mk() }, failures);
                check(
                    &n("attr_of_body_of"),
                    &AttrOf {
                        a: BodyOf { g: 7, inner: mk() },
                        x: 1,
                    },
                    failures,
                );
                check(
                    &n("attr_of_attr"),
                    &AttrOf {
                        a: AttrOf { a: mk(), x: 3 },
                        x: 1,
                    },
                    failures,
                );
                check(&n("enum_v"), &En::V(mk()), failures);
                check(&n("enum_w"), &En::W { a: mk(), z: 4 }, failures);
                check(
                    &n("attr_of_enum_v"),
                    &AttrOf {
                        a: En::V(mk()),
                        x: 1,
                    },
                    failures,
                );
                check(&n("opt_some"), &Some(mk()), failures);
            }

            pub fn run(failures: &mut Vec<String>) {
                let vals: Vec<$body> = vec![$($val),*];
                for (i, b) in vals.into_iter().enumerate() {
                    let b1 = b.clone();
                    all(&format!("Base#{}", i), &move || Base { h: "k".to_string(), b: b1.clone() }, failures);
                    let b2 = b.clone();
                    all(&format!("BodyOnly#{}", i), &move || BodyOnly { b: b2.clone() }, failures);
                    let b3 = b.clone();
                    all(&format!("HBody#{}", i), &move || HBody { h: -933, b: b3.clone() }, failures);
                    let b4 = b.clone();
                    all(&format!("WithAttr#{}", i), &move || WithAttr { at: 5, b: b4.clone() }, failures);
                }
            }
        }
    };
}

shapes!(body_vec, Vec<i32>, [vec![2, 256], vec![7], vec![]]);
shapes!(
    body_struct,
    Labelled,
    [Labelled {
        a: 1,
        b: "key".to_string(),
        c: true
    }]
);
shapes!(body_one_field, OneField, [OneField { a: 1 }]);
shapes!(body_unit, Unit, [Unit]);
shapes!(
    body_map,
    HashMap<String, i32>,
    [
        [("a".to_string(), 1), ("b".to_string(), 2)].into_iter().collect(),
        [("a".to_string(), 1)].into_iter().collect(),
        HashMap::new()
    ]
);
shapes!(body_opt, Option<i32>, [Some(3), None]);
shapes!(body_opt_vec, Option<Vec<i32>>, [Some(vec![1, 2]), Some(vec![1]), None]);
shapes!(body_prim, i32, [5]);
shapes!(body_text, String, ["hello".to_string(), "two words".to_string()]);
shapes!(body_vec_vec, Vec<Vec<i32>>, [vec![vec![1, 2]], vec![vec![1], vec![2]], vec![vec![]]]);
shapes!(body_vec_struct, Vec<OneField>, [vec![OneField { a: 1 }], vec![OneField { a: 1 }, OneField { a: 2 }]]);

fn run_all() -> Vec<String> {
    let mut failures = vec![];
    body_vec::run(&mut failures);
    body_struct::run(&mut failures);
    body_one_field::run(&mut failures);
    body_unit::run(&mut failures);
    body_map::run(&mut failures);
    body_opt::run(&mut failures);
    body_opt_vec::run(&mut failures);
    body_prim::run(&mut failures);
    body_text::run(&mut failures);
    body_vec_vec::run(&mut failures);
    body_vec_struct::run(&mut failures);
    failures
}

#[test]
fn shape_matrix() {
    let failures = run_all();
    for f in &failures {
        println!("{}", f);
    }
    println!("TOTAL FAILURES: {}", failures.len());
    assert!(failures.is_empty());
}

#[test]
fn witness() {
    let v = body_vec::AttrOf {
        a: body_vec::Base {
            h: "k".to_string(),
            b: vec![2, 256],
        },
        x: 1,
    };
    println!("{}", print_recon(&v));
    println!("{}", print_recon(&v.structure()));
}
