"""Per-property table: which engine runs decide a property, at which level, with which sanitizer passes.

`runs`: engine binaries (harness/engines/<name>) run with `--prop <id>`; `thorough_only` runs are skipped
in the quick tier. `sanitizers`: the same engines re-run on a reduced budget under Miri / TSan / valgrind
(thorough tier unless `quick: True`).
"""

PROPS = {}

PROPS["C19"] = {
    "title": "Model values: equality, ordering and hashing are mutually coherent",
    "level": "exploration",
    "design_ref": "DESIGN.md §3 C19",
    "technique": "runtime law monitors (Eq/Ord/Hash) over an exhaustively paired boundary pool + seeded random values, on the real impls",
    "text": "All ordered pairs and all triples of a boundary-heavy pool (every numeric kind at its limits, the same number in all kinds, signed zeros, NaN, infinities, big integers beyond i128/f64, texts, blobs, nested records) are checked against the Eq/Ord/Hash laws on the real implementation, plus seeded random nested values, sort and HashMap/BTreeMap consistency monitors. Exhaustive over the pool, sampled beyond it.",
    "note": "Trusts the harness's exact rational arithmetic used only to *classify* violations (signatures), not to decide them; laws are decided by the real ==, cmp and hash.",
    "runs": [{"engine": "value"}],
    "assumptions": ["the laws are decided on the values generated; values outside the pool and the seeded random stream are not covered"],
}
