"""Per-property table: which engine runs decide a property, at which level, with which sanitizer passes.

`runs`: engine binaries (harness/engines/<name>) run with `--prop <id>`; `thorough_only` runs are skipped
in the quick tier. `sanitizers`: the same engines re-run on a reduced budget under Miri / TSan / valgrind
(thorough tier unless `quick: True`).
"""

PROPS = {}

PROPS["C19"] = {
    "title": "Model values: equality, ordering and hashing are mutually coherent",
    "level": "exploration",
    "design_ref": "DESIGN.md §3 C19",
    "technique": "runtime law monitors (Eq/Ord/Hash) over an exhaustively paired boundary pool + seeded random values, on the real impls",
    "text": "All ordered pairs and all triples of a boundary-heavy pool (every numeric kind at its limits, the same number in all kinds, signed zeros, NaN, infinities, big integers beyond i128/f64, texts, blobs, nested records) are checked against the Eq/Ord/Hash laws on the real implementation, plus seeded random nested values, sort and HashMap/BTreeMap consistency monitors. The same laws (with partial_cmp == Some(cmp) and agreement with the relations of the values inside) are run on Item (value items, slots by key and by value) and Attr built from every pair of the pool, and on texts reached through ten different buffer histories. Exhaustive over the pool, sampled beyond it.",
    "note": "Trusts the harness's exact rational arithmetic used only to *classify* violations (signatures), not to decide them; laws are decided by the real ==, cmp and hash.",
    "runs": [{"engine": "value"}],
    "assumptions": ["the laws are decided on the values generated; values outside the pool and the seeded random stream are not covered"],
}

PROPS["C18"] = {
    "title": "Routing is deterministic: patterns invert, ambiguity is detected",
    "level": "exploration",
    "design_ref": "DESIGN.md §3 C18",
    "technique": "runtime monitoring of the real RoutePattern/RouteUri under generated patterns, parameter maps, mutation-derived pattern pairs and synthesised URIs",
    "text": "On the real RoutePattern/RouteUri: for ~1.5 M (quick) / 12 M (thorough) generated patterns x hostile parameter maps, apply then unapply returns exactly the bindings; matching is identical across repeated calls, RouteUri constructors and re-parsed patterns and never binds an empty segment; for as many pattern pairs every URI found to be matched by both patterns must be reported by are_ambiguous in both argument orders; malformed patterns are rejected without panic; every route table accepted by the server's pairwise rule (cross-checked against ServerBuilder::build) resolves each synthesised URI to at most one route.",
    "note": "Trusted base: the generators and a 10-line percent-decoder used only to build inputs and to name signature classes; verdicts come from the code under test alone. Overlap between two patterns is searched by synthesis, so an overlap of an exotic shape can be missed.",
    "runs": [{"engine": "route"}],
    "assumptions": ["find_route is the first match of unapply_route_uri in insertion order", "PlaneBuilder::build is the only acceptance gate (introspection meta-routes not enabled)"],
}

PROPS["C13"] = {
    "title": "Both stores behave as isolated per-agent, per-item value/map storage",
    "level": "fault_enumeration",
    "design_ref": "DESIGN.md §3 C13",
    "technique": "model-based runtime monitoring of the real in-memory and RocksDB stores + fault enumeration (reopen points, SIGKILL of a writer process) + valgrind memcheck",
    "text": "Every answer of every operation over adversarial (agent, item, key) histories is compared with a reference map through the public persistence traits, for the in-memory store (incl. the idle/in-use hand-over) and for RocksDB; ids must be stable and injective per agent and storage sharing between different (agent, item) pairs is detected by probe. For RocksDB this is checked across close/reopen at enumerated positions (every position in the thorough tier) and after SIGKILL of a writer process at seeded instants, requiring all acknowledged operations to be present and the store to remain usable. Identifier uniqueness and stability are also checked with 2-8 threads registering names concurrently over about 1 750 (quick) / 45 000 (thorough) open/close sessions, and items whose identifiers are multiples of 256 apart are exercised with clears (stride histories). Kind confusion (parts mem-kinds, rocks-kinds): value operations are also issued through identifiers of map items and map operations through identifiers of value items. A refusal (InvalidOperation, the in-memory store) is accepted only while the item holds, or after remove_map emptied it may hold, data of the other kind, and must leave both representations unchanged; they are read at once. An accepted operation (RocksDB keeps values and maps in separate column families) must be reflected by later reads of its kind, also across reopen, and must not change the item's data of the other kind. open_rocks_store(None, ..) (temporary-directory store) obeys the same model next to a second temporary store under the same names (rocks-transient). A second open of an open directory is refused without disturbing the open store. A malformed short key put under one map item's prefix by a foreign writer (rocks-foreign-key) makes read_map of that item fail with InvalidKey or return exactly its entries, leaves every other item exact, and is removed by clear_map. get_value appends to non-empty caller buffers of 3, 37 and 300 bytes, returns exactly the number of bytes appended, and leaves the buffer untouched when it returns None. StoreDisabled never fails and never returns anything that was not written.",
    "note": "Trusted base: the ~60-line reference model, the expansion of operations into single trait calls, the stdout ack protocol of the writer child. SIGKILL exercises process death, not power loss (the OS page cache survives). RocksDB itself is exercised, not modelled. Whether a store refuses cross-kind operations is not decided by the statement; both behaviours are counted. The foreign-key part trusts a replica of the keystore's counter merge operator.",
    "runs": [{"engine": "store"}],
    "sanitizers": [{"kind": "valgrind", "engine": "store", "args": ["--scale", "0.005", "--threads", "1", "--only", "rocks-reopen"], "timeout_s": 1800}],
    "assumptions": ["data operations of one item are sequential; names are registered concurrently only by different agents (one thread per agent); thread interleavings are sampled, not replayable", "fixed kind per item", "kill instants are sampled; the kill instant itself is not replayable", "TMPDIR honours write ordering for a killed process"],
}

PROPS["C17"] = {
    "title": "Inactivity shutdown needs all parties idle at once and cannot deadlock",
    "level": "exploration",
    "design_ref": "DESIGN.md §3 C17",
    "technique": "small-scope exhaustive execution of the real primitive against a specification model; randomized long sequences; multi-threaded stress with an offline interval checker; ThreadSanitizer; Miri",
    "text": "The real timeout_coord primitive (both in-tree constructors, 2 and 3 voters) is executed on every sequence of vote / rescind / drop / poll up to depth 8 / 6 (10 / 7 thorough), on 200 k - 5 M random 40-call sequences and on 20 k - 400 k multi-threaded runs. Every answer is compared with a model derived from the statement: unanimity is claimed only when every party holds a vote or is gone at the same moment; it is never denied afterwards; a pending waker fires on the latching call; a parked waiter always terminates (decided logically, not by timeout). Findings are classified by whether in-tree callers can produce the sequence. Runtime level (engine rawagent, part raw-inactivity): 20 000 / 1 M conversations with the real agent runtime under a 6-25 ms (virtual) inactivity timeout, idle gaps just below, at and above it, nothing stalled: the runtime never stops less than one timeout after a lane event or a delivered command (exact under the paused clock; work in the very instant of the stop is ambiguous and skipped), and it does stop once every party has been idle for five timeouts. The same two rules for the downlink runtime (engine dlrt, parts inactivity-directed / inactivity-value / inactivity-map: 122 000 / 3 M come-and-go conversations with empty_timeout 20 / 60 ms, consumers arriving just before, at and after the lone vote of one task, a final idle period of five timeouts): no inactivity stop while a served consumer is attached or less than one timeout after a consumer attached or left, and the runtime has returned by itself by the end of the final idle period. dlrt part inactivity-extras-directed: the downlink read task learns of its last consumers' departure while feeding them an event, and bad frames arrive around the votes; the two inactivity rules hold. The read task's rescind == Unanimous arm is unreachable by the runtime's polling order (a probe never fired).",
    "note": "Trusted base: the 60-line reference model and caller-discipline classifier in engines/vote/src/model.rs and the interval argument of the threaded checker (a call linearises inside its ticket interval). Exhaustive only up to the depth bound; concurrency is sampled (25% of threaded runs draw no tickets so that the SeqCst ticket clock does not mask weak-memory behaviour).",
    "runs": [{"engine": "vote"}, {"engine": "rawagent"}, {"engine": "dlrt"}],
    "sanitizers": [
        {"kind": "tsan", "engine": "vote", "args": ["--scale", "0.05", "--only", "threaded"], "quick": True, "timeout_s": 1800},
        {"kind": "miri", "tier": "quick", "engine": "vote", "args": ["--scale", "0.002", "--threads", "1", "--watchdog", "3000", "--only", "threaded"], "timeout_s": 3600},
    ],
    "assumptions": ["a dropped voter counts as voting even if it had rescinded", "at most 3 parties (the only in-tree constructors)", "agent runtime: with no remote registered the write task ends the agent on its own timeout without a vote (by design; such stops are judged only by the no-stop-within-a-timeout-of-a-lane-event rule); a command completely written at an earlier instant than a vote-based stop must have reached its lane", "runtime level: a task that has not noticed that its last consumer left (silent lane) has no vote outstanding, so a downlink runtime that stays up on a silent lane is not judged; 'will see the runtime stop' is decided as bounded progress: stopped within five timeouts of virtual time"],
}

_AGENT_NOTE = ("Trusted base: the harness remotes (byte-channel peers with paced/stalled/dropped readers), the lifecycle recorder of the derived agent (true lane history through on_event/on_set/on_update/on_remove/on_clear with global tickets), "
               "the paused Tokio clock as exact quiescence detector and the Jitter wrapper (delays a task only at poll boundaries). Schedules are sampled (channel capacities 2..4096, pacing, jitter, tokio's select order), not enumerated; "
               "a case is replayed by re-running it until the recorded signature shows again because hash seeds and select order are per process.")

PROPS["C01"] = {
    "title": "Value lanes: subscribers see an ordered, gap-tolerant, never-stale view",
    "level": "exploration",
    "design_ref": "DESIGN.md §3 C01",
    "technique": "runtime monitoring of the real agent runtime (AgentRouteTask + derived agent) under seeded hostile conversations; history oracle over ticketed frames and lifecycle callbacks",
    "text": "40 000 (quick) / 2 000 000 (thorough) seeded conversations of 1-4 simulated remotes with a derived agent run by the real runtime: value-lane commands with unique values from several remotes and handler-made sets, byte channels down to 2 bytes, paced, stalled and dropped readers, poll jitter. Oracle per (remote, lane): every received value is in the lane's true history, indices never decrease, a repeat only with a sync; at exact quiescence (paused clock, drained readers) every remote linked before the last change was requested holds the lane's current value, and a fresh syncing probe sees the last recorded value.",
    "note": _AGENT_NOTE,
    "runs": [{"engine": "agent"}, {"engine": "rawagent"}],
    "assumptions": ["values are unique per case so a received value identifies its write", "quiescence = virtual-time sleep returns with all readers unstalled", "rawagent (runtime level): harness lanes speak the lane byte protocol with unique bodies and, one time in eight, the empty body (the Recon of Extant / None), which carries no identity: it is judged by count and by being a body the lane produced"],
}
PROPS["C02"] = {
    "title": "Map lanes: every subscriber's replica converges to the lane's map",
    "level": "exploration",
    "design_ref": "DESIGN.md §3 C02",
    "technique": "runtime monitoring: replica fold of received map operations vs the lane's callback-recorded history (convergence at quiescence, per-key value order, clear epochs, take/drop at quiescent points)",
    "text": "Seeded conversations over three map lanes (HashMap<String,_>, BTreeMap<i32,_>, HashMap<i32,_>) with update/remove/clear by command and by handler over 2-5 colliding keys and take/drop between quiescent points. Oracle: the replica built from the operations a remote received equals the lane's map at exact quiescence for every link that was synced or predates the first change; per key the values seen are an in-order subsequence of the values the key held; no update from before a clear arrives after one from after it; take/drop leaves exactly the entries designated by the documented key order; a fresh syncing probe sees the fold of the callbacks.",
    "note": _AGENT_NOTE,
    "runs": [{"engine": "agent"}, {"engine": "uplinks"}, {"engine": "rawagent"}],
    "assumptions": ["values unique per case", "take/drop are checked only between two quiescent points so that the map before is known", "uplinks: small-scope exhaustive runs of MapOperationQueue/EventQueue/WriteQueues (depth 7/8, 3 keys, epoch wrap via hook) and drop_or_take on both backings", "rawagent: harness lanes emit Recon-equal key spellings; replica keyed by parsed Value"],
}
PROPS["C03"] = {
    "title": "Sync gives a consistent snapshot, then a gap-free tail",
    "level": "exploration",
    "design_ref": "DESIGN.md §3 C03",
    "technique": "runtime monitoring: per-key interval oracle (state at `synced` must intersect the ticketed window [sync request, synced receipt]) + convergence afterwards",
    "text": "Seeded conversations with sync requests placed anywhere in a stream of updates, by remotes that linked first and by remotes that only sync, several concurrently, slow readers. At every `synced` frame each key of the remote's replica (value lane: the value) must be in a state the lane held, per its ticketed callback history, at some moment between the sync request and the receipt (windows interrupted by the remote's own unlink are skipped); every sync on a surviving link is answered; afterwards the C01/C02 convergence oracles apply to it and the other observers are checked unchanged.",
    "note": _AGENT_NOTE + " The interval test uses callback tickets, which lag the state change by at most one handler step, so a snapshot that is stale by exactly the change in progress at the request is accepted.",
    "runs": [{"engine": "agent"}, {"engine": "uplinks"}, {"engine": "rawagent"}],
    "assumptions": ["values unique per case", "uplinks: every interleaving of push_operation/sync/pop on the real WriteQueues to depth 8/9 judged for linked, not-yet-linked and re-syncing observers", "rawagent: chunked and held sync answers from harness lanes"],
}
PROPS["C04"] = {
    "title": "Every uplink follows the WARP link state machine; no fabricated frames",
    "level": "exploration",
    "design_ref": "DESIGN.md §3 C04",
    "technique": "runtime monitoring: per (remote, lane) protocol state machine over received frames, count-matched against the remote's own requests; body provenance against the lane history; fault injection (dropped readers/remotes, agent stop)",
    "text": "Seeded conversations with link/sync/unlink/command envelopes in any order incl. repeats and unknown lanes, remotes that stall, drop their reader or both halves, agent stop. Oracle per (remote, lane): events and synced only inside a link; every `linked` answers a link or sync request of that remote; `synced` only with an unanswered sync request; `unlinked` outside a link only as lane-not-found for an unknown lane, one per link/sync request; no frame for a lane the remote never addressed; event bodies parse to states the lane produced (no empty, foreign or invented body); at agent stop every open link of a reading remote is closed by `unlinked` before its channel closes.",
    "note": _AGENT_NOTE + " A repeated explicit link on an open link is answered by another `linked` (count-matched); a sync whose answers straddle the remote's own unlink may re-link it (accepted).",
    "runs": [{"engine": "agent"}, {"engine": "uplinks"}, {"engine": "rawagent"}],
    "assumptions": ["uplinks: every push/push_special/replace_and_pop sequence on the real Uplinks to depth 5/6, frames really written and decoded", "rawagent: harness lanes know every byte they emitted (byte-for-byte bodies), inject lane failure (corrupt tag, truncated frame, closed writer), agent return and stop"],
}

PROPS["C12"] = {
    "title": "Byte channels are lossless bounded FIFO pipes with no lost wake-ups",
    "level": "exploration",
    "design_ref": "DESIGN.md §3 C12",
    "technique": "bounded-exhaustive poll-level execution of the real byte channel against a reference FIFO with counting wakers; random long sequences; two-thread stress; ThreadSanitizer and Miri",
    "text": "Every interleaving of poll_read / poll_write / flush / shutdown / drop up to 7 operations (8 thorough) is run on the real byte_channel for capacities 1-3 and request sizes 1-3, with and without the coop budget (1-4): 5e7 sequences quick, 4e8 thorough, each followed by drop-writer and drain-to-EOF, plus random 200-operation sequences up to capacity 64. Every call is judged against a reference FIFO: content, capacity bound, legality of Pending / EOF / error, and the wake obligation (a side whose last poll was Pending must be woken by the call that makes progress possible or closes). A two-thread AsyncRead/AsyncWrite stress checks stream equality and termination and is repeated under TSan (quick) and Miri (thorough). A close-race part polls one half in a tight loop on a second thread while the other half is dropped: every poll ordered after the drop must find the channel closed. The poll-level parts are run a second time (engine bytechan_nocoop, same sources) against the channel built without its default coop feature - the pass-through twins of the AsyncRead/AsyncWrite impls; each engine first probes which twin it is linked to and is inconclusive if it is the wrong one.",
    "note": "Trusted base: the harness model (VecDeque + two closed flags), tokio ReadBuf and the std Wake machinery; a Pending during which the caller's own waker fired is a budget-forced yield and legal. Beyond the depth bound the assurance is statistical.",
    "runs": [{"engine": "bytechan"}, {"engine": "bytechan_nocoop"}],
    "sanitizers": [
        {"kind": "tsan", "engine": "bytechan", "args": ["--scale", "1", "--only", "threaded"], "quick": True, "timeout_s": 1800},
        {"kind": "miri", "tier": "quick", "engine": "bytechan", "args": ["--scale", "0.002", "--threads", "1", "--watchdog", "3000"], "timeout_s": 3600},
    ],
    "assumptions": ["single reader and single writer (enforced by ownership)", "after shutdown with the writer alive both EOF and Pending are accepted before the drop", "a watchdog timeout in the threaded part is inconclusive; the deterministic parts decide"],
}

PROPS["C06"] = {
    "title": "Event handlers run one at a time, depth-first, in the documented order",
    "level": "exploration",
    "design_ref": "DESIGN.md §3 C06",
    "technique": "runtime monitoring with a differential oracle: generated handler programs interpreted into real boxed EventHandlers on a derived agent under the real runtime vs a reference interpreter of the documented semantics",
    "text": "100 000 (quick) / 3 000 000 (thorough) generated handler programs over the documented combinators (set/update/remove/clear/get/effect/and_then/followed_by/suspend/fail/stop/command) are interpreted into real EventHandlers on a derived agent (3 value lanes, 2 map lanes, value store, map store, 2 command lanes) run by the real AgentRouteTask/AgentModel loop under remote command and sync frames, harness-completed suspended futures and poll jitter. The full execution trace (handler entries with arguments and previous values, reads, writes) and all final item states must equal those of a reference interpreter of docs/event_handler.md + lifecycle.md: depth-first, on_event then on_set, true previous entry, on_start first, on_stop last, each change triggers once, nothing of a handler or of the handlers it interrupted after a failure. Across restarts (engine agent, part persist-and-restart: 3 000 / 100 000 conversations, each restarted at cut points of its store log): the first on_set / on_update after a restart is told the restored state - what a syncing remote has just been shown - as the previous value. In 3 of 10 programs the trees also use and_then_contextual (its function reads an item from the agent it is handed), and_then_try (failing functions), join/join3, Option<H>, SideEffects, Sequentially (incl. a failing element), get_parameter/with_parameters/get_agent_uri (agent started under route parameters), schedule_timer_event with on_timer trees (paused clock advanced 2 ms per quiescence; on_timer(id) must run as a handler of its own at its deadline, never inside the scheduling handler, never after stop), cue on a demand lane and sync requests to it (on_cue nested like any lane handler), cue_key on a demand-map lane (reaches the handler that runs after a completed write) and open_value_lane in on_start (on_done handler after on_start, in request order, before the first command). Two readings the documentation leaves open are tolerated and counted: the function of and_then_contextual/and_then_try being applied before the handlers of the first action's last change, and on_cue_key of a second key being deferred until the earlier value is written.",
    "note": "Trusted base: the ~330-line reference interpreter and the program-to-handler interpretation; logging only through context.effect / map closures. Acyclic programs only; cascades up to depth 8. Whether the agent task as a whole fails after a handler failure is *not* part of the statement: the runtime swallows a failure of a handler started by a remote command (logged as a rejected frame) and that is counted as an observation (--lenient-external-fail), not a violation. Timer ties are regenerated or inconclusive; programs with cue_key or delay-0 timers send inputs one at a time.",
    "runs": [{"engine": "handlers", "args": ["--lenient-external-fail", "1"]}, {"engine": "agent"}],
    "assumptions": ["one remote; order between frames to different lanes is only checked at quiescence", "a set to the same value and a clear of an empty map are accepted with or without triggering"],
}

PROPS["C05"] = {
    "title": "Persisted state is never older than what was published; restart restores it",
    "level": "fault_enumeration",
    "design_ref": "DESIGN.md §3 C05",
    "technique": "runtime monitoring with a recording NodePersistence + fault enumeration: restart of the real agent at every cut point of the store-operation log and after injected crashes (all tasks dropped at a seeded await point)",
    "text": "The real agent runtime runs with a harness NodePersistence (public trait) that tickets every call on the same clock as the remotes' frame logs. (1) Every event frame of a persistent lane must carry a state that was handed to the store at an earlier ticket. (2) For the cut points of the store-operation log (all of them in the thorough tier and for logs up to 24 operations, a seeded third otherwise, always including the empty and the final store) the store is rebuilt from that prefix, a fresh agent instance is started against it by the real runtime, a probe syncs every lane and a handler dumps the stores: persistent lanes/stores must hold exactly the fold of the prefix, transient ones their defaults. (3) The first incarnation ends by clean stop or by a crash that drops every task at a seeded script step; the restart against the store as it survived is the final cut point. Runtime level (engine rawpersist): a raw agent speaking the lane byte protocol is hosted by the real AgentRouteTask::run_agent_with_store on the recording store; value and map lanes, persistent and transient, are registered during initialisation and dynamically by the running agent (WriteTaskMessage::Lane). For every frame a remote received a matching store operation with a smaller ticket must exist; at every cut of the store log nothing a remote had been shown is newer than the store; after a stop, agent return, crash, inactivity timeout or injected store failure, fresh incarnations (at the end of the log and at random cuts, registration paths re-drawn) must be handed exactly the stored state by the runtime's lane initialisation; transient lanes get nothing and never reach the store. 50 000 histories quick, 500 000 thorough.",
    "note": _AGENT_NOTE + " rawpersist: trusted base is the harness store model (an ordered log applied to maps), the harness lane/agent and the remote-side decoders; tickets are drawn at the boundaries (inside store calls, after frame decode), so 'stored before received' is implied by, and slightly weaker than, 'stored before sent'. The crash model is 'all tasks dropped between two polls' (what a panic or process kill does to the in-memory store contract); durability of a real on-disk store under process kill is C13's business.",
    "runs": [{"engine": "agent"}, {"engine": "rawpersist"}],
    "assumptions": ["store operations are atomic calls (the trait is synchronous)", "ids handed out by id_for survive the crash", "rawpersist: bodies unique per case; harness lanes answer syncs atomically; no remote commands; item stores registered dynamically (add_store) are covered only at the swimos_agent level"],
}

PROPS["C14"] = {
    "title": "Supply lanes, command lanes and agent-sent commands are never coalesced",
    "level": "exploration",
    "design_ref": "DESIGN.md §3 C14",
    "technique": "runtime monitoring: exactly-once / in-order / no-loss oracles over unique items between producer-side records (handler pushes, send calls, envelopes sent) and consumer-side frames",
    "text": "Real runtime + derived agent: a command lane handler pushes bursts of unique items (up to 900 at once) to a supply lane while remotes read slowly, stall, link and unlink: per remote no duplicate, push order, and every item pushed by a command requested after the remote's stable link began is present. Every command envelope sent to the command lane invokes its handler exactly once, per remote in send order. Handlers send commands to three targets (two lanes behind one remote host sharing a channel, one local) with send_command, Commander::send (overwritable) and send_queued; the harness serves LinkRequest::Commander with slow/stalled readers: per target nothing arrives twice or at the wrong target, order per sending path is kept, every send_queued command arrives, an overwritable one is missing only if a later command to the same target exists. The rawagent engine repeats supply bursts (2000 items) and command delivery with harness lanes that see the command frames directly. A further part (agent-command-fault-conversations) makes the command channels themselves fail: five targets behind four channels (two remote hosts, two local lanes), of which one or two misbehave per case. The harness's LinkRequest::Commander server answers an open request with a fatal error, with transient errors within and beyond the configured retry budget (none, immediate, delayed), or drops it. Readers of open channels are closed, also under a queued send_queued burst behind a stalled target. Targets are left idle beyond the channel time-out on the paused clock and then used again. Over all channels ever opened for an endpoint, taken in open order, nothing arrives twice, at the wrong endpoint or channel, altered, or out of send order. Every command sent to an endpoint whose channel never failed must arrive; retries within the budget and idle time-out plus re-open do not count as failures, and this includes the command that triggers the re-open. Every command sent after the runtime had certainly noticed an endpoint's last failure must arrive too. Endpoints that never failed are judged in full whatever happened to the others. Commands lost together with a failed channel are counted, not reported.",
    "note": _AGENT_NOTE,
    "runs": [{"engine": "agent"}, {"engine": "rawagent"}],
    "assumptions": ["a retry strategy with n retries means the first request plus n more (as the unit test route_single_command_repeated_errors asserts)", "a command-channel failure is taken as noticed at the harness's next exact quiescent point (for a closed reader: after the next command for that endpoint)", "items and command values are unique", "completeness is only demanded at exact quiescence with all readers released"],
}

PROPS["C20"] = {
    "title": "Introspection reports the true number of links and counts every message",
    "level": "exploration",
    "design_ref": "DESIGN.md §3 C20",
    "technique": "small-scope exhaustive execution of the real Links registry with reporters against a reference set of pairs; end-to-end runtime monitoring of reporter snapshots at exact quiescent points; concurrent counter stress under TSan/Miri",
    "text": "Links registry (hook): every sequence to depth 5/6 and random sequences to depth 200 of register/insert/remove/remove_remote/remove_lane/remove_all_links/count_single/count_broadcast/targeted over 3 lanes x 4 remotes; after every operation each lane reader's link_count, the aggregate, linked_from/linked_to/is_linked and the running sum of event counts must equal the model. End to end (rawagent): the real runtime with NodeReporting and harness lanes; at each quiescent checkpoint (readers drained) every lane's and the aggregate's link_count must equal the number of remotes that can prove they hold a link (range for remotes whose reader was dropped), event counts are exact in emit-only phases, command counts cumulative; through link, unlink, remote disconnection, prune timeout, lane failure and stop. Concurrency: N counting threads against a snapshotting thread, sum of snapshots + final == sum of increments, under TSan (quick) and Miri (thorough). The reporting layer itself (swimos_introspection: registration task, URI forest, resolver, node / lane / mesh meta agents, UplinkSnapshot::make_pulse) is executed by engine introspect: the real register_introspection task and meta agents run beside 1-3 target agents on the real agent runtime with the resolver's NodeReporting, both against a harness AgentContext and hosted by the real runtime with remotes linked to the pulse lanes; node URIs include prefixes of one another. Under a paused clock every published pulse must carry the link count the simulated remotes prove for that instant; the event and command counts published by all consumers of a reader must add up, within per-instant bounds, to the event frames remotes received and the commands they sent; rates must be count per second of the lane's own interval; sync answers must replay the last snapshot; meta agents must start for every running, registered agent or lane and close within two intervals of its end. This found three defects of the reporting layer (URI forest, registration order, lane meta agent stopping at once), all repaired.",
    "note": "Trusted base: the reference set of (lane, remote) pairs, the harness lanes' own emission record, the paused clock as quiescence detector. A Synced response is counted as an event by the runtime and tolerated as such. introspect: ground truth is what remotes with always-draining readers received; links of remotes that vanished are bounded, not exact; a targeted Synced may or may not count as an event; the initial snapshot of a pulse lane is only visible through a sync; mesh listing and lane_pulse_interval (the lane agent uses the node interval) are observed, not judged.",
    "runs": [{"engine": "introspect"}, {"engine": "uplinks"}, {"engine": "rawagent"}],
    "sanitizers": [
        {"kind": "tsan", "engine": "uplinks", "args": ["--scale", "0.05", "--only", "counters-threads"], "quick": True, "timeout_s": 1800},
        {"kind": "miri", "tier": "quick", "engine": "uplinks", "args": ["--scale", "0.05", "--threads", "1", "--watchdog", "3000", "--only", "counters-threads"], "timeout_s": 3600},
    ],
    "assumptions": ["registration of a reporter only on link-free lanes (as the runtime does)", "remotes use unique routing ids"],
}

PROPS["C07"] = {
    "title": "A shared downlink serves every consumer a complete, ordered session",
    "level": "exploration",
    "design_ref": "DESIGN.md §3 C07",
    "technique": "runtime monitoring of the real Value/MapDownlinkRuntime between a simulated lane and 1-4 consumers: session-order, snapshot-window, contiguity and command-order oracles; exhaustive join-phase grid + seeded conversations",
    "text": "Real Value/MapDownlinkRuntime between a harness lane model and 1-4 consumers attaching at any phase with all SYNC/KEEP_LINKED combinations over 4-4096-byte channels, with stalls, drops and a slow socket. Per consumer: session order linked (event)* [synced] (event)* unlinked, synced iff requested, state at synced within [attach, receipt], events contiguous and complete once owed, unlinked at close. On the socket: per-consumer command order (value at all, map per key and across clears), only superseded commands dropped, final state equals all commands. 640-case exhaustive join grid plus 200k random conversations per quick run; 4M thorough. Frames no lane emits (parts badframe-directed / badframe-map / badframe-value: 19 000 / 500 000 conversations): an event whose body is not a map message reaches the map runtime under each in-tree BadFrameStrategy (always-abort, report(always-abort), boxed, always-ignore, boxed report(always-ignore)) at every point of a session; with an aborting strategy the runtime terminates and every served consumer is told unlinked with nothing after it; with an ignoring one nobody is unlinked and each consumer still receives exactly the well-formed events, in order, with consistent synced states; in no case does a consumer receive an event the lane did not send (this found an ignoring strategy forwarding an empty event: repaired). Undecodable or truncated envelopes: the runtime stopped and unlinked everybody in all runs (counted, not demanded). Parts feed-failure-*: with 3-4 consumers, one that stops listening is discovered while an event is being fed (8 KiB of unflushed 3 KB events arriving back to back) and removed by index; every other consumer gets every later event in order, and the runtime never closes a served consumer's channel without unlinked while it keeps running.",
    "note": "Trusted base: the harness lane model (sequential; answers one sync request with one snapshot and one synced; sends events only after the link request), the harness decoders, a 1 ms sleep under a paused clock as quiescence test. tokio::select! choice inside the read task is sampled, not enumerated. The abort and ignore rules rest on the documented contract in downlink/failure.rs (continue, ignoring the bad envelope / abort); the bad bodies used are unambiguously outside the five WARP map-message forms.",
    "runs": [{"engine": "dlrt"}],
    "assumptions": ["well-behaved remote lane", "disjoint keys per consumer on map lanes", "single-threaded cooperative scheduling"],
}

PROPS["C08"] = {
    "title": "Downlink local state equals the fold of what it received",
    "level": "exploration",
    "design_ref": "DESIGN.md §3 C08",
    "technique": "differential runtime monitoring of the stand-alone client downlink tasks and the agent-hosted downlinks against a reference fold; random + bounded-exhaustive notification sequences; greedy witness minimisation",
    "text": "Runs the real client downlink tasks (DownlinkTask::run) and real agent-hosted value/map downlinks (derived agent under AgentRouteTask, links served by the harness) on the same generated and exhaustively enumerated (depth 4/5) legal notification sequences, under all four events_when_not_synced x terminate_on_unlinked settings, with local writes, take/drop, relinks and connection loss. At every callback the exposed state must equal a reference fold, callbacks must match notification order and old/new values, on_synced fires exactly once per link, nothing is dispatched before sync when suppressed, and the two callback logs must be equal on sequences without take/drop. Illegal sequences are run for panics and hangs only. Input failures (channel closed before link / while syncing / synced / between links, unknown tag, undecodable body, frame truncated by end of stream) are fed identically to both implementations: the prefix is judged as any legal sequence with equal logs, at most one on_unlinked/on_failed may report the fault, nothing is dispatched afterwards unless the agent obtained a new connection, on which the fold restarts. The write side is exercised under back-pressure (2-16 byte outputs, stalled consumer, 8 KiB write buffer filled, handle.stop(), handle drop, consumer lost before or during a write) with the state and callback rules unchanged; what reaches the outputs there is counted as observed/output-* and not judged (the statement is about the replica and the callbacks).",
    "note": "Trusted base: frame encoders, byte_channel, the paused clock. Frames in the `legal` part are cut only in the header or between frames; body-splitting chunkings run in `legal-anycut`, where divergences at/after a split body are reported as body-split/* (the incremental Recon decoder's business, C09/C10). Take/drop callback shape is observed, not compared.",
    "runs": [{"engine": "dlimpl"}],
    "assumptions": ["keys i32, values u64, unique per case", "at most 3 links per script", "hosted side driven through the public LinkRequest channel"],
}

PROPS["C16"] = {
    "title": "Form: typed, model and wire representations of a value all agree",
    "level": "exploration",
    "design_ref": "DESIGN.md §3 C16",
    "technique": "randomised differential and round-trip monitoring on the real conversion functions over a battery of 118 Form types (75 derived) and mutated/foreign texts",
    "text": "For 118 Form types (75 derived, covering tag, rename, header, header_body, attr, body, slot, skip, generics, nesting, collections; 43 built-ins) each generated instance is converted to Value and back through both API pairs and written/read as MessagePack; about 1.1 M (quick) / 45 M (thorough) further texts (valid, valid for another type, structure-mutated, token-mutated, random, crafted) test that parse_recognize::<T> and parse-to-Value followed by try_from_value agree on accept/reject and on the value. Printer faithfulness observed on the way is recorded under C09, not here.",
    "note": "Trusted base: harness generators/mutators (inputs only), each type's PartialEq, Value's own equality (lenient across integer kinds), catch_unwind (a panic in any conversion is a violation).",
    "runs": [{"engine": "form", "args": ["--scale", "8"]}],
    "assumptions": ["finite f64 only", "skipped fields hold Default", "no Option<Option<_>>", "comments disabled in the parser"],
}

PROPS["C11"] = {
    "title": "WARP envelopes cross the socket unchanged and reach only their addressee",
    "level": "exploration",
    "design_ref": "DESIGN.md §3 C11",
    "technique": "runtime monitoring: exhaustive pool + random round trips through the real envelope encoder/peeler; two real RemoteTasks over an in-memory web socket with uniquely tagged traffic; virtual-time deadlock detection; poll-level MultiReader driver with counting wakers; Miri + TSan on the multiplexer; fault injection on the transport (write failure, write stall, EOF, peer Close) and on attached byte channels (corrupt and truncated frames)",
    "text": "Real ReconEncoder output for every envelope kind x adversarial node/lane/body strings (1.1 M pool + 300k/10M random) is read back unchanged by the real header peeler. Real RemoteTasks over an in-memory web socket, with 1-6 agents and 1-6 downlinks plus commanders attaching, writing uniquely tagged envelopes and detaching under back-pressure, must deliver every envelope only to its addressee, unchanged, in per-source order, with loss only after a detach; 19 kinds of invalid frames must reach nobody and must not stop the task. MultiReader loses, duplicates and reorders nothing and starves no stream across the 64-stream bucket boundary (poll level and foreign-thread wake-ups). Part socket-edge (8 000 / 200 000 cases) runs one RemoteTask against the raw web-socket peer over a transport that can fail writes or stop accepting bytes, on the paths where an envelope has no addressee or the connection goes away under live traffic: response envelopes for (node, lane) pairs nobody subscribed to; request envelopes on a task built without a resolver (each answered by exactly one @unlinked @nodeNotFound naming node and lane, commands by nothing); refusals through NodeConnectionRequest::fail (NoSuchAgent, PlaneStopping); attachments abandoned before confirmation; an agent or downlink channel that writes a complete frame the raw decoders reject, or dies inside a frame, while the other channels are busy. In all of these nothing may reach anyone but the addressee, all other traffic is still delivered unchanged and in order, and the task keeps running. After a peer Close frame mid-conversation everything the peer wrote before it is still delivered to attached endpoints; after a transport EOF or failing writes nothing is mis-delivered, altered or duplicated and no message stays out when a later one of the same source arrived; in all three cases the task ends (virtual time) with every attached channel closed and no source blocked; a task stopped on a transport that accepts no bytes ends within its close time-out + 1 s.",
    "note": "Trusted base: tokio duplex and paused clock, ratchet framing, byte_channel (C12), the raw message codecs (C10). Bodies are opaque text. select! fairness is sampled.",
    "runs": [{"engine": "remote"}],
    "sanitizers": [
        {"kind": "tsan", "engine": "remote", "args": ["--scale", "0.05", "--only", "multi-reader"], "quick": True, "timeout_s": 1800},
        {"kind": "miri", "tier": "quick", "engine": "remote", "args": ["--scale", "0.002", "--threads", "1", "--watchdog", "3000", "--only", "multi-reader"], "timeout_s": 3600},
    ],
    "assumptions": ["what becomes of a corrupt channel frame and of frames after a Close is observed, not judged; a task blocked in a socket write when stopped is not judged", "names and bodies are valid UTF-8", "harness readers always read (stalls <= 20 ms virtual)", "socket buffers 64 B - 64 kB, registration buffers 1-8"],
}

PROPS["C10"] = {
    "title": "Binary frames decode to what was encoded under any fragmentation",
    "level": "exploration",
    "design_ref": "DESIGN.md §3 C10",
    "technique": "runtime monitoring of every exported encoder/decoder pair: all single split points per input, byte-wise and random multi-splits, truncation + EOF; byte-level mutation of tags/length prefixes with re-encode oracle; child-process abort probe; Miri",
    "text": "Every encoder/decoder pair of swimos_agent_protocol::encoding and swimos_messages::protocol (46 instantiations incl. typed bodies as Value and Text) is driven with hostile 1-6 message streams decoded at every single split point, byte-wise, under random multi-splits and truncated with EOF: the decoded sequence, the per-message byte boundaries and the delivery of each message as soon as its last byte has arrived must match what was encoded; a valid stream never errors or panics. Tags and length prefixes are mutated: outcomes must be Err, or messages that re-encode to the bytes consumed (raw codecs), or frames consistent with the length prefixes present (typed codecs); panics are violations; allocation aborts are detected in child processes.",
    "note": "Trusted base: the reference wire layouts in engines/codec/src/wire.rs (self-checked against every real frame; a mismatch makes the case inconclusive). Recon bodies that a one-shot print/parse does not round-trip are replaced (C09's concern). Panics are observed with overflow checks on. For streams over 2 KiB interior split points are sampled.",
    "runs": [{"engine": "codec"}],
    "sanitizers": [{"kind": "miri", "tier": "quick", "engine": "codec", "args": ["--scale", "0.002", "--threads", "1", "--watchdog", "3000"], "timeout_s": 3600}],
    "assumptions": ["mutations touch header fields only", "behaviour after the first Err is not examined", "a hang inside one decode call shows only as a watchdog exit (inconclusive)"],
}

PROPS["C09"] = {
    "title": "Recon text is a faithful and stable encoding, however it is chunked",
    "level": "exploration",
    "design_ref": "DESIGN.md §3 C09",
    "technique": "runtime monitoring of the real printers, one-shot parser and incremental decoders: exact round-trip oracles over generated typed values, model values and mutated texts; every single cut position per input plus multi-cuts; robustness (no panic, bounded decode calls, resynchronisation after a bad frame); Miri (tree borrows) on a reduced set",
    "text": "The three Recon printers, parse_recognize, RecognizerDecoder and WithLenRecognizerDecoder are run on about 40k generated inputs per quick run (2M thorough): 33 typed (built-in and derived) types must round-trip through all printers; every model value the parser itself produced must come back exactly (floats by bits) through all printers and arbitrary values must reach a fixed point; the incremental decoders fed the same bytes cut at every single position (including inside the length header and inside multi-byte characters), one byte at a time and at random multi-cuts must give exactly the one-shot result; byte-mutated input (including invalid UTF-8) must never panic, must finish within a bounded number of decode calls and must not corrupt the following well-formed frame. The form engine's printer-faithfulness observations are recorded under this property as well.",
    "note": "Trusted base: the generators and the greedy shrinker (a shrunk candidate only counts as parser-produced when the real parser maps its explicit rendering to exactly that value); the one-shot parser is the reference for chunking. A hang inside one call shows only as the runner's watchdog (inconclusive). Depth limited to 64 as the property says (200/1000 only as an opt-in probe).",
    "runs": [{"engine": "recon", "args": ["--scale", "4"]}, {"engine": "form", "args": ["--scale", "4"]}],
    "sanitizers": [{"kind": "miri", "tier": "quick", "engine": "recon", "args": ["--scale", "0.002", "--threads", "1", "--watchdog", "3000"], "timeout_s": 5400}],
    "assumptions": ["finite floats for typed values", "generated grammar and byte mutations cover the tokenizer branches"],
}

PROPS["C15"] = {
    "title": "Comparing and hashing Recon text agrees with comparing parsed values",
    "level": "exploration",
    "design_ref": "DESIGN.md §3 C15",
    "technique": "metamorphic pair generation (reformattings, near misses, invalid texts) plus bounded-exhaustive token enumeration, judged by the real parser + Value equality",
    "text": "compare_recon_values, recon_hash and ReconKey Eq/Hash (the key used by back-pressure relief) are checked against parse_recognize::<Value> + Value == on about 190k generated pairs per quick run (19M thorough): canonical renderings vs 26 formatting variants and the three printers, near-miss edits, invalid texts (comparison must be string equality), all ordered pairs of 182 hand-written spellings, and all 88k valid strings of at most 6 tokens over an 11-token alphabet pairwise inside value classes and same-leaf-sequence buckets. Both directions are decided: equal values must compare equal and hash equally; different values must not compare equal.",
    "note": "Trusted base: equality and validity come only from the real parser; Value's own cross-kind equality rules are inherited (C19).",
    "runs": [{"engine": "recon"}],
    "assumptions": ["the enumeration alphabet has 11 tokens; longer interactions are sampled"],
}
